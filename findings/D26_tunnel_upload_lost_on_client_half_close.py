import os, sys; sys.path.insert(0, os.getcwd())
import socket, threading, time, hashlib
import proxy
N = 6*1024*1024
DATA = os.urandom(N)
got = bytearray(); done = threading.Event()
srv=socket.socket(); srv.setsockopt(socket.SOL_SOCKET, socket.SO_RCVBUF, 16384); srv.bind(('127.0.0.1',0)); srv.listen(1); uport=srv.getsockname()[1]
def origin():
    c,_=srv.accept(); c.settimeout(20)
    try:
        time.sleep(1.5)               # slow to start reading
        while True:
            d=c.recv(65536)
            if not d: break
            got.extend(d); time.sleep(0.002)
    except OSError as e: print('origin error', e)
    done.set()
threading.Thread(target=origin,daemon=True).start()
mode = sys.argv[1:] or ['--threadless']
with proxy.Proxy(['--port','0','--num-workers','1','--num-acceptors','1','--log-level','CRITICAL','--timeout','30']+mode) as p:
    c=socket.create_connection(('127.0.0.1', p.flags.port)); c.settimeout(20)
    c.sendall(b'CONNECT 127.0.0.1:%d HTTP/1.1\r\nHost: 127.0.0.1:%d\r\n\r\n' % (uport, uport))
    ack=c.recv(65536); assert ack.startswith(b'HTTP/1.1 200'), ack
    c.sendall(DATA)
    c.shutdown(socket.SHUT_WR)        # client is done sending; it keeps reading
    try:
        while c.recv(65536): pass
    except OSError: pass
    done.wait(30)
    print(mode, 'upstream received', len(got), 'of', N, 'identical' if bytes(got)==DATA else 'TRUNCATED')
    sys.exit(0 if bytes(got)==DATA else 1)
