import os, sys; sys.path.insert(0, os.getcwd())
import base64, socket, threading, time
import proxy
print(proxy.__file__)
from proxy.http import HttpProtocolHandler, HttpClientConnection
from proxy.common.flag import FlagParser
CRED='user:pass'; TOKEN=base64.b64encode(CRED.encode())
reqs=[]
srv=socket.socket(); srv.bind(('127.0.0.1',0)); srv.listen(5); port=srv.getsockname()[1]
def serve():
    conn,_=srv.accept(); buf=b''
    while True:
        d=conn.recv(65536)
        if not d: return
        buf+=d
        while b'\r\n\r\n' in buf:
            head,buf=buf.split(b'\r\n\r\n',1); reqs.append(head); conn.sendall(b'HTTP/1.1 200 OK\r\nContent-Length: 2\r\n\r\nok')
threading.Thread(target=serve,daemon=True).start()
flags=FlagParser.initialize(['--basic-auth',CRED],threaded=True)
c,s=socket.socketpair()
h=HttpProtocolHandler(HttpClientConnection(s,('127.0.0.1',54321)),flags=flags)
threading.Thread(target=h.run,daemon=True).start()
host=b'127.0.0.1:%d'%port
def rd():
    c.settimeout(10); b=b''
    while not b.endswith(b'\r\n\r\nok'):
        d=c.recv(65536)
        if not d: break
        b+=d
    return b
def req(path, extra=b''):
    c.sendall(b'GET http://'+host+path+b' HTTP/1.1\r\nHost: '+host+b'\r\nProxy-Authorization: Basic '+TOKEN+b'\r\n'+extra+b'\r\n'); r=rd(); time.sleep(0.2); return r
req(b'/one'); req(b'/two', b'Connection: Upgrade, HTTP2-Settings\r\nUpgrade: h2c\r\nHTTP2-Settings: AAMAAABkAAQCAAAAAAIAAAAA\r\n'); req(b'/three')
for i,r in enumerate(reqs): print(i+1, b'proxy-authorization' in r.lower(), r[:40])
