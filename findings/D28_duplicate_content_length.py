"""D28: a message whose Content-Length field is spelled in another case is rebuilt with TWO Content-Length fields.

Run:  cd <checkout> && /venv/bin/python /verif/findings/D28_duplicate_content_length.py   (exit 0 = exactly one length field)
Fails on 508dc1c and before, passes from the fix commit on.  Reported as an aside by a round-6 sub-agent, confirmed here."""
import os, sys; sys.path.insert(0, os.getcwd())
from proxy.http.parser import HttpParser, httpParserTypes

bad = 0
for kind, raw, build in (
        ('request', b'POST http://h/p HTTP/1.1\r\nhost: h\r\ncontent-length: 5\r\n\r\nhello', lambda p: p.build()),
        ('request', b'POST http://h/p HTTP/1.1\r\nHost: h\r\nCONTENT-LENGTH: 5\r\n\r\nhello', lambda p: p.build()),
        ('request', b'POST http://h/p HTTP/1.1\r\nHost: h\r\nContent-Length: 5\r\n\r\nhello', lambda p: p.build()),
        ('response', b'HTTP/1.1 200 OK\r\ncontent-length: 5\r\n\r\nhello', lambda p: p.build_response()),
        ('response', b'HTTP/1.1 200 OK\r\nContent-Length: 5\r\n\r\nhello', lambda p: p.build_response())):
    p = HttpParser(httpParserTypes.REQUEST_PARSER if kind == 'request' else httpParserTypes.RESPONSE_PARSER)
    p.parse(memoryview(raw))
    out = build(p)
    head = out.split(b'\r\n\r\n', 1)[0].lower()
    n = head.count(b'content-length:')
    print('%-8s %-22r -> %d Content-Length field(s)%s' % (kind, raw.split(b'\r\n')[-3][:22], n, '' if n == 1 else '   <-- EXPECTED exactly 1'))
    bad += n != 1
sys.exit(1 if bad else 0)
