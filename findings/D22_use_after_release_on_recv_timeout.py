import os, sys; sys.path.insert(0, os.getcwd())
import asyncio, errno, socket
from unittest import mock
from proxy.common.flag import FlagParser
from proxy.http import HttpProtocolHandler, HttpClientConnection
from proxy.http.proxy import HttpProxyPlugin
from proxy.core.connection import UpstreamConnectionPool
flags = FlagParser.initialize(['--enable-conn-pool'], threaded=True)
c, s = socket.socketpair()
h = HttpProtocolHandler(HttpClientConnection(s, ('127.0.0.1', 1)), flags=flags, upstream_conn_pool=UpstreamConnectionPool())
h.initialize()
srv = socket.socket(); srv.bind(('127.0.0.1', 0)); srv.listen(1)
port = srv.getsockname()[1]
h.handle_data(memoryview(b'GET http://127.0.0.1:%d/ HTTP/1.1\r\nHost: x\r\n\r\n' % port))
p = h.plugin
assert isinstance(p, HttpProxyPlugin) and p.upstream is not None, p
fd = p.upstream.connection.fileno()
with mock.patch.object(type(p.upstream), 'recv', side_effect=TimeoutError(errno.ETIMEDOUT, 'timed out')):
    try:
        r = asyncio.new_event_loop().run_until_complete(p.read_from_descriptors([fd]))
        print('read_from_descriptors returned', r, '(teardown after draining the client buffer)')
    except AttributeError as e:
        print('AttributeError escaped read_from_descriptors:', e); sys.exit(1)
