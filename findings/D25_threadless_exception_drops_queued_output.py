import os, sys; sys.path.insert(0, os.getcwd())
import socket, threading, time, hashlib, fcntl, termios, struct
import proxy
BODY = os.urandom(8*1024*1024)
EXPECTED = b'HTTP/1.1 200 OK\r\nContent-Length: %d\r\n\r\n' % len(BODY) + BODY
HAS_ALL = threading.Event()
srv=socket.socket(); srv.bind(('127.0.0.1',0)); srv.listen(1); uport=srv.getsockname()[1]
def origin():
    c,_=srv.accept(); buf=b''
    while b'\r\n\r\n' not in buf: buf+=c.recv(65536)
    c.sendall(EXPECTED)
    while struct.unpack('i', fcntl.ioctl(c.fileno(), termios.TIOCOUTQ, b'\0'*4))[0] > 0: time.sleep(0.05)
    time.sleep(2.0); HAS_ALL.set(); time.sleep(20)
threading.Thread(target=origin,daemon=True).start()
mode = sys.argv[1:] or ['--threadless']
with proxy.Proxy(['--port','0','--num-workers','1','--num-acceptors','1','--log-level','CRITICAL','--timeout','30']+mode) as p:
    c=socket.socket(); c.setsockopt(socket.SOL_SOCKET, socket.SO_RCVBUF, 8192); c.connect(('127.0.0.1', p.flags.port)); c.settimeout(30)
    c.sendall(b'GET http://127.0.0.1:%d/big HTTP/1.1\r\nHost: x\r\n\r\n' % uport)
    assert HAS_ALL.wait(40)
    c.sendall(b'POST http://127.0.0.1:1/x HTTP/1.1\r\nHost: x\r\nContent-Length: abc\r\n\r\n'); time.sleep(1.0)
    data=bytearray()
    try:
        while True:
            d=c.recv(262144)
            if not d: break
            data+=d
    except OSError as e: print('error', e)
    print(mode, 'received', len(data), 'of', len(EXPECTED), 'identical' if bytes(data)==EXPECTED else 'TRUNCATED/DIFFERENT')
    sys.exit(0 if bytes(data)==EXPECTED else 1)
