import os, sys; sys.path.insert(0, os.getcwd())
# run as: cd <checkout of proxy.py> && timeout 10 /venv/bin/python this_file ; exit status 124 = parse() never returned
from proxy.http.parser import HttpParser, httpParserTypes
p = HttpParser(httpParserTypes.REQUEST_PARSER)
p.parse(memoryview(b'POST / HTTP/1.1\r\nHost: x\r\nContent-Length: 5\r\nContent-Length: 0\r\n\r\nxx'))
print('returned, state', p.state)
