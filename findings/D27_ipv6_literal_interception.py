"""D27: TLS interception of a CONNECT to an IPv6 literal (derived from the harness of seeded/C11-I/demo.py).

CONNECT shop.test / 127.0.0.1 / [::1] with interception enabled; each must be presented a CA-signed leaf naming the host and
reach its origin.  Before fix 508dc1c the [::1] exchanges failed (upstream verification against "[::1]").

(original docstring of the harness follows)

C11 demo A: interception of a CONNECT host whose name is longer than 64 characters.

A client CONNECTs (interception enabled, origin certificate trusted) to

  * a short host name            -> control, must work
  * a 76 character host name     -> valid DNS name (labels <= 63, total <= 253)

and, as a verifying TLS client trusting only the proxy CA, expects a leaf naming
the host, chaining to the CA, and its request answered by the origin.

Run:  cd <worktree> && /venv/bin/python demo.py      (exit 0 = property holds)
"""
import os, sys; sys.path.insert(0, os.getcwd())
import proxy
assert os.path.realpath(proxy.__file__).startswith(
    os.path.realpath(os.getcwd()) + os.sep,
), 'wrong proxy package imported: %s' % proxy.__file__

import shutil
import socket
import ssl
import subprocess
import tempfile
import threading
import time

from proxy.http.proxy import HttpProxyBasePlugin

OPENSSL = shutil.which('openssl') or 'openssl'
SHORT = 'shop.test'
LONG = 'a' * 40 + '.' + 'b' * 30 + '.test'      # 76 characters
assert len(LONG) > 64 and all(len(x) <= 63 for x in LONG.split('.'))


def watchdog():
    print('FAIL: demo timed out')
    sys.stdout.flush()
    os._exit(2)


threading.Timer(50, watchdog).start()


def sh(*cmd):
    subprocess.run(cmd, check=True, stdout=subprocess.PIPE, stderr=subprocess.PIPE, timeout=30)


def make_ca(d, name, cn):
    key, crt = os.path.join(d, name + '.key'), os.path.join(d, name + '.crt')
    sh(
        OPENSSL, 'req', '-x509', '-newkey', 'rsa:2048', '-nodes', '-keyout', key, '-out', crt,
        '-days', '30', '-subj', '/CN=' + cn,
        '-addext', 'basicConstraints=critical,CA:TRUE',
        '-addext', 'keyUsage=critical,keyCertSign,cRLSign',
    )
    return key, crt


def make_leaf(d, name, cn, san, ca_key, ca_crt, serial):
    key, csr, crt, ext = (os.path.join(d, name + e) for e in ('.key', '.csr', '.crt', '.ext'))
    with open(ext, 'w') as f:
        f.write('subjectAltName=' + san + '\n')
    sh(OPENSSL, 'req', '-newkey', 'rsa:2048', '-nodes', '-keyout', key, '-out', csr, '-subj', '/CN=' + cn)
    sh(
        OPENSSL, 'x509', '-req', '-in', csr, '-CA', ca_crt, '-CAkey', ca_key,
        '-set_serial', str(serial), '-days', '30', '-extfile', ext, '-out', crt,
    )
    return key, crt


class Origin(threading.Thread):
    """TLS origin, records the plaintext request heads it receives."""

    def __init__(self, key, crt, v6=False):
        super().__init__(daemon=True)
        self.v6 = v6
        self.ctx = ssl.SSLContext(ssl.PROTOCOL_TLS_SERVER)
        self.ctx.load_cert_chain(crt, key)
        self.sock = socket.socket(socket.AF_INET6 if self.v6 else socket.AF_INET)
        self.sock.bind(('::1' if self.v6 else '127.0.0.1', 0))
        self.sock.listen(8)
        self.port = self.sock.getsockname()[1]
        self.received = []
        self.start()

    def run(self):
        while True:
            try:
                c, _ = self.sock.accept()
            except OSError:
                return
            threading.Thread(target=self.serve, args=(c,), daemon=True).start()

    def serve(self, c):
        try:
            c.settimeout(10)
            s = self.ctx.wrap_socket(c, server_side=True)
            buf = b''
            while True:
                data = s.recv(65536)
                if not data:
                    break
                buf += data
                while b'\r\n\r\n' in buf:
                    head, buf = buf.split(b'\r\n\r\n', 1)
                    self.received.append(head)
                    body = b'origin-says:' + head.split(b' ')[1]
                    s.sendall(b'HTTP/1.1 200 OK\r\nContent-Length: %d\r\n\r\n%s' % (len(body), body))
        except Exception:
            pass
        finally:
            c.close()


class Loopback(HttpProxyBasePlugin):
    def resolve_dns(self, host, port):
        if host == SHORT:
            return '127.0.0.1', None
        return None, None


def recv_until(s, marker):
    buf = b''
    while marker not in buf:
        data = s.recv(65536)
        if not data:
            break
        buf += data
    return buf


def fetch(proxy_port, host, origin_port, ca_crt):
    """CONNECT host through the proxy, verify the leaf, do one request."""
    target = ('%s:%d' % ('[' + host + ']' if ':' in host else host, origin_port)).encode()
    s = socket.create_connection(('127.0.0.1', proxy_port), timeout=10)
    s.sendall(b'CONNECT %s HTTP/1.1\r\nHost: %s\r\n\r\n' % (target, target))
    head = recv_until(s, b'\r\n\r\n')
    if not head.startswith(b'HTTP/1.1 200'):
        return 'no tunnel: CONNECT answered %r' % head
    ctx = ssl.create_default_context(cafile=ca_crt)     # trusts ONLY the proxy CA
    try:
        t = ctx.wrap_socket(s, server_hostname=host)
    except (ssl.SSLError, OSError) as e:
        return 'TLS handshake with the proxy failed: %r' % e
    cert = t.getpeercert()
    sans = [v for k, v in cert.get('subjectAltName', ()) if k in ('DNS', 'IP Address')]
    if host not in sans and not (host == '::1' and '0:0:0:0:0:0:0:1' in sans):
        return 'leaf does not name the host, SAN=%r' % sans
    issuer = dict(x[0] for x in cert['issuer']).get('commonName')
    if issuer != 'Demo Proxy CA':
        return 'leaf not issued by the configured CA but by %r' % issuer
    t.sendall(b'GET /hello HTTP/1.1\r\nHost: %s\r\n\r\n' % host.encode())
    resp = recv_until(t, b'origin-says:/hello')
    t.close()
    if not resp.startswith(b'HTTP/1.1 200 OK') or not resp.endswith(b'origin-says:/hello'):
        return 'response not intact: %r' % resp
    return None


def main():
    d = tempfile.mkdtemp(prefix='c11a-')
    pca_key, pca_crt = make_ca(d, 'proxyca', 'Demo Proxy CA')
    oca_key, oca_crt = make_ca(d, 'originca', 'Demo Origin CA')
    sign_key = os.path.join(d, 'signing.key')
    sh(OPENSSL, 'genrsa', '-out', sign_key, '2048')
    cert_dir = os.path.join(d, 'certs')
    os.mkdir(cert_dir)
    origins = {
        SHORT: Origin(*make_leaf(d, 'short', SHORT, 'DNS:' + SHORT, oca_key, oca_crt, 11)),
        # Long names cannot be a CN (64 char limit), such origins carry them in SAN only.
        '::1': Origin(*make_leaf(d, 'v6', 'Demo Origin', 'IP:::1', oca_key, oca_crt, 12), v6=True),
        '127.0.0.1': Origin(*make_leaf(d, 'v4', 'Demo Origin', 'IP:127.0.0.1', oca_key, oca_crt, 13)),
    }
    p = proxy.Proxy([
        '--hostname', '127.0.0.1', '--port', '0', '--num-workers', '1', '--num-acceptors', '1',
        '--log-level', 'i',
        '--ca-key-file', pca_key, '--ca-cert-file', pca_crt, '--ca-signing-key-file', sign_key,
        '--ca-cert-dir', cert_dir, '--ca-file', oca_crt,
    ])
    p.flags.plugins[b'HttpProxyBasePlugin'].append(Loopback)
    p.__enter__()
    failures = []
    try:
        for host in (SHORT, '127.0.0.1', '::1'):
            for attempt in ('cold cache', 'warm cache'):
                before = len(origins[host].received)
                err = fetch(p.flags.port, host, origins[host].port, pca_crt)
                if err is None and len(origins[host].received) != before + 1:
                    err = 'origin did not receive the request'
                label = '%s (%d chars), %s' % (host if len(host) < 20 else host[:12] + '...', len(host), attempt)
                print('%-45s %s' % (label, 'ok' if err is None else 'FAILED: ' + err))
                if err is not None:
                    failures.append((host, attempt, err))
    finally:
        try:
            p.__exit__(None, None, None)
        except Exception:
            pass
        shutil.rmtree(d, ignore_errors=True)
    if failures:
        print('\nEXPECTED: every CONNECT host, including valid names longer than 64 characters, is')
        print('          presented a CA-signed leaf naming it and its request reaches the origin.')
        print('OBSERVED: %d of 4 exchanges failed (see above).' % len(failures))
        return 1
    print('\nOK: leaf certificate named the host and chained to the CA for all hosts')
    return 0


if __name__ == '__main__':
    rc = main()
    sys.stdout.flush()
    os._exit(rc)
