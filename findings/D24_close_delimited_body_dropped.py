import os, sys; sys.path.insert(0, os.getcwd())
import socket, threading, time
import proxy
from proxy.http import HttpProtocolHandler, HttpClientConnection
from proxy.common.flag import FlagParser
srv=socket.socket(); srv.bind(('127.0.0.1',0)); srv.listen(1); port=srv.getsockname()[1]
def origin():
    c,_=srv.accept(); c.recv(65536)
    c.sendall(b'HTTP/1.0 200 OK\r\nServer: x\r\n\r\n'); time.sleep(0.3)
    c.sendall(b'abc\r\ndef'); time.sleep(0.3); c.close()
threading.Thread(target=origin,daemon=True).start()
flags=FlagParser.initialize([],threaded=True)
c,s=socket.socketpair()
h=HttpProtocolHandler(HttpClientConnection(s,('127.0.0.1',1)),flags=flags)
threading.Thread(target=h.run,daemon=True).start()
c.sendall(b'GET http://127.0.0.1:%d/ HTTP/1.0\r\nHost: x\r\n\r\n'%port)
c.settimeout(5); buf=b''
try:
    while True:
        d=c.recv(65536)
        if not d: break
        buf+=d
except Exception as e: print('exc',e)
print(buf)
sys.exit(0 if buf.endswith(b'abc\r\ndef') else 1)
