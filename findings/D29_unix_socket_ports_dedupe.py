"""D29 (observed, NOT yet decided by any rule): with a Unix socket as primary endpoint, an additional TCP port whose number equals
the never-bound default of --port disappears from flags.ports and from the port file although it is bound and accepting.

Proxy.setup removes flags.port from the additional ports to avoid listing the primary port twice; with --unix-socket-path no primary
TCP port exists, flags.port still holds its default (8899), and `--ports 8899` is taken for a duplicate of it.

Run:  cd <checkout> && /venv/bin/python /verif/findings/D29_unix_socket_ports_dedupe.py   (exit 0 = the port file names the bound port)
Fails on c099d78.  Noticed while reading by the round-7 author of seeded/C19-M, run once by the main session at the end of the
last session; recorded in DESIGN.md section 3 as an open observation: no check reports it, it is neither repaired nor listed in
known_findings.json (that file only lists what a check reports)."""
import os, sys, socket, tempfile
sys.path.insert(0, os.getcwd())
import proxy
from proxy.common.constants import DEFAULT_PORT

d = tempfile.mkdtemp()
pf, us = os.path.join(d, 'ports'), os.path.join(d, 's.sock')
with proxy.Proxy(['--unix-socket-path', us, '--ports', str(DEFAULT_PORT), '--port-file', pf,
                  '--num-workers', '1', '--num-acceptors', '1', '--log-level', 'e']) as p:
    listed = open(pf).read().split()
    s = socket.socket()
    s.settimeout(2)
    try:
        s.connect(('127.0.0.1', DEFAULT_PORT))
        bound = True
    except OSError:
        bound = False
    s.close()
    print('flags.ports = %r, port file = %r, TCP %d accepting = %s' % (p.flags.ports, listed, DEFAULT_PORT, bound))
    ok = (not bound) or (str(DEFAULT_PORT) in listed and DEFAULT_PORT in p.flags.ports)
if not ok:
    print('EXPECTED the bound TCP port to be in flags.ports and in the port file')
sys.exit(0 if ok else 1)
