"""C16 -- WebSocket frames round-trip for every size and flag combination.

Decided: agreements between the two halves of the codec that hold for every payload --
struct format arity/width, the three length classes and their markers, cursor discipline
of the decoder (contiguous reads, remainder = everything after the last read), None-vs-zero
tests on the payload length, bit layout of the two header bytes, the masking key being
written/read under the same condition and used for masking, the accept-token formula.
Not decided: the round trip itself over all payloads, byte equality with an independent
encoder."""
import ast
import struct
from typing import Any, Dict, List, Optional, Tuple

from ..cfg import cfg_of, Path
from ..consteval import ConstEval, Unknown
from ..flow import Sym, Lin, linform, find_calls, fpaths, allfacts
from ..model import attr_chain, norm, walk_no_nested, FuncInfo, AnalysisError
from ..report import Checker

RFC6455_GUID = b'258EAFA5-E914-47DA-95CA-C5AB0DC85B11'


def _fmt_items(fmt: str) -> int:
    """number of values a struct format packs"""
    n = 0
    num = ''
    for ch in fmt:
        if ch in '@=<>!':
            continue
        if ch.isdigit():
            num += ch
            continue
        if ch in 'sp':
            n += 1
        elif ch == 'x':
            pass
        else:
            n += int(num) if num else 1
        num = ''
    return n


def _emit_ops(st: ast.AST) -> List[Tuple[ast.AST, ast.AST]]:
    """the pieces a statement appends to the frame being assembled, whatever the accumulator is: buf.write(v) on a stream,
    parts.append(v) on a list that is joined at the end, out += v on a bytes / bytearray local  ->  [(node, v)]"""
    out: List[Tuple[ast.AST, ast.AST]] = []
    if isinstance(st, ast.AugAssign) and isinstance(st.op, ast.Add) and isinstance(st.target, ast.Name):
        out.append((st, st.value))
    for c in walk_no_nested(st):
        if isinstance(c, ast.Call) and isinstance(c.func, ast.Attribute) and c.func.attr in ('write', 'append') and len(c.args) == 1 and not c.keywords and \
                isinstance(c.func.value, ast.Name):
            out.append((c, c.args[0]))
    return out


def run(ch: Checker) -> None:
    prog = ch.prog
    ce = ConstEval(prog)
    ch.rule('C16.10', 'there is one encoder: frame bytes are assembled (struct.pack) in WebsocketFrame.build() and the helpers it calls, nowhere else in proxy/http/websocket; '
                      'every other producer of frames (text(), ...) returns the result of build() on a frame object -- a second encoder must repeat the length classes and the masking rules and can disagree with the first', 2)
    ch.rule('C16.9', 'build() returns the contents of a buffer it created in this call (io.BytesIO() / bytearray() / b\'\'), not of an object kept on the instance: a recycled frame object must not emit bytes of the frame it built before', 1)
    ch.rule('C16.1', 'every struct.pack/unpack in proxy/http/websocket with a literal (or table-driven) format: number of format items = number of values; '
                     'for unpack calcsize(format) = width of the slice passed and number of targets', 5)
    ch.rule('C16.2', 'encoder and decoder agree on the length classes: markers 126/127 carry 2/8 extension bytes on both sides; '
                     'encoder thresholds are 126, 1<<16, 1<<64 and the 7-bit class carries the length itself', 4)
    ch.rule('C16.3', 'decoder cursor discipline: reads of the input are contiguous from offset 0 (each read starts where the previous ended) '
                     'and the returned remainder starts where the last read ended, on every path', 1)
    ch.rule('C16.4', 'zero is a length, not an absence: payload_length is tested with `is None`, never by truthiness; '
                     'the length is derived from data under `data is not None`', 2)
    ch.rule('C16.5', 'bit layout agrees: FIN/RSV1-3/opcode and MASK/7-bit length use the same bit positions in build and parse', 6)
    ch.rule('C16.6', 'masking key: written by build on exactly the paths where `masked` holds, read by parse on exactly those paths, 4 bytes wide, '
                     'placed before the payload, and the payload is masked with the very key that was written', 2)
    ch.rule('C16.6b', 'apply_mask XORs payload byte i with key byte i % 4', 1)
    ch.rule('C16.8', 'field order: extended length, then masking key, then payload -- the decoder consumes them in the order the encoder writes them', 2)
    ch.rule('C16.7', 'accept token = base64(sha1(key + GUID)) with the RFC 6455 GUID', 2)

    frame = prog.class_named('WebsocketFrame')
    m = frame.module
    build = prog.own_method('WebsocketFrame', 'build')
    parse = prog.own_method('WebsocketFrame', 'parse')

    # ---------------- C16.1 struct arity / width
    for mod in prog.modules.values():
        if not mod.name.startswith('proxy.http.websocket'):
            continue
        for fn in [f for f in prog.functions.values() if f.module is mod]:
            g = None
            for c in walk_no_nested(fn.node):
                if isinstance(c, ast.Call) and attr_chain(c.func) in ('struct.pack', 'struct.unpack') and c.args:
                    try:
                        fmt = ce.eval(mod, c.args[0])
                    except Unknown:
                        tab = _table_lookup(fn, c, prog, ce)
                        if tab is None:
                            ch.note('struct call with non-literal format skipped: %s' % norm(c)[:60])
                            continue
                        # format and width both come out of one table row selected by the length marker: check every row
                        for marker, (tfmt, tsize) in sorted(tab.items()):
                            ok_row = isinstance(tfmt, str) and isinstance(tsize, int) and struct.calcsize(tfmt) == tsize and _fmt_items(tfmt) == 1
                            ch.check(ok_row, 'C16.1', fn, 'table row %r -> %r' % (marker, (tfmt, tsize)), 'unpack %r: calcsize = %d = width taken from the same row' % (tfmt, tsize),
                                     'extended-length table row %r: format %r does not describe exactly one field of %r bytes' % (marker, tfmt, tsize), line=c.lineno)
                        continue
                    if isinstance(fmt, bytes):
                        fmt = fmt.decode()
                    items = _fmt_items(fmt)
                    if attr_chain(c.func) == 'struct.pack':
                        nvals = len(c.args) - 1
                        if any(isinstance(a, ast.Starred) for a in c.args[1:]):
                            ch.note('struct.pack with starred args skipped')
                            continue
                        ch.check(items == nvals, 'C16.1', fn, c, 'pack %r: %d items, %d values' % (fmt, items, nvals),
                                 'struct.pack format %r has %d items but %d value(s) are passed (struct.error at run time)' % (fmt, items, nvals))
                    else:
                        width = _unpack_width(fn, c, prog)
                        size = struct.calcsize(fmt)
                        if width is None:
                            ch.ok('C16.1', fn, c, 'unpack %r: %d bytes; width of the argument not a visible slice' % (fmt, size))
                        else:
                            ch.check(width == Lin(size), 'C16.1', fn, c, 'unpack %r: calcsize %d = slice width' % (fmt, size),
                                     'struct.unpack format %r needs %d bytes but the slice passed is %s wide' % (fmt, size, width))

    # ---------------- C16.2 length classes
    gb = cfg_of(build, prog)
    enc: Dict[Any, Tuple[int, str]] = {}   # marker -> (extension bytes, threshold fact)
    thresholds: List[Any] = []
    seen_sites = set()
    for p in fpaths(gb):
        ch.paths += 1
        if p.exit_kind != 'return':
            continue
        sym = Sym(p)
        facts = list(allfacts(p).items())
        for idx, st in p.stmts():
            for c in walk_no_nested(st):
                if isinstance(c, ast.Call) and attr_chain(c.func) == 'struct.pack' and len(c.args) >= 2:
                    fmt = ce.try_eval(m, c.args[0])
                    if not isinstance(fmt, str):
                        continue
                    second = sym.value(c.args[1], idx)
                    # second-byte packs mention `masked` (directly or through a local) -- or the path tested it
                    if not any(isinstance(n, ast.Attribute) and n.attr == 'masked' for n in ast.walk(second)) and not any(k == 'self.masked' for k, v in list(allfacts(p, idx).items()) if True) \
                            or not any('payload_length <' in k for k, v in list(allfacts(p, idx).items())):
                        continue
                    if id(c) in seen_sites:
                        continue
                    seen_sites.add(id(c))
                    ext = struct.calcsize(fmt) - 1
                    marker = _marker_of(second, m, ce)
                    ths = [f for f in facts if 'payload_length <' in f[0]]
                    bound = None
                    for atom, pol in ths:
                        if pol:
                            try:
                                bound = ce.eval(m, ast.parse(atom, mode='eval').body.comparators[0])  # type: ignore[attr-defined]
                            except Exception:
                                bound = None
                    if marker == 'LEN':
                        ch.check(ext == 0 and bound == 126, 'C16.2', build, c,
                                 '7-bit class: length < 126 stored in the second byte, no extension',
                                 '7-bit length class: extension bytes %d, threshold %r (expected 0 and 126)' % (ext, bound))
                        enc['LEN'] = (ext, str(bound))
                    elif marker in (126, 127):
                        want_ext = {126: 2, 127: 8}[marker]
                        want_bound = {126: 1 << 16, 127: 1 << 64}[marker]
                        # the value packed after the marker must be the payload length
                        vals_ok = len(c.args) >= 3 and norm(sym.value(c.args[-1], idx)).endswith('payload_length')
                        ch.check(ext == want_ext and bound == want_bound and vals_ok, 'C16.2', build, c,
                                 'marker %d: %d extension bytes below %d' % (marker, ext, want_bound),
                                 'marker %d written with %d extension byte(s) under threshold %r, value %s (RFC 6455: %d bytes below %d)'
                                 % (marker, ext, bound, norm(c.args[-1])[:40], want_ext, want_bound))
                        enc[marker] = (ext, str(bound))
                    else:
                        ch.bad('C16.2', build, c, 'second header byte carries neither the length nor marker 126/127: %s' % norm(second)[:80])
    for k in ('LEN', 126, 127):
        if k not in enc:
            ch.bad('C16.2', build, 'length class %s' % k, 'encoder has no branch for length class %s' % k)

    gp = cfg_of(parse, prog)
    dec: Dict[int, Lin] = {}
    for p in fpaths(gp):
        ch.paths += 1
        sym = Sym(p)
        for idx, st in p.stmts():
            for c in walk_no_nested(st):
                if isinstance(c, ast.Call) and attr_chain(c.func) == 'struct.unpack' and len(c.args) == 2:
                    facts = [f for f in list(allfacts(p, idx).items()) if 'payload_length ==' in f[0] and f[1]]
                    if not facts:
                        continue
                    try:
                        marker = ce.eval(m, ast.parse(facts[-1][0], mode='eval').body.comparators[0])  # type: ignore[attr-defined]
                    except Exception:
                        continue
                    w = _slice_width(sym.value(c.args[1], idx))
                    if w is not None:
                        dec[marker] = w
    if not dec:
        # table-driven decoder: `row = TABLE.get(self.payload_length); if row is not None: fmt, size = row; ... unpack(fmt, raw[cur:cur + size])`
        for c in walk_no_nested(parse.node):
            if isinstance(c, ast.Call) and attr_chain(c.func) == 'struct.unpack' and len(c.args) == 2:
                tab = _table_lookup(parse, c, prog, ce)
                if tab:
                    for marker, (tfmt, tsize) in tab.items():
                        if isinstance(marker, int) and isinstance(tsize, int):
                            dec[marker] = Lin(tsize)
                    if set(tab) != {126, 127}:
                        ch.bad('C16.2', parse, 'length table', 'the extended-length table has rows for %s; RFC 6455 has exactly the markers 126 and 127' % sorted(tab, key=repr))
    for marker, want in ((126, 2), (127, 8)):
        if marker not in dec:
            ch.bad('C16.2', parse, 'marker %d' % marker, 'decoder has no branch reading the extended length for marker %d' % marker)
        else:
            ch.check(dec[marker] == Lin(want), 'C16.2', parse, 'marker %d' % marker, 'decoder reads %d bytes for marker %d' % (want, marker),
                     'decoder reads %s byte(s) for marker %d, encoder writes %d' % (dec[marker], marker, want))

    # ---------------- C16.3 cursor discipline
    raw_param = parse.params[1] if len(parse.params) > 1 else 'raw'
    n_ok = 0
    bad3 = False
    for p in fpaths(gp):
        if p.exit_kind != 'return':
            continue
        sym = Sym(p)
        pos = Lin(0)
        problem = None
        ret_ok = False
        for idx, n, lab in p.executed():
            if n.ast is None or n.kind not in ('stmt', 'test'):
                continue
            reads = _reads_of(n.ast, raw_param, sym, idx)
            for sub in reads:
                v = sym.value(sub, idx)
                sl = v.slice  # type: ignore[attr-defined]
                if isinstance(sl, ast.Slice):
                    lo = linform(sl.lower)
                    if sl.upper is None:
                        # remainder read
                        if isinstance(n.ast, ast.Return):
                            if lo == pos:
                                ret_ok = True
                            else:
                                problem = 'remainder starts at %s but %s bytes were consumed' % (lo, pos)
                        continue
                    hi = linform(sl.upper)
                else:
                    lo = linform(sl)
                    hi = lo + Lin(1)
                if not (lo == pos):
                    problem = problem or 'read %s starts at offset %s but the previous read ended at %s' % (norm(sub), lo, pos)
                pos = hi
        if not ret_ok and problem is None:
            problem = 'the returned remainder is not %s[<consumed>:]' % raw_param
        if problem:
            bad3 = True
            ch.bad('C16.3', parse, 'cursor: ' + ' / '.join('%s=%s' % f for f in list(allfacts(p).items()))[:110], problem, witness=p.describe(24))
        else:
            n_ok += 1
    if not bad3:
        ch.ok('C16.3', parse, 'cursor', 'reads contiguous from 0 and remainder = input[consumed:] on %d path(s)' % n_ok)

    # ---------------- C16.4 None vs zero
    for fn, g in ((build, gb), (parse, gp)):
        flagged = False
        for n in g.nodes:
            if n.kind == 'test' and isinstance(n.ast, ast.Attribute) and n.ast.attr == 'payload_length':
                flagged = True
                ch.bad('C16.4', fn, n.ast, 'truthiness test of payload_length: a zero-length payload is treated as absent (assert/branch fails for empty frames)', line=n.lineno)
        if not flagged:
            ch.ok('C16.4', fn, 'payload_length tests', 'payload_length is never tested by truthiness')
    seen4 = set()
    for p in fpaths(gb):
        sym = Sym(p)
        for idx, st in p.stmts():
            if isinstance(st, ast.Assign) and any(isinstance(t, ast.Attribute) and t.attr == 'payload_length' for t in st.targets) \
                    and isinstance(st.value, ast.Call) and attr_chain(st.value.func) == 'len':
                facts = list(allfacts(p, idx).items())
                if (id(st), tuple(facts)) in seen4:
                    continue
                seen4.add((id(st), tuple(facts)))
                truthy = ('self.data', True) in facts
                notnone = ('self.data is None', False) in facts
                ch.check(notnone or not truthy, 'C16.4', build, st, 'length derived from data under `data is not None`',
                         'payload length is derived from data only when data is truthy: an empty payload leaves the length unset')
                break

    # ---------------- C16.5 bit layout (evaluated on the inlined header bytes under every assignment of the flags)
    RFC = {'fin': 128, 'rsv1': 64, 'rsv2': 32, 'rsv3': 16}
    bad5 = None
    n5 = 0
    bad5b = None
    n5b = 0
    for p in fpaths(gb):
        if p.exit_kind != 'return':
            continue
        sym = Sym(p)
        fd = allfacts(p)
        packs = [(i, c) for i, st in p.stmts() for c in walk_no_nested(st) if isinstance(c, ast.Call) and attr_chain(c.func) == 'struct.pack' and len(c.args) >= 2]
        if not packs:
            continue
        i0, c0 = packs[0]
        first = sym.value(c0.args[1], i0)
        import itertools
        for combo in itertools.product((False, True), repeat=4):
            vals = dict(zip(('fin', 'rsv1', 'rsv2', 'rsv3'), combo))
            if any(fd.get('self.%s' % k) is not None and fd.get('self.%s' % k) != v for k, v in vals.items()):
                continue
            n5 += 1
            got = _eval_with(first, dict(vals, opcode=5), m, ce)
            want = sum(RFC[k] for k, v in vals.items() if v) | 5
            if got != want:
                bad5 = ('first header byte for %s, opcode 5 evaluates to %r, RFC 6455 says %d (expression %s)' % (vals, got, want, norm(first)[:80]), p.describe(12))
        if len(packs) >= 2:
            i1, c1 = packs[1]
            second = sym.value(c1.args[1], i1)
            for masked in (False, True):
                if fd.get('self.masked') is not None and fd.get('self.masked') != masked:
                    continue
                n5b += 1
                g0 = _eval_with(second, {'masked': masked, 'payload_length': 0}, m, ce)
                if not (isinstance(g0, int) and ((g0 & 128) == 128) == masked):
                    bad5b = ('second header byte: the MASK flag does not occupy bit 128 (masked=%s -> %r)' % (masked, g0), p.describe(12))
    for field in ('fin', 'rsv1', 'rsv2', 'rsv3'):
        ch.check(bad5 is None and n5 > 0, 'C16.5', build, 'bit %s' % field, 'first byte = FIN|RSV1|RSV2|RSV3|opcode at the RFC positions (%d flag assignments evaluated)' % n5,
                 bad5[0] if bad5 else 'first header byte not found', witness=bad5[1] if bad5 else None)
    pf = prog.own_method('WebsocketFrame', 'parse_fin_and_rsv')
    dec_bits = _decoder_masks(pf, m, ce)
    okd = all(dec_bits.get(k) == v for k, v in RFC.items()) and dec_bits.get('opcode') == 15
    ch.check(okd, 'C16.5', pf, 'decoder masks', 'decoder masks FIN/RSV/opcode at the same positions', 'decoder masks are %s (expected %s and opcode 15)' % (dec_bits, RFC))
    pm = prog.own_method('WebsocketFrame', 'parse_mask_and_payload')
    d2 = _decoder_masks(pm, m, ce)
    ch.check(d2.get('masked') == 128 and d2.get('payload_length') == 127 and bad5b is None and n5b > 0, 'C16.5', pm, 'second byte',
             'MASK bit 128 and 7-bit length on both sides', bad5b[0] if bad5b else 'second byte: decoder masks %r' % d2, witness=bad5b[1] if bad5b else None)

    # ---------------- C16.6 masking key
    bad6 = 0
    n_paths = 0
    for p in fpaths(gb):
        if p.exit_kind != 'return':
            continue
        n_paths += 1
        sym = Sym(p)
        masked = ('self.masked', True) in [f for f in list(allfacts(p).items()) if f[0] == 'self.masked'][-1:] if any(f[0] == 'self.masked' for f in list(allfacts(p).items())) else None
        # last decision on self.masked that guards the payload part: use the last occurrence
        writes = []
        for idx, st in p.stmts():
            for c, arg in _emit_ops(st):
                writes.append((idx, c, sym.value(arg, idx)))
        key_writes = [(i, c, v) for i, c, v in writes if _is_key_expr(v)]
        masked_payload = [(i, c, v) for i, c, v in writes if isinstance(v, ast.Call) and isinstance(v.func, ast.Attribute) and v.func.attr == 'apply_mask']
        plain_payload = [(i, c, v) for i, c, v in writes if norm(v) == 'self.data']
        if masked is True:
            if len(key_writes) != 1:
                bad6 += 1
                ch.bad('C16.6', build, 'masked path: ' + ' / '.join('%s=%s' % f for f in list(allfacts(p).items()))[-100:],
                       'a masked frame is built without writing the 4-byte masking key exactly once (%d key write(s)); the decoder always consumes it' % len(key_writes),
                       witness=p.describe(24))
                continue
            ki, kc, kv = key_writes[0]
            for pi, pc, pv in masked_payload:
                args = pv.args  # type: ignore[attr-defined]
                if pi < ki or len(args) != 2 or norm(args[1]) != norm(kv) or norm(args[0]) != 'self.data':
                    bad6 += 1
                    ch.bad('C16.6', build, pc, 'payload is masked with %s but the key written is %s (or the key does not precede the payload)' % (norm(args[1])[:60] if len(args) > 1 else '?', norm(kv)[:60]), witness=p.describe(24))
            if plain_payload:
                bad6 += 1
                ch.bad('C16.6', build, plain_payload[0][1], 'unmasked payload written on a path where `masked` holds', witness=p.describe(24))
        elif masked is False:
            if key_writes or masked_payload:
                bad6 += 1
                ch.bad('C16.6', build, 'unmasked path', 'masking key or masked payload written on a path where `masked` is false', witness=p.describe(24))
    if not bad6:
        ch.ok('C16.6', build, 'masking key (build)', 'key written once, before the payload, and used for masking on every masked path (%d paths)' % n_paths)
    bad6 = 0
    n_paths = 0
    for p in fpaths(gp):
        if p.exit_kind != 'return':
            continue
        n_paths += 1
        sym = Sym(p)
        mf = [f for f in list(allfacts(p).items()) if f[0] == 'self.masked']
        if not mf:
            continue
        masked = all(f[1] for f in mf)
        key_reads = []
        unmask = []
        for idx, st in p.stmts():
            if isinstance(st, ast.Assign) and any(isinstance(t, ast.Attribute) and t.attr == 'mask' for t in st.targets):
                key_reads.append((idx, st, _slice_width(sym.value(st.value, idx))))
            for c in walk_no_nested(st):
                if isinstance(c, ast.Call) and isinstance(c.func, ast.Attribute) and c.func.attr == 'apply_mask':
                    unmask.append((idx, c))
        if masked:
            if len(key_reads) != 1 or key_reads[0][2] != Lin(4):
                bad6 += 1
                ch.bad('C16.6', parse, 'masked path: ' + ' / '.join('%s=%s' % f for f in list(allfacts(p).items()))[-100:],
                       'on a path where `masked` holds the decoder does not consume exactly one 4-byte masking key (reads: %s); the encoder always writes it'
                       % [str(k[2]) for k in key_reads], witness=p.describe(24))
            elif len(unmask) != 1 or len(unmask[0][1].args) != 2 or not (
                    norm(unmask[0][1].args[1]) == 'self.mask' or
                    # by value: the key handed to apply_mask is what this path stored in self.mask (a local may hold both)
                    (sym.attr_store('self.mask', unmask[0][0]) is not None and
                     norm(sym.value(unmask[0][1].args[1], unmask[0][0])) == norm(sym.attr_store('self.mask', unmask[0][0])[1]))):        # type: ignore[index]
                bad6 += 1
                ch.bad('C16.6', parse, 'masked path unmask', 'payload of a masked frame is not unmasked exactly once with self.mask', witness=p.describe(24))
        else:
            if key_reads or unmask:
                bad6 += 1
                ch.bad('C16.6', parse, 'unmasked path', 'masking key consumed / payload unmasked although `masked` is false', witness=p.describe(24))
    if not bad6:
        ch.ok('C16.6', parse, 'masking key (parse)', 'key read (4 bytes) and payload unmasked exactly on the masked paths (%d paths)' % n_paths)

    # C16.6b apply_mask shape
    am = prog.own_method('WebsocketFrame', 'apply_mask')
    shape = _apply_mask_shape(am)
    if shape is True:
        ch.ok('C16.6b', am, 'xor', 'payload[i] ^ mask[i % 4] over every index')
    elif shape is None:
        blk = _blockwise_shape(am, m, ce)
        if blk is None:
            big = _bigint_shape(am, prog)
            if big is True:
                ch.ok('C16.6b', am, 'xor', 'whole-payload integer XOR, turned back into exactly len(payload) bytes')
                blk = 'done'
            elif big is not None:
                blk = big
        if blk == 'done':
            pass
        elif blk is True:
            ch.ok('C16.6b', am, 'xor', 'block-wise XOR with a block size that is a multiple of the key length')
        elif blk is None:
            ch.skip('C16.6b', am, 'xor', 'apply_mask has neither the per-byte form payload[i] ^ key[i % 4] nor a recognised block-wise form; key alignment not decided')
        else:
            ch.bad('C16.6b', am, 'xor', blk)
    else:
        ch.bad('C16.6b', am, 'xor', shape)

    # ---------------- C16.9 output buffer is per call
    bad9 = None
    n9 = 0
    for p in fpaths(gb):
        if p.exit_kind != 'return':
            continue
        sym = Sym(p)
        last_i, last = p.stmts()[-1]
        if not (isinstance(last, ast.Return) and last.value is not None):
            continue
        n9 += 1
        rv = sym.value(last.value, last_i)
        src = rv.func.value if isinstance(rv, ast.Call) and isinstance(rv.func, ast.Attribute) and rv.func.attr in ('getvalue', 'getbuffer', 'tobytes') else rv
        fresh = isinstance(src, ast.Call) and (attr_chain(src.func) or '') in ('io.BytesIO', 'BytesIO', 'bytearray', 'bytes') or isinstance(src, (ast.Constant, ast.BinOp, ast.JoinedStr))
        if any(isinstance(x, ast.Attribute) and isinstance(x.value, ast.Name) and x.value.id in ('self', 'cls') and x.attr not in ('data', 'mask') for x in ast.walk(src)) and not fresh:
            bad9 = ('build() returns the contents of %s, an object that outlives the call: after reset() a shorter frame built on the same object is followed by the stale tail of the previous one '
                    '(seek(0) does not truncate)' % norm(src)[:60], p.describe(10))
        elif not fresh:
            bad9 = bad9 or None
    ch.check(bad9 is None and n9 > 0, 'C16.9', build, 'output buffer per call', 'the returned bytes come from a buffer created in this call (%d path(s))' % n9, bad9[0] if bad9 else 'no return path', witness=bad9[1] if bad9 else None)

    # ---------------- C16.8 field order on both sides
    n8 = 0
    bad8 = None
    for p in fpaths(gp):
        if p.exit_kind != 'return':
            continue
        sym = Sym(p)
        ext = key = data = None
        for idx, st in p.stmts():
            for c in walk_no_nested(st):
                if isinstance(c, ast.Call) and attr_chain(c.func) == 'struct.unpack' and len(c.args) == 2 and _reads_of(sym.value(c.args[1], idx), raw_param, sym, idx) and ext is None:
                    if any('payload_length ==' in f[0] and f[1] for f in list(allfacts(p, idx).items())):
                        ext = idx
            if isinstance(st, ast.Assign) and len(st.targets) == 1 and attr_chain(st.targets[0]) == 'self.mask' and _reads_of(sym.value(st.value, idx), raw_param, sym, idx):
                key = idx if key is None else key
            if isinstance(st, ast.Assign) and len(st.targets) == 1 and attr_chain(st.targets[0]) == 'self.data' and _reads_of(sym.value(st.value, idx), raw_param, sym, idx):
                data = idx if data is None else data
        order = [(n_, i) for n_, i in (('extended length', ext), ('masking key', key), ('payload', data)) if i is not None]
        if len(order) >= 2:
            n8 += 1
            if [i for _, i in order] != sorted(i for _, i in order):
                got = [n_ for n_, i in sorted(order, key=lambda x: x[1])]
                bad8 = ('the decoder consumes %s, the wire order (and the encoder) is extended length, masking key, payload: frames with a %s are decoded from the wrong offsets'
                        % (' then '.join(got), 'masking key and an extended length' if ext is not None and key is not None else 'masking key'), p.describe(24))
    ch.check(bad8 is None and n8 > 0, 'C16.8', parse, 'decoder field order', 'extended length < masking key < payload on %d path(s)' % n8, bad8[0] if bad8 else 'no path reads two of the fields', witness=bad8[1] if bad8 else None)
    n8 = 0
    bad8 = None
    for p in fpaths(gb):
        if p.exit_kind != 'return':
            continue
        sym = Sym(p)
        ext = key = data = None
        for idx, st in p.stmts():
            for c, arg_ in _emit_ops(st):
                if True:
                    v = sym.value(arg_, idx)
                    if isinstance(v, ast.Call) and attr_chain(v.func) == 'struct.pack' and v.args and isinstance(v.args[0], ast.Constant) and str(v.args[0].value).lstrip('!><=') in ('H', 'Q') and len(v.args) == 2:
                        ext = idx if ext is None else ext
                    elif _is_key_expr(v):
                        key = idx if key is None else key
                    elif norm(v) == 'self.data' or (isinstance(v, ast.Call) and isinstance(v.func, ast.Attribute) and v.func.attr == 'apply_mask'):
                        data = idx if data is None else data
        order = [(n_, i) for n_, i in (('extended length', ext), ('masking key', key), ('payload', data)) if i is not None]
        if len(order) >= 2:
            n8 += 1
            if [i for _, i in order] != sorted(i for _, i in order):
                got = [n_ for n_, i in sorted(order, key=lambda x: x[1])]
                bad8 = ('the encoder writes %s; RFC 6455 (and the decoder) put extended length, masking key, payload in that order' % ' then '.join(got), p.describe(24))
    ch.check(bad8 is None and n8 > 0, 'C16.8', build, 'encoder field order', 'extended length < masking key < payload on %d path(s)' % n8, bad8[0] if bad8 else 'no path writes two of the fields', witness=bad8[1] if bad8 else None)

    # ---------------- C16.7 accept token
    ka = prog.own_method('WebsocketFrame', 'key_to_accept')
    guid = ce.try_eval(m, ast.parse('WebsocketFrame.GUID', mode='eval').body)
    ch.check(guid == RFC6455_GUID, 'C16.7', ka, 'GUID', 'GUID equals the RFC 6455 constant', 'GUID constant is %r, RFC 6455 says %r' % (guid, RFC6455_GUID))
    gk = cfg_of(ka, prog)
    okk = False
    detail = 'return value is not base64.b64encode(<sha1 of key + GUID>.digest())'
    for p in fpaths(gk):
        if p.exit_kind != 'return':
            continue
        sym = Sym(p)
        last = p.stmts()[-1] if p.stmts() else None
        if last is None or not isinstance(last[1], ast.Return) or last[1].value is None:
            continue
        rv = sym.value(last[1].value, last[0])
        txt = norm(rv)
        fed = []
        for idx, st in p.stmts():
            for c in walk_no_nested(st):
                if isinstance(c, ast.Call) and isinstance(c.func, ast.Attribute) and c.func.attr == 'update' and c.args:
                    fed.append(norm(sym.value(c.args[0], idx)))
                if isinstance(c, ast.Call) and attr_chain(c.func) in ('hashlib.sha1',) and c.args:
                    fed.append(norm(sym.value(c.args[0], idx)))
        kparam = ka.params[0] if ka.params else 'key'
        good_feed = fed == ['%s + WebsocketFrame.GUID' % kparam] or fed == ['%s + self.GUID' % kparam] or fed == ['%s + cls.GUID' % kparam]
        good_ret = txt.startswith('base64.b64encode(') and txt.endswith('.digest())') and 'sha1' in txt
        okk = good_feed and good_ret
        if not okk:
            detail = 'accept token computed as %s with hash input %s (RFC 6455: base64(sha1(key + GUID)))' % (txt[:70], fed)
    ch.check(okk, 'C16.7', ka, 'formula', 'base64(sha1(key + GUID))', detail)


# ---------------------------------------------------------------- helpers
    _one_encoder_check(ch)


class _SubstAttrs(ast.NodeTransformer):
    def __init__(self, values: Dict[str, Any]):
        self.values = values

    def visit_Attribute(self, n: ast.Attribute) -> ast.AST:
        if isinstance(n.value, ast.Name) and n.value.id == 'self' and n.attr in self.values:
            return ast.copy_location(ast.Constant(value=self.values[n.attr]), n)
        return self.generic_visit(n)

def _eval_with(e: ast.AST, values: Dict[str, Any], m: Any, ce: ConstEval) -> Any:
    import copy as _copy
    e2 = ast.fix_missing_locations(_SubstAttrs(values).visit(_copy.deepcopy(e)))
    cls = None
    for ci in getattr(ce.prog, 'classes', {}).values():
        if ci.module is m and ci.name == 'WebsocketFrame':
            cls = ci
    return ce.try_eval(m, e2, {'__class__': cls})


def _slice_width(v: ast.AST) -> Optional[Lin]:
    if isinstance(v, ast.Subscript) and isinstance(v.slice, ast.Slice) and v.slice.upper is not None:
        return linform(v.slice.upper) - linform(v.slice.lower)
    return None


def _unpack_width(fn: FuncInfo, call: ast.Call, prog: Any) -> Optional[Lin]:
    g = cfg_of(fn, prog)
    for p in fpaths(g):
        sym = Sym(p)
        for idx, st in p.stmts():
            if any(x is call for x in walk_no_nested(st)):
                return _slice_width(sym.value(call.args[1], idx))
    return None


def _marker_of(second: ast.AST, m: Any, ce: ConstEval) -> Any:
    """second header byte (locals inlined): 'LEN' if its 7-bit field carries the payload length itself, else the constant
    marker in that field (the MASK bit is ignored here, it is checked by C16.5)"""
    if any(isinstance(n, ast.Attribute) and n.attr == 'payload_length' for n in ast.walk(second)):
        v0 = _eval_with(second, {'masked': False, 'payload_length': 0}, m, ce)
        v5 = _eval_with(second, {'masked': False, 'payload_length': 5}, m, ce)
        if isinstance(v0, int) and isinstance(v5, int) and (v0 & 127, v5 & 127) == (0, 5):
            return 'LEN'
        return None
    v = _eval_with(second, {'masked': False}, m, ce)
    return (v & 127) if isinstance(v, int) else None


def _reads_of(node: ast.AST, name: str, sym: Any = None, idx: int = 0) -> List[ast.Subscript]:
    """subscripts of the input buffer (the parameter itself, or a local that is a plain copy of it, e.g. the renamed
    parameter of an inlined helper)"""
    out = []
    for n in walk_no_nested(node):
        if isinstance(n, ast.Subscript) and isinstance(n.value, ast.Name) and isinstance(n.ctx, ast.Load):
            base = n.value
            if base.id == name:
                out.append(n)
            elif sym is not None:
                v = sym.value(base, idx)
                if isinstance(v, ast.Name) and v.id == name:
                    out.append(n)
    out.sort(key=lambda n: (n.lineno, n.col_offset))
    return out


def _first_byte_layout(build: FuncInfo, m: Any, ce: ConstEval) -> Dict[str, Any]:
    out: Dict[str, Any] = {}
    for c in walk_no_nested(build.node):
        if isinstance(c, ast.Call) and attr_chain(c.func) == 'struct.pack' and len(c.args) == 2 \
                and any(isinstance(n, ast.Attribute) and n.attr == 'fin' for n in ast.walk(c.args[1])):
            terms: List[ast.AST] = []

            def flat(e: ast.AST) -> None:
                if isinstance(e, ast.BinOp) and isinstance(e.op, ast.BitOr):
                    flat(e.left)
                    flat(e.right)
                else:
                    terms.append(e)
            flat(c.args[1])
            for t in terms:
                if isinstance(t, ast.IfExp) and isinstance(t.test, ast.Attribute):
                    out[t.test.attr] = ce.try_eval(m, t.body)
                    if ce.try_eval(m, t.orelse) != 0:
                        out[t.test.attr] = 'nonzero-else'
                elif isinstance(t, ast.Attribute) and t.attr == 'opcode':
                    out['opcode'] = 'raw'
    return out


def _second_byte_mask_bits(build: FuncInfo, m: Any, ce: ConstEval) -> set:
    out = set()
    for n in walk_no_nested(build.node):
        if isinstance(n, ast.IfExp) and isinstance(n.test, ast.Attribute) and n.test.attr == 'masked':
            out.add(ce.try_eval(m, n.body))
            if ce.try_eval(m, n.orelse) != 0:
                out.add('nonzero-else')
    return out


def _decoder_masks(fn: FuncInfo, m: Any, ce: ConstEval) -> Dict[str, Any]:
    """self.<field> = [bool](byte & MASK) -> {field: MASK}"""
    out: Dict[str, Any] = {}
    for st in walk_no_nested(fn.node):
        if isinstance(st, ast.Assign) and len(st.targets) == 1 and isinstance(st.targets[0], ast.Attribute):
            v = st.value
            if isinstance(v, ast.Call) and attr_chain(v.func) == 'bool' and v.args:
                v = v.args[0]
            if isinstance(v, ast.BinOp) and isinstance(v.op, ast.BitAnd):
                for side in (v.right, v.left):
                    k = ce.try_eval(m, side, {'__class__': fn.cls})
                    if isinstance(k, int):
                        out[st.targets[0].attr] = k
    return out


def _is_key_expr(v: ast.AST) -> bool:
    has_mask = any(isinstance(n, ast.Attribute) and n.attr == 'mask' for n in ast.walk(v)) or norm(v).replace(' ', '') in ('secrets.token_bytes(4)', 'os.urandom(4)')
    has_call = any(isinstance(n, ast.Call) and (attr_chain(n.func) or '').split('.')[-1] in ('pack', 'apply_mask') for n in ast.walk(v))
    has_data = any(isinstance(n, ast.Attribute) and n.attr == 'data' for n in ast.walk(v))
    return has_mask and not has_call and not has_data


def _apply_mask_shape(fn: FuncInfo) -> Any:
    """True when the body XORs element i of the data with mask[i % 4] for i over range(len(data));
    a string describing the defect for a recognised-but-wrong shape; None when unrecognised."""
    params = fn.params
    if len(params) < 2:
        return None
    mask = params[-1]
    for n in walk_no_nested(fn.node):
        if isinstance(n, ast.BinOp) and isinstance(n.op, ast.BitXor):
            for a, b in ((n.left, n.right), (n.right, n.left)):
                if isinstance(b, ast.Subscript) and isinstance(b.value, ast.Name) and b.value.id == mask:
                    idx = b.slice
                    if isinstance(idx, ast.BinOp) and isinstance(idx.op, ast.Mod) and isinstance(idx.right, ast.Constant):
                        if idx.right.value != 4:
                            return 'key index is taken modulo %r, the key has 4 bytes' % idx.right.value
                        ivar = norm(idx.left)
                        # the other operand must be indexed by / enumerate over the same variable
                        if isinstance(a, ast.Subscript) and norm(a.slice) == ivar:
                            return _loop_covers(fn, ivar)
                        if isinstance(a, ast.Name):
                            return _enumerate_pairs(fn, ivar, a.id)
                    else:
                        return 'key byte selected by %s instead of <payload index> %% 4' % norm(idx)
    return None


def _bigint_shape(fn: FuncInfo, prog: Any) -> Any:
    """the whole-payload form: int.from_bytes(data, O) ^ int.from_bytes(<key repeated to len(data)>, O), turned back into bytes with
    .to_bytes(N, O).  True when N is len(data) and the three byte orders agree; a string for a recognised-but-wrong shape (a length
    computed from the VALUE drops leading zero bytes); None when this is not the form used."""
    params = fn.params
    if len(params) < 2:
        return None
    data = params[-2]
    found = None
    for p in fpaths(cfg_of(fn, prog, exc_edges=False)):
        if p.exit_kind != 'return' or not p.stmts():
            continue
        i, last = p.stmts()[-1]
        if not (isinstance(last, ast.Return) and last.value is not None):
            continue
        sym = Sym(p)
        rv = sym.value(last.value, i)
        if not (isinstance(rv, ast.Call) and isinstance(rv.func, ast.Attribute) and rv.func.attr == 'to_bytes'):
            continue
        x = rv.func.value
        if not (isinstance(x, ast.BinOp) and isinstance(x.op, ast.BitXor) and all(isinstance(o, ast.Call) and attr_chain(o.func) == 'int.from_bytes' for o in (x.left, x.right))):
            continue
        n_arg = rv.args[0] if rv.args else next((k.value for k in rv.keywords if k.arg == 'length'), None)
        orders = [norm(c.args[1]) if len(c.args) > 1 else norm(next((k.value for k in c.keywords if k.arg == 'byteorder'), ast.Constant(value='big'))) for c in (x.left, x.right, rv)]
        if n_arg is None or norm(n_arg).replace(' ', '') != 'len(%s)' % data:
            return ('apply_mask turns the XORed integer back into bytes with to_bytes(%s): a length derived from the value, not from the payload, drops every leading zero byte of the result -- a payload '
                    'whose first byte equals the first key byte is built shorter than the announced length (and a decoded payload that starts with NUL comes out short)' % (norm(n_arg)[:60] if n_arg is not None else ''))
        if len(set(orders)) != 1:
            return 'apply_mask converts with different byte orders (%s): the key is applied to the wrong positions' % orders
        operands = [norm(sym.value(o.args[0], i)) if o.args else '' for o in (x.left, x.right)]
        if not any(op_ == data for op_ in operands):
            return 'apply_mask does not XOR the payload itself (%s)' % operands
        found = True
    return found


def _blockwise_shape(fn: FuncInfo, m: Any, ce: ConstEval) -> Any:
    """payload processed in slices of a constant stride with the key restarted per slice:
    the stride must be a multiple of 4 (key length), otherwise every slice after the first is
    XORed with a misaligned key."""
    params = fn.params
    if len(params) < 2:
        return None
    mask = params[-1]
    for n in walk_no_nested(fn.node):
        if isinstance(n, (ast.For, ast.comprehension)) and isinstance(n.iter, ast.Call) and attr_chain(n.iter.func) == 'range' \
                and len(n.iter.args) == 3:
            step = ce.try_eval(m, n.iter.args[2])
            var = norm(n.target)
            if not isinstance(step, int):
                return None
            # does any expression derived from the key mention the loop offset?  (then alignment may be handled explicitly)
            for k in walk_no_nested(fn.node):
                if isinstance(k, ast.Subscript) and any(isinstance(x, ast.Name) and x.id == mask for x in ast.walk(k.value)) \
                        and any(isinstance(x, ast.Name) and x.id == var for x in ast.walk(k.slice)):
                    return None
            if step % 4 == 0:
                return True
            return ('payload is XORed in blocks of %d bytes with the key restarted at every block; %d is not a multiple of the 4-byte key, '
                    'so every byte from offset %d on is masked with the wrong key byte' % (step, step, step))
    return None


def _loop_covers(fn: FuncInfo, ivar: str) -> Any:
    for n in walk_no_nested(fn.node):
        if isinstance(n, (ast.For, ast.comprehension)) and norm(n.target) == ivar:
            it = n.iter
            if isinstance(it, ast.Call) and attr_chain(it.func) == 'range' and len(it.args) == 1 and isinstance(it.args[0], ast.Call) \
                    and attr_chain(it.args[0].func) == 'len':
                return True
            return 'index %s does not range over range(len(payload)): %s' % (ivar, norm(it)[:60])
    return None


def _enumerate_pairs(fn: FuncInfo, ivar: str, bvar: str) -> Any:
    for n in walk_no_nested(fn.node):
        if isinstance(n, (ast.For, ast.comprehension)) and isinstance(n.target, ast.Tuple) and len(n.target.elts) == 2:
            if norm(n.target.elts[0]) == ivar and norm(n.target.elts[1]) == bvar and isinstance(n.iter, ast.Call) \
                    and attr_chain(n.iter.func) == 'enumerate' and len(n.iter.args) == 1:
                return True
    return None


def _table_lookup(fn: FuncInfo, call: ast.Call, prog: Any, ce: ConstEval) -> Optional[Dict[Any, Tuple[Any, Any]]]:
    """struct.unpack(F, raw[a:a + W]) where, on every path, F and W inline to row[0] / row[1] of one and the same lookup
    `TABLE.get(self.payload_length)` / `TABLE[self.payload_length]` into a module-level dict of 2-tuples, the lookup being known
    not None on the path.  -> the evaluated table, else None"""
    g = cfg_of(fn, prog)
    table = None
    for p in fpaths(g):
        sym = Sym(p)
        for idx, st in p.stmts():
            if not any(x is call for x in walk_no_nested(st)):
                continue
            f = sym.value(call.args[0], idx)
            d = sym.value(call.args[1], idx)
            if not (isinstance(f, ast.Subscript) and ce.try_eval(fn.module, f.slice) == 0):
                return None
            row = f.value
            if isinstance(row, ast.Call) and isinstance(row.func, ast.Attribute) and row.func.attr == 'get' and len(row.args) == 1:
                tname, key = row.func.value, row.args[0]
                if allfacts(p, idx).get('%s is None' % norm(row)) is not False:
                    return None
            elif isinstance(row, ast.Subscript):
                tname, key = row.value, row.slice
            else:
                return None
            if not norm(key).endswith('payload_length'):
                return None
            w = _slice_width(d)
            if w is None or norm(d).count(norm(row)) < 1:
                return None
            # the width must be row[1] of the same lookup
            up = d.slice.upper if isinstance(d, ast.Subscript) and isinstance(d.slice, ast.Slice) else None   # type: ignore[union-attr]
            if up is None or ('%s[1]' % norm(row)) not in norm(up):
                return None
            val = ce.try_eval(fn.module, tname)
            if not (isinstance(val, dict) and val and all(isinstance(v, (tuple, list)) and len(v) == 2 for v in val.values())):
                return None
            table = {k: (v[0].decode() if isinstance(v[0], bytes) else v[0], v[1]) for k, v in val.items()}
    return table


def _one_encoder_check(ch: Checker) -> None:
    prog = ch.prog
    # ---------------- C16.10 one encoder
    wf = prog.class_named('WebsocketFrame')
    build = prog.lookup_method(wf, 'build')
    if build is None:
        raise AnalysisError('anchor vanished: WebsocketFrame.build')
    allowed = {build.key}
    todo = [build]
    while todo:                       # helpers build() calls on itself / its class
        f_ = todo.pop()
        for c_ in walk_no_nested(f_.node):
            if isinstance(c_, ast.Call) and isinstance(c_.func, ast.Attribute) and attr_chain(c_.func.value) in ('self', 'cls', 'WebsocketFrame'):
                g_ = prog.lookup_method(wf, c_.func.attr)
                if g_ is not None and g_.key not in allowed:
                    allowed.add(g_.key)
                    todo.append(g_)
    n_pack = 0
    for fn in prog.all_functions('proxy.http.websocket', include_inlined=True):
        for c_ in walk_no_nested(fn.node):
            if isinstance(c_, ast.Call) and attr_chain(c_.func) in ('struct.pack', 'struct.pack_into', 'pack', 'pack_into'):
                n_pack += 1
                if fn.key not in allowed:
                    ch.bad('C16.10', fn, c_, '%s assembles frame bytes itself instead of going through build(): a second encoder (its own length classes, its own masking) that can disagree with build() '
                           'for the boundary lengths 126/127/65536 or for masked frames' % fn.qualname)
    ch.check(n_pack > 0, 'C16.10', build, 'struct.pack sites', '%d struct.pack call(s), all in build() and its helpers' % n_pack, 'no struct.pack found in the encoder')
    # every other method of the class that returns bytes of a frame returns <frame>.build()
    for nm, fn in sorted(wf.methods.items()):
        if fn.key in allowed or nm in ('parse', 'apply_mask', 'key_to_accept', 'reset', '__init__'):
            continue
        rets = [r for r in walk_no_nested(fn.node) if isinstance(r, ast.Return) and r.value is not None]
        if not rets:
            continue
        ann = getattr(fn.node, 'returns', None)
        if ann is None or norm(ann) != 'bytes':
            continue
        g_ = cfg_of(fn, prog, exc_edges=False)
        bad10 = None
        for p in fpaths(g_):
            ch.paths += 1
            if p.exit_kind != 'return':
                continue
            last = p.stmts()[-1]
            if not isinstance(last[1], ast.Return) or last[1].value is None:
                continue
            v = Sym(p).value(last[1].value, last[0])
            if not (isinstance(v, ast.Call) and isinstance(v.func, ast.Attribute) and v.func.attr == 'build'):
                bad10 = ('%s() returns %s on a path, not the result of build()' % (nm, norm(v)[:70]), p.describe())
        ch.check(bad10 is None, 'C16.10', fn, 'returns build()', 'every return value is <frame>.build()', bad10[0] if bad10 else '', witness=bad10[1] if bad10 else None)
