"""C18 -- the event bus delivers each event to every current subscriber exactly once, in order.

Decided (the dispatcher is ~60 lines of single-threaded code; its delivery discipline is in
its shape):
  C18.1 single consumer of a FIFO queue; the dequeued event is handled exactly once; the
        producer side only puts;
  C18.2 fan-out: one send per subscriber per event, of the event itself; a broken channel is
        handled inside the iteration, so later subscribers are still served;
  C18.3 the subscriber table is not resized while it is iterated;
  C18.4 subscription window: entry stored before the SUBSCRIBED ack (and removed if the ack
        fails); UNSUBSCRIBED ack then removal, only for a known id;
  C18.5 presence typestate: a helper that subscripts / deletes self.subscribers[id] without
        catching KeyError is only called while the id is known to be present -- no deleting
        helper ran for that id since it was inserted / tested (otherwise KeyError escapes
        through run() and stops the dispatcher);
  C18.6 exactly three kinds of event: SUBSCRIBE, UNSUBSCRIBE (distinct constants), else broadcast.
Not decided: cross-process ordering of multiprocessing.Queue with several publishers;
behaviour of send on a half-broken channel other than the handled exceptions."""
import ast
from typing import Any, Dict, List, Optional, Set, Tuple

from ..cfg import cfg_of, ExcTypes
from ..consteval import ConstEval
from ..flow import Sym, fpaths, attr_effects, enclosing_handlers, allfacts
from ..model import FuncInfo, attr_chain, norm, walk_no_nested
from ..report import Checker
from .common import dict_iter, iteration_mutations, self_calls

TABLE = 'self.subscribers'


def run(ch: Checker) -> None:
    prog = ch.prog
    ce = ConstEval(prog)
    ch.rule('C18.1', 'only EventDispatcher.run_once takes events off the queue, and hands exactly that event to handle_event once; EventQueue.publish/subscribe/unsubscribe only put', 3)
    ch.rule('C18.2', '_broadcast: iterates all of self.subscribers; exactly one send(<the event parameter>) per iteration; the handler for a broken channel lies inside the loop body and neither '
                     'breaks, returns nor re-raises', 2)
    ch.rule('C18.3', 'no loop over self.subscribers has a body that can resize it (directly or through helper calls)', 1)
    ch.rule('C18.4', 'SUBSCRIBE: store into self.subscribers precedes the SUBSCRIBED ack and a failed ack removes the entry; UNSUBSCRIBE: under `sub_id in self.subscribers` the UNSUBSCRIBED ack '
                     'is sent and the entry removed after it; an unknown id touches nothing', 2)
    ch.rule('C18.5', 'helpers that use self.subscribers[id] unguarded (KeyError not caught) are called only while id is known present: after insertion / membership test / iteration, '
                     'and before any helper that may delete it', 3)
    ch.rule('C18.8', 'EventQueue.publish / subscribe / unsubscribe put an object created in that very call (a dict display), never one kept on the instance or the module: events are delivered as they were when published', 1)
    ch.rule('C18.7', 'subscription ids are unique per subscription: EventSubscriber draws its id from a random / uuid source (or a counter), never from values every subscriber created by '
                     'the same thread shares (pid, thread id, time): the dispatcher keys its table by this id and a second subscriber with the same id silently replaces the first', 1)
    ch.rule('C18.6', 'handle_event dispatches on event_name: SUBSCRIBE and UNSUBSCRIBE are distinct constants, everything else is broadcast', 1)

    disp = prog.class_named('EventDispatcher')
    m = disp.module
    exc = ExcTypes(prog, m)
    funcs = list(disp.methods.values())

    # ---------------- C18.1
    getters = []
    for fn in prog.all_functions('proxy'):
        if fn.module.name.startswith(('proxy.testing', 'proxy.plugin')):
            continue
        for c in walk_no_nested(fn.node):
            if isinstance(c, ast.Call) and isinstance(c.func, ast.Attribute) and c.func.attr in ('get', 'get_nowait') and (attr_chain(c.func.value) or '').endswith('event_queue.queue'):
                getters.append(fn.qualname)
    ch.check(getters == ['EventDispatcher.run_once'], 'C18.1', disp.methods['run_once'], 'single consumer', 'only run_once dequeues', 'the event queue is consumed by %s: a second consumer steals events or reorders them' % getters)
    ro = disp.methods['run_once']
    g = cfg_of(ro, prog, exc_edges=False)
    okro = False
    for p in fpaths(g):
        if p.exit_kind != 'return':
            continue
        sym = Sym(p)
        calls = [(i, c) for i, st in p.stmts() for c in walk_no_nested(st) if isinstance(c, ast.Call) and attr_chain(c.func) == 'self.handle_event']
        okro = len(calls) == 1 and bool(calls[0][1].args) and norm(sym.value(calls[0][1].args[0], calls[0][0])).startswith('self.event_queue.queue.get(')
    ch.check(okro, 'C18.1', ro, 'handle once', 'the dequeued event is handed to handle_event exactly once', 'run_once does not hand exactly the dequeued event to handle_event once')
    eq = prog.class_named('EventQueue')
    bad_q = []
    for name in ('publish', 'subscribe', 'unsubscribe'):
        fn = eq.methods[name]
        calls = [norm(c.func) for c in walk_no_nested(fn.node) if isinstance(c, ast.Call) and (attr_chain(c.func) or '').startswith('self.queue.')]
        if calls != ['self.queue.put']:
            bad_q.append('%s: %s' % (name, calls))
        # ... and that one put() happens on EVERY normal way through the producer (no early return that swallows a request)
        gq = cfg_of(fn, prog, exc_edges=False)
        for p in fpaths(gq):
            if p.exit_kind != 'return' or p.coarse:
                continue
            puts = sum(1 for i, st in p.stmts() for c in walk_no_nested(st) if isinstance(c, ast.Call) and attr_chain(c.func) == 'self.queue.put')
            if puts != 1:
                bad_q.append('%s: a path through it performs %d put() calls (%s)' % (name, puts, ' / '.join('%s=%s' % kv for kv in allfacts(p).items())[:80]))
                break
    # C18.8: what is put on the queue is created by that call
    bad8 = None
    n8 = 0
    for name in ('publish', 'subscribe', 'unsubscribe'):
        fn = eq.methods[name]
        for p in fpaths(cfg_of(fn, prog, exc_edges=False)):
            sym8 = Sym(p, item_stores=True)
            for i, st in p.stmts():
                for c_ in walk_no_nested(st):
                    if isinstance(c_, ast.Call) and attr_chain(c_.func) == 'self.queue.put' and c_.args:
                        n8 += 1
                        v = sym8.value(c_.args[0], i)
                        fresh = isinstance(v, ast.Dict) or (isinstance(v, ast.Call) and attr_chain(v.func) == 'dict' and not any(isinstance(x, ast.Attribute) and attr_chain(x.value) == 'self' for x in ast.walk(v)))
                        if not fresh:
                            bad8 = ('%s puts %s on the queue, an object that outlives the call: two events published before the first is consumed (or pickled by the queue\'s feeder thread) are the same object '
                                    'carrying the fields of the later one -- subscribers see the last event twice and never the first' % (name, norm(v)[:70]), p.describe())
    ch.check(bad8 is None and n8 > 0, 'C18.8', eq.methods['publish'], 'a fresh object per event', 'every put() hands over a dict created in that call (%d put(s))' % n8, bad8[0] if bad8 else 'no put found', witness=bad8[1] if bad8 else None)
    ch.check(not bad_q, 'C18.1', eq.methods['publish'], 'producers only put', 'publish/subscribe/unsubscribe put exactly one event each', 'producer side is not a single put: %s' % bad_q)

    # ---------------- C18.2
    bc = disp.methods['_broadcast']
    evp = bc.params[1]
    loops = [l for l in walk_no_nested(bc.node) if isinstance(l, ast.For) and dict_iter(l.target, l.iter, TABLE) is not None]
    if len(loops) != 1:
        ch.bad('C18.2', bc, 'fan-out loop', '_broadcast does not iterate self.subscribers exactly once (%d loops)' % len(loops))
    else:
        lp = loops[0]
        sends = [c for c in walk_no_nested(lp) if isinstance(c, ast.Call) and isinstance(c.func, ast.Attribute) and c.func.attr == 'send']
        # decided on paths and by value (the send may sit in an inlined helper, behind locals): one iteration = one send(ev) to the subscriber the loop is at
        import re as _re
        g2 = cfg_of(bc, prog, exc_edges=False)
        head2 = [n_ for n_ in g2.nodes if n_.kind == 'for' and n_.ast is lp]
        ok = recv_ok = bool(head2)
        n_it = 0
        for p in fpaths(g2) if head2 else []:
            idxs = [i for i, (nid, lab) in enumerate(p.steps) if nid == head2[0].id]
            if not idxs or p.steps[idxs[0]][1] != 'iter' or p.coarse:
                continue
            n_it += 1
            end2 = idxs[1] if len(idxs) > 1 else len(p.steps)
            sym2 = Sym(p)
            found = []
            for i, nd, lab in p.executed():
                if not (idxs[0] < i < end2) or nd.ast is None or nd.kind not in ('stmt', 'test'):
                    continue
                for c_ in walk_no_nested(nd.ast):
                    if isinstance(c_, ast.Call) and isinstance(c_.func, ast.Attribute) and c_.func.attr == 'send':
                        found.append((norm(sym2.value(c_.func.value, i)), [norm(sym2.value(a_, i)) for a_ in c_.args]))
            if len(found) != 1 or found[0][1] != [evp]:
                ok = False
            else:
                r_ = _re.sub(r'__iter__\((?:list|tuple)\((.*?)\)\)', r'__iter__(\1)', found[0][0])
                if r_ not in ('%s[__iter__(%s)]' % (TABLE, TABLE), '%s[__iter__(%s.keys())]' % (TABLE, TABLE), '__iter__(%s.items())[1]' % TABLE,
                              '%s[__iter__(%s.items())[0]]' % (TABLE, TABLE), '__iter__(%s.values())' % TABLE):
                    recv_ok = False
        ok = ok and n_it > 0
        ch.check(ok and recv_ok, 'C18.2', bc, 'one send per subscriber', 'each subscriber gets send(%s) once per event' % evp,
                 'the fan-out loop does not send the event itself exactly once to each subscriber: %s' % [norm(s) for s in sends])
        if sends:
            encl = enclosing_handlers(bc.node, sends[0])
            inner = [t for t, in_body in encl if in_body]
            in_loop = bool(inner) and any(x is inner[0] for x in ast.walk(lp))
            problems = []
            if not inner:
                problems.append('send() is not inside a try: a broken channel raises out of the dispatcher')
            elif not in_loop:
                problems.append('the try that handles a broken channel encloses the whole loop: the first broken subscriber ends the fan-out and every subscriber after it misses the event')
            else:
                hs = [h for h in inner[0].handlers if exc.handler_catches(h, BrokenPipeError) is True]
                if not hs:
                    problems.append('no handler for BrokenPipeError around send()')
                for h in hs:
                    for n_ in [x for s in h.body for x in walk_no_nested(s)]:
                        if isinstance(n_, (ast.Break, ast.Return, ast.Raise)):
                            problems.append('the broken-channel handler leaves the loop (%s)' % type(n_).__name__.lower())
            ch.check(not problems, 'C18.2', bc, 'broken channel handled per subscriber', 'a broken channel is handled inside the iteration and the loop goes on', '; '.join(problems))

    # ---------------- C18.3
    n3 = 0
    for f, lp2, node, reason in iteration_mutations(prog, funcs, disp, TABLE):
        n3 += 1
        if reason:
            ch.bad('C18.3', f, node, 'RuntimeError("dictionary changed size during iteration") in the dispatcher: ' + reason, line=getattr(node, 'lineno', None))
        else:
            ch.ok('C18.3', f, 'for %s in %s' % (norm(lp2.target), norm(lp2.iter)), 'body does not resize the subscriber table', line=lp2.lineno)
    if n3 == 0:
        ch.note('no loop iterates self.subscribers directly')

    # ---------------- method summaries for C18.4 / C18.5
    needs_present: Dict[str, str] = {}
    deletes: Dict[str, str] = {}
    for fn in funcs:
        if len(fn.params) < 2:
            continue
        pid = fn.params[1]
        for n_ in walk_no_nested(fn.node):
            tgt = None
            if isinstance(n_, ast.Subscript) and attr_chain(n_.value) == TABLE and norm(n_.slice) == pid and isinstance(n_.ctx, (ast.Load, ast.Del)):
                tgt = n_
            # TABLE.pop(id) is `del TABLE[id]` (KeyError for an unknown id); TABLE.pop(id, default) removes without needing the id
            if isinstance(n_, ast.Call) and isinstance(n_.func, ast.Attribute) and n_.func.attr == 'pop' and attr_chain(n_.func.value) == TABLE and n_.args and norm(n_.args[0]) == pid:
                deletes[fn.name] = '%s.pop(%s)' % (TABLE, pid)
                if len(n_.args) == 1 and not n_.keywords:
                    if not any(in_body and any(exc.handler_catches(h, KeyError) is True for h in t.handlers) for t, in_body in enclosing_handlers(fn.node, n_)):
                        needs_present[fn.name] = norm(n_)
                continue
            if tgt is None:
                continue
            caught = False
            for t, in_body in enclosing_handlers(fn.node, tgt):
                if in_body and any(exc.handler_catches(h, KeyError) is True for h in t.handlers):
                    caught = True
            if isinstance(tgt.ctx, ast.Del):
                deletes[fn.name] = 'del %s[%s]' % (TABLE, pid)
            if not caught:
                needs_present[fn.name] = norm(tgt)
    changed = True
    while changed:
        changed = False
        for fn in funcs:
            if len(fn.params) < 2:
                continue
            pid = fn.params[1]
            for c, name in self_calls(fn):
                if c.args and norm(c.args[0]) == pid:
                    # is the call itself inside a handler for KeyError?
                    caught = any(in_body and any(exc.handler_catches(h, KeyError) is True for h in t.handlers) for t, in_body in enclosing_handlers(fn.node, c))
                    if name in deletes and fn.name not in deletes:
                        deletes[fn.name] = 'calls %s' % name
                        changed = True
                    if name in needs_present and fn.name not in needs_present and not caught:
                        # only if not preceded by its own guard; keep simple: propagate
                        needs_present[fn.name] = 'calls %s' % name
                        changed = True

    he = disp.methods['handle_event']
    gh = cfg_of(he, prog, exc_edges=False)
    bad4s = bad4u = bad5 = None
    n_sub = n_unsub = 0
    n_failed_ack = 0
    for p in fpaths(gh):
        ch.paths += 1
        if p.exit_kind != 'return':
            continue
        sym = Sym(p)
        present: Set[str] = set()
        kind = None
        for a, pol in allfacts(p).items():
            if 'eventNames.SUBSCRIBE' in a and a.endswith('eventNames.SUBSCRIBE') and pol:
                kind = 'sub'
            if a.endswith('eventNames.UNSUBSCRIBE') and pol:
                kind = 'unsub'
        events: List[str] = []
        for sidx, (nid, lab) in enumerate(p.steps):
            nd = gh.nodes[nid]
            if nd.kind == 'test' and lab in (True, False):
                e = nd.ast
                if isinstance(e, ast.Compare) and len(e.ops) == 1 and isinstance(e.ops[0], (ast.In, ast.NotIn)) and attr_chain(e.comparators[0]) == TABLE:
                    isin = lab if isinstance(e.ops[0], ast.In) else not lab
                    if isin:
                        present.add(norm(e.left))
                        events.append('member')
                    else:
                        events.append('notmember')
            if nd.ast is None or nd.kind not in ('stmt', 'test'):
                continue
            for chn, k2, node in attr_effects(nd.ast) if nd.kind == 'stmt' else []:
                if chn == TABLE and k2 == 'item':
                    present.add(norm(node.targets[0].slice))  # type: ignore[attr-defined]
                    events.append('store')
                if chn == TABLE and k2 == 'delitem':
                    k3 = norm(node.targets[0].slice)  # type: ignore[attr-defined]
                    if k3 not in present:
                        bad5 = ('`%s` on a path where the id is not known to be present' % norm(node), p.describe(20))
                    present.discard(k3)
                if chn == TABLE and k2 == 'call:pop' and node.args:      # type: ignore[attr-defined]
                    k3 = norm(node.args[0])  # type: ignore[attr-defined]
                    if k3 not in present and len(node.args) == 1:  # type: ignore[attr-defined]
                        bad5 = ('`%s` on a path where the id is not known to be present' % norm(node), p.describe(20))
                    present.discard(k3)
                    events.append('remove')
            for c in walk_no_nested(nd.ast):
                if isinstance(c, ast.Call) and isinstance(c.func, ast.Attribute) and isinstance(c.func.value, ast.Name) and c.func.value.id == 'self' and c.args:
                    name = c.func.attr
                    arg = norm(c.args[0])
                    if name in needs_present and arg not in present:
                        bad5 = ('%s(%s) is called although %s may no longer be in self.subscribers (%s; a helper that deletes the entry ran before, or the id was never checked): '
                                'KeyError escapes through run() and the dispatcher stops for every subscriber' % (name, arg, arg, needs_present[name]), p.describe(20))
                    if name == '_send':
                        events.append('ack:' + norm(sym.value(c.args[1], sidx))[:80] if len(c.args) > 1 else 'ack')
                    if name in deletes:
                        events.append('remove')
                        present.discard(arg)
        if kind == 'sub':
            n_sub += 1
            acks = [i for i, e in enumerate(events) if e.startswith('ack') and 'SUBSCRIBED' in e]
            stores = [i for i, e in enumerate(events) if e == 'store']
            if not stores or not acks or stores[0] > acks[0]:
                bad4s = ('SUBSCRIBE: the entry is not stored before the SUBSCRIBED ack is sent (events %s)' % events, p.describe(20))
            # failed ack => removed: path fact `self._send(...)` False must contain 'remove'
            failed = any(gh.nodes[nid].kind == 'test' and lab is False and 'self._send(' in norm(gh.nodes[nid].ast) for nid, lab in p.steps)  # type: ignore[arg-type]
            if failed and 'remove' not in events:
                bad4s = ('SUBSCRIBE: a subscriber whose SUBSCRIBED ack could not be delivered stays in the table', p.describe(20))
            n_failed_ack += 1 if failed else 0
        if kind == 'unsub':
            n_unsub += 1
            if 'member' in events:
                acks = [i for i, e in enumerate(events) if e.startswith('ack') and 'UNSUBSCRIBED' in e]
                rem = [i for i, e in enumerate(events) if e == 'remove']
                if not acks or not rem or rem[-1] < acks[0]:
                    bad4u = ('UNSUBSCRIBE of a known id: the UNSUBSCRIBED ack is not sent before the entry is removed, or the entry is not removed (events %s)' % events, p.describe(20))
            elif 'notmember' in events:
                if any(e.startswith('ack') or e == 'remove' for e in events):
                    bad4u = ('UNSUBSCRIBE of an unknown id touches the table (events %s)' % events, p.describe(20))
            else:
                bad4u = ('UNSUBSCRIBE does not test whether the id is subscribed', p.describe(20))
    if bad4s is None and n_sub > 0 and n_failed_ack == 0:
        bad4s = ('SUBSCRIBE: whether the SUBSCRIBED ack could be delivered is not looked at, so a subscriber whose channel was already broken stays in the table '
                 '(with whatever the failed send left of its connection) until some later broadcast trips over it', [])
    ch.check(bad4s is None and n_sub > 0, 'C18.4', he, 'SUBSCRIBE window', 'store before ack; failed ack removes the entry (%d path(s))' % n_sub, bad4s[0] if bad4s else 'no SUBSCRIBE path', witness=bad4s[1] if bad4s else None)
    ch.check(bad4u is None and n_unsub > 0, 'C18.4', he, 'UNSUBSCRIBE window', 'ack then removal for a known id; nothing for an unknown id (%d path(s))' % n_unsub, bad4u[0] if bad4u else 'no UNSUBSCRIBE path', witness=bad4u[1] if bad4u else None)
    ch.check(bad5 is None, 'C18.5', he, 'presence typestate in handle_event', 'unguarded helpers (%s) only called for ids known present' % sorted(needs_present), bad5[0] if bad5 else '', witness=bad5[1] if bad5 else None)
    # _broadcast: ids used after the loop come from the loop; each deleted once
    gb = cfg_of(bc, prog)
    bad5b = None
    for p in fpaths(gb):
        present = set()
        collected: Dict[str, Set[str]] = {}
        for nid, lab in p.steps:
            nd = gb.nodes[nid]
            if nd.kind == 'for' and lab == 'iter':
                it = nd.ast.iter  # type: ignore[union-attr]
                tv = norm(nd.ast.target)  # type: ignore[union-attr]
                di2 = dict_iter(nd.ast.target, it, TABLE)  # type: ignore[union-attr]
                if di2 is not None:
                    if di2['key'] is not None:
                        present.add(di2['key'])
                elif isinstance(it, ast.Name) and _filled_from_table(bc, it.id):
                    present.add(tv)
            if nd.kind == 'stmt' and nd.ast is not None and lab != 'exc':
                for c in walk_no_nested(nd.ast):
                    if isinstance(c, ast.Call) and isinstance(c.func, ast.Attribute) and c.func.attr == 'append' and isinstance(c.func.value, ast.Name) and c.args:
                        if norm(c.args[0]) in present:
                            collected.setdefault(c.func.value.id, set()).add(norm(c.args[0]))
                    if isinstance(c, ast.Call) and isinstance(c.func, ast.Attribute) and isinstance(c.func.value, ast.Name) and c.func.value.id == 'self' and c.args:
                        if c.func.attr in needs_present and norm(c.args[0]) not in present:
                            bad5b = ('%s(%s) in _broadcast for an id not known present' % (c.func.attr, norm(c.args[0])), p.describe(20))
                        if c.func.attr in deletes:
                            present.discard(norm(c.args[0]))
                for chn, k2, node in attr_effects(nd.ast):
                    if chn == TABLE and k2 == 'delitem':
                        k3 = norm(node.targets[0].slice)  # type: ignore[attr-defined]
                        if k3 not in present:
                            bad5b = ('`%s` in _broadcast for an id that is not known to be present (not the variable of a loop over the table / over ids collected from it)' % norm(node), p.describe(20))
                        present.discard(k3)
    ch.check(bad5b is None, 'C18.5', bc, 'presence typestate in _broadcast', 'evictions use ids collected from the table, each once', bad5b[0] if bad5b else '', witness=bad5b[1] if bad5b else None)
    ch.ok('C18.5', disp.methods['_close_and_delete'], 'helper summaries', 'need the id present: %s; may delete it: %s' % (sorted(needs_present.items()), sorted(deletes.items())))

    # ---------------- C18.6
    sub = ce.try_eval(m, ast.parse('eventNames.SUBSCRIBE', mode='eval').body)
    unsub = ce.try_eval(m, ast.parse('eventNames.UNSUBSCRIBE', mode='eval').body)
    evn = he.params[1]
    n_kind = {'sub': 0, 'unsub': 0, 'other': 0}
    bad6 = None
    for p in fpaths(gh):
        if p.exit_kind != 'return':
            continue
        fd = allfacts(p)
        is_sub = any(v is True and k.replace(' ', '') in ("%s['event_name']==eventNames.SUBSCRIBE" % evn, "eventNames.SUBSCRIBE==%s['event_name']" % evn) for k, v in fd.items())
        is_unsub = any(v is True and k.replace(' ', '') in ("%s['event_name']==eventNames.UNSUBSCRIBE" % evn, "eventNames.UNSUBSCRIBE==%s['event_name']" % evn) for k, v in fd.items())
        kind6 = 'sub' if is_sub else 'unsub' if is_unsub else 'other'
        n_kind[kind6] += 1
        bcasts = [c for i, st in p.stmts() for c in walk_no_nested(st) if isinstance(c, ast.Call) and attr_chain(c.func) == 'self._broadcast']
        if kind6 == 'other':
            if len(bcasts) != 1 or not bcasts[0].args or norm(Sym(p).value(bcasts[0].args[0], len(p.steps))) != evn:
                bad6 = ('an event that is neither SUBSCRIBE nor UNSUBSCRIBE is not broadcast exactly once as it is (%s)' % [norm(c) for c in bcasts], p.describe(16))
        elif bcasts:
            bad6 = ('a %s control event is also broadcast to the subscribers' % kind6.upper(), p.describe(16))
    ok6 = bad6 is None and all(n_kind.values()) and sub != unsub and sub is not None and unsub is not None
    ch.check(ok6, 'C18.6', he, 'three kinds of event', 'SUBSCRIBE / UNSUBSCRIBE / broadcast(ev) (paths per kind: %s)' % n_kind,
             bad6[0] if bad6 else 'handle_event no longer dispatches SUBSCRIBE, UNSUBSCRIBE and everything-else-is-broadcast (paths per kind: %s)' % n_kind, witness=bad6[1] if bad6 else None)

    # ---------------- C18.7
    _sub_id_check(ch)


def _filled_from_table(fn: FuncInfo, lname: str) -> bool:
    """every append to the local list happens inside a loop over the subscriber table and appends that loop's variable"""
    good = total = 0
    for n_ in walk_no_nested(fn.node):
        if isinstance(n_, ast.Call) and isinstance(n_.func, ast.Attribute) and n_.func.attr in ('append', 'extend', 'insert') and norm(n_.func.value) == lname:
            total += 1
    for lp in walk_no_nested(fn.node):
        di = dict_iter(lp.target, lp.iter, TABLE) if isinstance(lp, ast.For) else None
        if di is not None and di['key'] is not None:
            for n_ in walk_no_nested(lp):
                if isinstance(n_, ast.Call) and isinstance(n_.func, ast.Attribute) and n_.func.attr == 'append' and norm(n_.func.value) == lname \
                        and n_.args and norm(n_.args[0]) == di['key']:
                    good += 1
    return total > 0 and good == total


def _sub_id_check(ch: Checker) -> None:
    prog = ch.prog
    es = prog.class_named('EventSubscriber')
    UNIQUE = ('uuid.uuid4', 'uuid.uuid1', 'uuid4', 'uuid1', 'secrets.token_hex', 'secrets.token_bytes', 'secrets.token_urlsafe', 'os.urandom', 'itertools.count', 'next')
    SHARED = ('os.getpid', 'getpid', 'threading.get_ident', 'get_ident', 'threading.current_thread', 'threading.get_native_id', 'time.time', 'time.monotonic', 'id')
    n = 0
    for fn in es.methods.values():
        g = None
        for st in walk_no_nested(fn.node):
            if isinstance(st, ast.Assign) and len(st.targets) == 1 and attr_chain(st.targets[0]) == 'self.relay_sub_id' and norm(st.value) != 'None':
                g = g or cfg_of(fn, prog, exc_edges=False)
                vals = set()
                for p in fpaths(g):
                    for i, s2 in p.stmts():
                        if s2 is st:
                            vals.add(norm(Sym(p).value(st.value, i)))
                for vt in sorted(vals) or [norm(st.value)]:
                    n += 1
                    calls = [attr_chain(c.func) or '' for c in ast.walk(ast.parse(vt, mode='eval')) if isinstance(c, ast.Call)]
                    uniq = [c for c in calls if c in UNIQUE]
                    shared = [c for c in calls if c in SHARED]
                    if uniq:
                        ch.ok('C18.7', fn, st, 'subscription id drawn from %s' % uniq[0])
                    elif shared or not calls:
                        ch.bad('C18.7', fn, st, 'the subscription id is %s, built only from %s: two subscribers set up by the same thread of one process get the same id, the dispatcher\'s table '
                                                'keeps only the second channel, the first subscriber receives nothing after its ack and its unsubscribe closes the other one\'s channel'
                               % (vt[:70], shared or 'constants'))
                    else:
                        ch.skip('C18.7', fn, st, 'source of the subscription id (%s) not recognised; uniqueness not decided' % vt[:70])
    if n == 0:
        ch.bad('C18.7', None, 'relay_sub_id', 'EventSubscriber no longer assigns relay_sub_id', module_rel=es.module.relpath)
