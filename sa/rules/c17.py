"""C17 -- threaded, local-threadless and remote-threadless modes behave identically.

The property is a differential statement about byte/event transcripts; no static argument bounds
those.  What IS in the shape of the code is the part that makes the statement plausible at all: the
three modes run the same per-connection code through the same protocol, and that code cannot tell
which mode it is in.  These are sibling-agreement rules over the drivers (the thread-per-connection
loop in HttpProtocolHandler.run and the shared loop in Threadless) and a who-may-observe rule for the
mode selection; each is a necessary condition -- breaking one makes at least one mode behave
differently from the others on some conversation -- and none of them is the behavioural property.

Decided:
  C17.1 every mode builds the work object the same way: `work_klass(work_klass.create(...), ...)`
        with the same constructor keywords (modulo keywords left at the constructor's default and the
        two documented per-mode ones: uid, upstream_conn_pool);
  C17.2 both drivers drive a work through the same protocol methods of `Work`
        (initialize / get_events / handle_events / is_inactive / shutdown, and the WORK_STARTED event);
  C17.3 in both drivers handle_events receives the descriptors selected for reading first and those
        selected for writing second;
  C17.4 per-connection code (handlers, plugins, connections, parsers) does not branch on the execution
        mode -- neither on flags.threaded / threadless / local_executor nor on a field that is only
        set in one mode -- except to manage that field itself;
  C17.5 the acceptor hands every accepted (conn, addr) pair to exactly one executor on every path, and the
        local executor is started under the very condition under which work is put on its queue;
  C17.10 every subscript of the acceptor's executor_* lists is reduced modulo the number of executors;
  shared by dependency (the drivers use the per-connection code differently: every tick vs. on readiness,
        re-registration vs. kept registrations, finally: shutdown() vs. _cleanup): C10.2, C19.6, C20.4, C05.1,
        C10.1, C20.2, C05.8, C10.6 as C17.6-C17.9 and C17.11-C17.14.
Not decided: equality of the transcripts; scheduling, fairness and timing differences between a
thread, an in-process loop and a worker process; behaviour of the operating system's descriptor passing."""
import ast
from typing import Any, Dict, List, Optional, Set, Tuple

from ..cfg import cfg_of
from ..flow import fpaths, allfacts, Sym
from ..model import FuncInfo, ClassInfo, attr_chain, norm, walk_no_nested, AnalysisError
from ..report import Checker

MODE_FLAGS = ('threaded', 'threadless', 'local_executor')
PER_MODE_KEYWORDS = {
    'uid': 'identity of the work in logs and events only',
    'upstream_conn_pool': 'the connection pool exists only in the shared loop (documented: --enable-conn-pool is a threadless feature); reuse is decided by C12',
}
# modules whose code runs per connection (the same objects in every mode)
PER_CONNECTION = ('proxy/http/', 'proxy/core/base/', 'proxy/core/connection/', 'proxy/plugin/', 'proxy/common/utils.py', 'proxy/core/work/work.py')


def _unwrap_cast(e: ast.AST) -> ast.AST:
    while isinstance(e, ast.Call) and attr_chain(e.func) in ('cast', 'typing.cast') and len(e.args) == 2:
        e = e.args[1]
    return e


def _is_mode_read(e: ast.AST) -> Optional[str]:
    ch = attr_chain(e)
    if ch is None:
        return None
    parts = ch.split('.')
    if len(parts) >= 2 and parts[-1] in MODE_FLAGS and parts[-2] in ('flags', 'args'):
        return ch
    return None


def _mode_reads(e: ast.AST, mode_fields: Set[str]) -> List[str]:
    out = []
    for x in ast.walk(e):
        r = _is_mode_read(x)
        if r:
            out.append(r)
        elif isinstance(x, ast.Attribute) and attr_chain(x) in mode_fields and isinstance(x.ctx, ast.Load):
            out.append(attr_chain(x))  # type: ignore[arg-type]
    return out


def _only_manages(body: List[ast.stmt], field: Set[str]) -> bool:
    """the branch does nothing but create / close / drop the per-mode field itself (and log)"""
    for s in body:
        for x in ast.walk(s):
            if isinstance(x, ast.Call):
                cn = attr_chain(x.func) or ''
                if cn.split('.')[0] in ('logger', 'logging'):
                    continue
                if any(cn.startswith(f + '.') for f in field):
                    continue
                if isinstance(s, (ast.Assign, ast.AnnAssign)) and x is s.value:
                    tg = s.targets[0] if isinstance(s, ast.Assign) else s.target
                    if attr_chain(tg) in field:
                        continue        # self.selector = DefaultSelector()
                return False
            if isinstance(x, (ast.Return, ast.Raise, ast.Break, ast.Continue)):
                return False
        if isinstance(s, (ast.Assign, ast.AnnAssign, ast.AugAssign)):
            tgs = s.targets if isinstance(s, ast.Assign) else [s.target]
            if not all(attr_chain(t) in field for t in tgs):
                return False
    return True


def _protocol_methods(prog: Any) -> Set[str]:
    work = prog.class_named('Work')
    return {m for m in work.methods if not m.startswith('_') and m not in ('create', 'run')}


def _threaded_driver(prog: Any, klass: ClassInfo, protocol: Set[str]) -> Tuple[List[FuncInfo], Dict[str, List[Tuple[FuncInfo, ast.Call]]]]:
    """functions reachable from <work class>.run through self-calls that are not protocol methods, and the
    protocol calls they make"""
    start = prog.lookup_method(klass, 'run')
    if start is None:
        raise AnalysisError('anchor vanished: %s.run (threaded driver)' % klass.name)
    seen: Dict[str, FuncInfo] = {}
    calls: Dict[str, List[Tuple[FuncInfo, ast.Call]]] = {}
    todo = [start]
    while todo:
        f = todo.pop()
        if f.key in seen:
            continue
        seen[f.key] = f
        for c in walk_no_nested(f.node):
            if isinstance(c, ast.Call) and isinstance(c.func, ast.Attribute) and attr_chain(c.func.value) == 'self':
                nm = c.func.attr
                if nm in protocol:
                    calls.setdefault(nm, []).append((f, c))
                else:
                    g = prog.lookup_method(klass, nm)
                    if g is not None:
                        todo.append(g)
    return list(seen.values()), calls


def _is_work_expr(e: ast.AST, aliases: Set[str]) -> bool:
    if isinstance(e, ast.Name):
        return e.id in aliases
    if isinstance(e, ast.Subscript) and attr_chain(e.value) == 'self.works':
        return True
    if isinstance(e, ast.Call) and attr_chain(e.func) in ('self.works.get', 'self.works.pop'):
        return True
    return False


def _work_aliases(fn: FuncInfo) -> Set[str]:
    al: Set[str] = set()
    changed = True
    while changed:
        changed = False
        for s in walk_no_nested(fn.node):
            if isinstance(s, ast.Assign) and len(s.targets) == 1 and isinstance(s.targets[0], ast.Name) and _is_work_expr(_unwrap_cast(s.value), al):
                if s.targets[0].id not in al:
                    al.add(s.targets[0].id)
                    changed = True
            # a local that is stored into the works table, or that holds what self.create(...) returned, is a work too
            if isinstance(s, ast.Assign) and len(s.targets) == 1 and isinstance(s.targets[0], ast.Subscript) and attr_chain(s.targets[0].value) == 'self.works' and \
                    isinstance(s.value, ast.Name) and s.value.id not in al:
                al.add(s.value.id)
                changed = True
            if isinstance(s, ast.Assign) and len(s.targets) == 1 and isinstance(s.targets[0], ast.Name) and isinstance(_unwrap_cast(s.value), ast.Call) and \
                    attr_chain(_unwrap_cast(s.value).func) == 'self.create' and s.targets[0].id not in al:       # type: ignore[attr-defined]
                al.add(s.targets[0].id)
                changed = True
            if isinstance(s, (ast.For, ast.comprehension)):
                it = s.iter
                tg = s.target
                if isinstance(it, ast.Call) and attr_chain(it.func) == 'self.works.values' and isinstance(tg, ast.Name) and tg.id not in al:
                    al.add(tg.id)
                    changed = True
                if isinstance(it, ast.Call) and attr_chain(it.func) == 'self.works.items' and isinstance(tg, ast.Tuple) and len(tg.elts) == 2 and \
                        isinstance(tg.elts[1], ast.Name) and tg.elts[1].id not in al:
                    al.add(tg.elts[1].id)
                    changed = True
    return al


def _threadless_driver(prog: Any, protocol: Set[str]) -> Tuple[List[FuncInfo], Dict[str, List[Tuple[FuncInfo, ast.Call]]]]:
    base = prog.class_named('Threadless')
    fns: List[FuncInfo] = []
    calls: Dict[str, List[Tuple[FuncInfo, ast.Call]]] = {}
    for ci in [base] + prog.subclasses(base):
        for nm, f in list(ci.methods.items()) + list(ci.inlined_methods.items()):
            fns.append(f)
            al = _work_aliases(f)
            for c in walk_no_nested(f.node):
                if isinstance(c, ast.Call) and isinstance(c.func, ast.Attribute) and c.func.attr in protocol and _is_work_expr(c.func.value, al):
                    calls.setdefault(c.func.attr, []).append((f, c))
    return fns, calls


def _event_test(t: ast.AST, masks: Set[str]) -> Optional[str]:
    """'EVENT_READ' / 'EVENT_WRITE' when t tests `<mask> & selectors.EVENT_X` (also != 0 / > 0 / bool(...))"""
    if isinstance(t, ast.Compare) and len(t.ops) == 1 and isinstance(t.ops[0], (ast.NotEq, ast.Gt)) and isinstance(t.comparators[0], ast.Constant) and t.comparators[0].value == 0:
        t = t.left
    if isinstance(t, ast.Call) and attr_chain(t.func) == 'bool' and t.args:
        t = t.args[0]
    if not (isinstance(t, ast.BinOp) and isinstance(t.op, ast.BitAnd)):
        return None
    sides = [t.left, t.right]
    if not any(isinstance(x, ast.Name) and x.id in masks for x in sides):
        return None
    ev = [attr_chain(x) for x in sides if not (isinstance(x, ast.Name) and x.id in masks)]
    if not ev or ev[0] is None or ev[0].split('.')[-1] not in ('EVENT_READ', 'EVENT_WRITE'):
        return None
    return ev[0].split('.')[-1]


def _select_loop(fns: List[FuncInfo]) -> Optional[Tuple[FuncInfo, ast.AST, Dict[str, List[ast.AST]]]]:
    """where the results of select() are sorted by event: {'EVENT_READ': [containers the descriptor goes into under that test], 'EVENT_WRITE': ...}.
    Two spellings: a loop `for key, mask in <events>: if mask & EVENT_X: C.append(...)`, and a comprehension `C = [... for key, mask in <events> if mask & EVENT_X]`"""
    for f in fns:
        found: Dict[str, List[ast.AST]] = {}
        site: Optional[ast.AST] = None
        for lp in walk_no_nested(f.node):
            if isinstance(lp, ast.For) and isinstance(lp.target, ast.Tuple) and len(lp.target.elts) == 2 and isinstance(lp.target.elts[1], ast.Name):
                masks = {lp.target.elts[1].id}
                for s in ast.walk(lp):
                    if isinstance(s, ast.If):
                        ev = _event_test(s.test, masks)
                        if ev is None:
                            continue
                        for b in s.body:
                            for c in ast.walk(b):
                                if isinstance(c, ast.Call) and isinstance(c.func, ast.Attribute) and c.func.attr in ('append', 'add'):
                                    found.setdefault(ev, []).append(c.func.value)
                                    site = site or lp
            if isinstance(lp, (ast.Assign, ast.AnnAssign)) and lp.value is not None and isinstance(lp.value, (ast.ListComp, ast.SetComp)) and len(lp.value.generators) == 1:
                g = lp.value.generators[0]
                tg = lp.targets[0] if isinstance(lp, ast.Assign) else lp.target
                if isinstance(g.target, ast.Tuple) and len(g.target.elts) == 2 and isinstance(g.target.elts[1], ast.Name) and isinstance(tg, ast.Name) and len(g.ifs) == 1:
                    ev = _event_test(g.ifs[0], {g.target.elts[1].id})
                    if ev is not None:
                        found.setdefault(ev, []).append(ast.Name(id=tg.id, ctx=ast.Load()))
                        site = site or lp
        if 'EVENT_READ' in found and 'EVENT_WRITE' in found and site is not None:
            return f, site, found
    return None


def _sorting(prog: Any, fns: List[FuncInfo]) -> Optional[Tuple[FuncInfo, Optional[str], Dict[str, List[ast.AST]]]]:
    """How a driver sorts what select() returned.  -> (function, problem or None, {'EVENT_READ': [container], 'EVENT_WRITE': [container]}).
    Loop spelling, decided on paths: on every way through one iteration that sorts at all, `mask & EVENT_READ` and
    `mask & EVENT_WRITE` are BOTH tested, and the descriptor goes into the read container exactly when the first holds and
    into the write container exactly when the second holds (a descriptor ready for both goes into both).  The containers are
    identified by value (a local that merely points at one of them is read through).  Comprehension spelling: one filtered
    comprehension per event is independent by construction."""
    import re as _re
    for f in fns:
        loops = [lp for lp in walk_no_nested(f.node) if isinstance(lp, ast.For) and isinstance(lp.target, ast.Tuple) and len(lp.target.elts) == 2 and
                 isinstance(lp.target.elts[1], ast.Name) and any(isinstance(x, ast.Attribute) and x.attr in ('EVENT_READ', 'EVENT_WRITE') for x in ast.walk(lp))]
        if not loops:
            sl = _select_loop([f])
            if sl is not None:
                return f, None, sl[2]
            continue
        lp = loops[0]
        mask = lp.target.elts[1].id      # type: ignore[attr-defined]
        g = cfg_of(f, prog, exc_edges=False)
        head = [n for n in g.nodes if n.kind == 'for' and n.ast is lp]
        if not head:
            continue
        hid = head[0].id
        rows: List[Tuple[Optional[bool], Optional[bool], List[str], List[str]]] = []
        asts: Dict[str, ast.AST] = {}
        for p in fpaths(g):
            idxs = [i for i, (nid, lab) in enumerate(p.steps) if nid == hid]
            if not idxs or p.steps[idxs[0]][1] != 'iter':
                continue
            start = idxs[0]
            end = idxs[1] if len(idxs) > 1 else len(p.steps)
            sym = Sym(p)
            fd_end = allfacts(p, end)
            fd_start = allfacts(p, start + 1)

            def fact(ev: str) -> Optional[bool]:
                out = None
                for k, v in fd_end.items():
                    if ev in k and _re.search(r'\b%s\b' % _re.escape(mask), k) and '&' in k and ' and ' not in k and ' or ' not in k and fd_start.get(k) is None:
                        out = v
                return out
            rf, wf = fact('EVENT_READ'), fact('EVENT_WRITE')
            conts: List[str] = []
            for i, nd, lab in p.executed():
                if not (start < i < end) or nd.kind != 'stmt':
                    continue
                for c in walk_no_nested(nd.ast):        # type: ignore[arg-type]
                    if isinstance(c, ast.Call) and isinstance(c.func, ast.Attribute) and c.func.attr in ('append', 'add') and len(c.args) == 1:
                        e: ast.AST = c.func.value
                        at = i
                        for _ in range(6):               # read through locals that merely point at a container
                            if not isinstance(e, ast.Name):
                                break
                            d = sym.last_def(e.id, at)
                            if d is None:
                                break
                            if isinstance(d[1], ast.Name):
                                e, at = d[1], d[0]
                            elif isinstance(d[1], (ast.List, ast.Set)) or (isinstance(d[1], ast.Call) and attr_chain(d[1].func) in ('list', 'set')):
                                break                    # a fresh container: the local is the container
                            else:
                                e = sym.value(e, at)
                                break
                        conts.append(norm(e))
                        asts[norm(e)] = e
            if not conts and (rf is None or wf is None):
                continue                                 # an iteration that does not sort (e.g. the work-queue descriptor: asserted readable, then `continue`)
            rows.append((rf, wf, conts, p.describe(14)))
        if not rows:
            continue
        R = {c_ for rf, wf, cs, _ in rows if rf is True and wf is False for c_ in cs}
        W = {c_ for rf, wf, cs, _ in rows if wf is True and rf is False for c_ in cs}
        problem = None
        for rf, wf, cs, desc in rows:
            if rf is None or wf is None:
                problem = 'a way through the sorting loop tests only %s: a descriptor that is ready for both reading and writing is reported for one of them only' % \
                    ('EVENT_READ' if wf is None else 'EVENT_WRITE')
            elif len(R) == 1 and len(W) == 1:
                r_, w_ = next(iter(R)), next(iter(W))
                if (r_ in cs) != (rf is True) or (w_ in cs) != (wf is True):
                    problem = 'with EVENT_READ %s and EVENT_WRITE %s the descriptor is put into %s' % (rf, wf, cs or 'nothing')
        if len(R) != 1 or len(W) != 1 or R == W:
            problem = problem or 'read-ready and write-ready descriptors are not collected in two separate containers (read: %s, write: %s)' % (sorted(R), sorted(W))
        found = {'EVENT_READ': [asts[x] for x in R if x in asts], 'EVENT_WRITE': [asts[x] for x in W if x in asts]}
        return f, problem, found
    return None


def _position(container: ast.AST, fn: FuncInfo, he_calls: List[Tuple[FuncInfo, ast.Call]], prog: Any, klass: Optional[ClassInfo]) -> Optional[int]:
    """position (0/1) at which `container` reaches handle_events, or None when the hand-over has a form outside
    the enumerated ones"""
    # form A: container is X[k][i]: the pair X[k] is passed starred
    if isinstance(container, ast.Subscript) and isinstance(container.slice, ast.Constant) and isinstance(container.slice.value, int):
        pair = norm(container.value)
        base = norm(container.value.value) if isinstance(container.value, ast.Subscript) else pair
        for hf, hc in he_calls:
            if len(hc.args) == 1 and isinstance(hc.args[0], ast.Starred):
                sv = hc.args[0].value
                if isinstance(sv, ast.Subscript) and attr_chain(sv.value) is not None:
                    # the dictionary may be passed on under another name (a parameter): positional pairs keep their order
                    return container.slice.value
                if norm(sv) in (pair, base):
                    return container.slice.value
        return None
    # form B: container is a local name: it reaches the call directly, or through a returned tuple that is unpacked
    if isinstance(container, ast.Name):
        name = container.id
        for hf, hc in he_calls:
            if hf is fn:
                for i, a in enumerate(hc.args):
                    if isinstance(a, ast.Name) and a.id == name:
                        return i
        rets = [r.value for r in walk_no_nested(fn.node) if isinstance(r, ast.Return) and r.value is not None]
        for rv in rets:
            if isinstance(rv, ast.Tuple):
                names = [e.id if isinstance(e, ast.Name) else None for e in rv.elts]
                if name not in names:
                    continue
                ridx = names.index(name)
                for hf, hc in he_calls:
                    # result unpacked into names in the caller
                    for s in walk_no_nested(hf.node):
                        if isinstance(s, ast.Assign) and isinstance(s.targets[0], ast.Tuple) and len(s.targets[0].elts) == len(rv.elts):
                            v = s.value.value if isinstance(s.value, ast.Await) else s.value
                            if isinstance(v, ast.Call) and isinstance(v.func, ast.Attribute) and v.func.attr == fn.node.name:  # type: ignore[attr-defined]
                                tg = s.targets[0].elts[ridx]
                                if isinstance(tg, ast.Name):
                                    for i, a in enumerate(hc.args):
                                        if isinstance(a, ast.Name) and a.id == tg.id:
                                            return i
                    # result passed starred
                    if len(hc.args) == 1 and isinstance(hc.args[0], ast.Starred):
                        v = hc.args[0].value
                        v = v.value if isinstance(v, ast.Await) else v
                        if isinstance(v, ast.Call) and isinstance(v.func, ast.Attribute) and v.func.attr == fn.node.name:  # type: ignore[attr-defined]
                            return ridx
    return None


def run(ch: Checker) -> None:
    prog = ch.prog
    ch.rule('C17.1', 'every mode builds its work object the same way: work_klass(work_klass.create(<accepted pair>), ...) with the same constructor keywords, '
                     'except keywords left at the constructor\'s default and the per-mode ones (%s)' % ', '.join(sorted(PER_MODE_KEYWORDS)), 2)
    ch.rule('C17.2', 'the thread-per-connection driver and the shared-loop driver call the same protocol methods of Work on a work: a hook driven in one mode only '
                     '(initialisation, polling, the idle test, shutdown, the WORK_STARTED event) makes that mode behave differently', 6)
    ch.rule('C17.3', 'both drivers sort what select() returned by two independent tests (a descriptor ready for reading AND writing is reported for both), and handle_events receives the descriptors selected with EVENT_READ first and those selected with EVENT_WRITE second', 2)
    ch.rule('C17.4', 'per-connection code does not branch on the execution mode (flags.threaded / threadless / local_executor, or a field that only exists in one mode) '
                     'except to create / close that field itself', 1)
    ch.rule('C17.5', 'the acceptor hands every accepted (conn, addr) to exactly one executor on every path, and starts / stops the in-process executor under the condition '
                     'under which it queues work for it', 3)
    ch.import_rules('C10', {'C10.2': 'C17.6'}, 'both drivers keep the selector and their bookkeeping of one work in step')
    ch.import_rules('C19', {'C19.6': 'C17.7'}, 'a connection handed to a worker process arrives as the connection that was accepted')
    ch.import_rules('C20', {'C20.4': 'C17.8', 'C20.2': 'C17.12'}, 'idle connections are reaped in every mode; "activity" is stamped where client I/O happens, not where a driver happens to call '
                    '(the thread-per-connection loop calls handle_events on every tick, the shared loop only for ready descriptors)')
    ch.import_rules('C05', {'C05.1': 'C17.9', 'C05.8': 'C17.13'}, 'an exception raised by one work\'s handler ends that work in the shared loop as the `finally: shutdown()` of the thread-per-connection loop does; '
                    'a socket closed before teardown is harmless where descriptors are re-registered on every tick and poisons the selector of the shared loop')
    ch.import_rules('C10', {'C10.1': 'C17.11', 'C10.6': 'C17.14'}, 'every way out of either driver shuts the work down and closes what that mode received for it (the duplicated descriptor of a worker process included)')
    ch.rule('C17.15', 'per-connection code keeps no per-process memory of earlier answers: no lru_cache / cache / cached_property on functions of the per-connection modules (expected 0 sites)', 1)
    ch.rule('C17.10', 'dispatch to worker processes stays within the pool: every subscript of the acceptor\'s executor_* lists uses an index reduced modulo the number of executors '
                      '(flags.num_workers, which is how many the pool starts, or the length of that list)', 3)

    protocol = _protocol_methods(prog)
    work_cls = prog.class_named('Work')

    # ------------------------------------------------------------ C17.1
    init = prog.lookup_method(work_cls, '__init__')
    if init is None:
        raise AnalysisError('anchor vanished: Work.__init__')
    a = init.node.args  # type: ignore[attr-defined]
    pos = [x.arg for x in a.args][1:]
    defaults: Dict[str, str] = {}
    for nm, d in zip(pos[len(pos) - len(a.defaults):], a.defaults):
        defaults[nm] = norm(d)
    for nm, d in zip([x.arg for x in a.kwonlyargs], a.kw_defaults):
        if d is not None:
            defaults[nm] = norm(d)
    sites: List[Tuple[FuncInfo, ast.Call, Dict[str, str]]] = []
    klass_base: Dict[int, str] = {}      # id(call) -> the expression work_klass was read from (`flags` / `self.flags`)

    def _klass_expr(f: FuncInfo, e: ast.AST) -> Optional[ast.Attribute]:
        """e denotes <flags>.work_klass: written out, or a local whose single definition is that attribute"""
        e = _unwrap_cast(e)
        if isinstance(e, ast.Attribute) and e.attr == 'work_klass':
            return e
        if isinstance(e, ast.Name):
            ds = [s.value for s in walk_no_nested(f.node) if isinstance(s, (ast.Assign, ast.AnnAssign)) and s.value is not None and
                  any(isinstance(t, ast.Name) and t.id == e.id for t in (s.targets if isinstance(s, ast.Assign) else [s.target]))]
            if len(ds) == 1:
                d = _unwrap_cast(ds[0])
                if isinstance(d, ast.Attribute) and d.attr == 'work_klass':
                    return d
        return None
    for f in prog.all_functions('proxy', include_inlined=True):
        for c in walk_no_nested(f.node):
            if isinstance(c, ast.Call) and (c.args or c.keywords):
                ke = _klass_expr(f, c.func)
                if ke is None:
                    continue
                klass_base[id(c)] = norm(ke.value)
                kws: Dict[str, str] = {}
                for i, arg in enumerate(c.args[1:]):
                    if i + 1 < len(pos):
                        kws[pos[i + 1]] = norm(arg)
                for kw in c.keywords:
                    if kw.arg is None:
                        kws['**'] = norm(kw.value)
                    else:
                        kws[kw.arg] = norm(kw.value)
                sites.append((f, c, kws))
    if len(sites) < 2:
        raise AnalysisError('anchor vanished: fewer than two construction sites of flags.work_klass(...) (threaded and threadless)')
    eff = []
    for f, c, kws in sites:
        e = {k for k, v in kws.items() if defaults.get(k) != v and k not in PER_MODE_KEYWORDS}
        eff.append(e)
        first = c.args[0] if c.args else next((kw.value for kw in c.keywords if kw.arg == 'work'), None)
        fc = _unwrap_cast(first) if first is not None else None
        built = isinstance(fc, ast.Call) and isinstance(fc.func, ast.Attribute) and fc.func.attr == 'create' and _klass_expr(f, fc.func.value) is not None
        flags_same = 'flags' in kws and klass_base.get(id(c)) == kws['flags']
        ch.check(bool(built) and flags_same, 'C17.1', f, 'work_klass(...)',
                 'work built by work_klass.create(...) and given the flags it was selected from',
                 'this mode does not build its work through work_klass.create(...) / does not pass on the flags the work class was taken from: the per-connection object differs from the other modes\'')
    union = set().union(*eff)
    for (f, c, kws), e in zip(sites, eff):
        missing = sorted(union - e)
        ch.check(not missing, 'C17.1', f, 'constructor keywords',
                 'same effective keywords as the other mode(s): %s' % ', '.join(sorted(e)),
                 'keyword(s) %s are given to the work in another mode but not here: the work sees a different configuration in this mode' % ', '.join(missing))

    # ------------------------------------------------------------ C17.2 / C17.3
    # the work classes that have a thread-per-connection driver at all
    threaded_classes = [ci for ci in [work_cls] + prog.subclasses(work_cls) if 'run' in ci.methods and ci is not work_cls]
    if not threaded_classes:
        raise AnalysisError('anchor vanished: no Work subclass defines run() (threaded driver)')
    tl_fns, tl_calls = _threadless_driver(prog, protocol)
    starters = [f for f in prog.all_functions('proxy') if f.cls is None and any(
        isinstance(c, ast.Call) and attr_chain(c.func) in ('threading.Thread', 'Thread') and any(kw.arg == 'target' and isinstance(kw.value, ast.Attribute) and kw.value.attr == 'run' and
                                                                                               isinstance(kw.value.value, ast.Name) for kw in c.keywords)
        for c in walk_no_nested(f.node))]
    for klass in threaded_classes:
        th_fns, th_calls = _threaded_driver(prog, klass, protocol)
        for st in starters:         # the function that starts the thread drives the work too (WORK_STARTED)
            for c in walk_no_nested(st.node):
                if isinstance(c, ast.Call) and isinstance(c.func, ast.Attribute) and c.func.attr in protocol and isinstance(c.func.value, ast.Name):
                    th_calls.setdefault(c.func.attr, []).append((st, c))
        for f in th_fns:
            ch.touch(f)
        for m in sorted(protocol):
            in_th, in_tl = m in th_calls, m in tl_calls
            if not in_th and not in_tl:
                continue
            where = (th_calls.get(m) or tl_calls.get(m))[0][0]  # type: ignore[index]
            ch.check(in_th and in_tl, 'C17.2', where, 'Work.%s' % m,
                     'driven by both drivers (%s; %s)' % (', '.join(sorted({f.qualname for f, _ in th_calls.get(m, [])})), ', '.join(sorted({f.qualname for f, _ in tl_calls.get(m, [])}))),
                     'Work.%s() is called by the %s driver only: connections behave differently in the other mode' % (m, 'thread-per-connection' if in_th else 'shared-loop'))
        # event name agreement for publish_event
        def _evname(c: ast.Call) -> Optional[str]:
            for kw in c.keywords:
                if kw.arg == 'event_name':
                    return norm(kw.value)
            return norm(c.args[0]) if c.args else None
        e_th = {_evname(c) for _, c in th_calls.get('publish_event', [])}
        e_tl = {_evname(c) for _, c in tl_calls.get('publish_event', [])}
        if e_th or e_tl:
            where = (th_calls.get('publish_event') or tl_calls.get('publish_event'))[0][0]  # type: ignore[index]
            ch.check(e_th == e_tl, 'C17.2', where, 'events published by the drivers', 'both drivers publish %s' % ', '.join(sorted(x or '?' for x in e_th)),
                     'the drivers publish different events for a work: %s vs %s' % (sorted(x or '?' for x in e_th), sorted(x or '?' for x in e_tl)))

        # C17.3
        for label, fns, calls in (('thread-per-connection', th_fns, th_calls), ('shared-loop', tl_fns, tl_calls)):
            sl = _sorting(prog, fns)
            he = calls.get('handle_events', [])
            if sl is None or not he:
                raise AnalysisError('anchor vanished: the %s driver has no loop over select() results testing EVENT_READ / EVENT_WRITE, or no handle_events call' % label)
            f, problem, found = sl
            if problem is not None or not found['EVENT_READ'] or not found['EVENT_WRITE']:
                ch.bad('C17.3', f, 'selected descriptors -> handle_events (%s)' % label,
                       'the %s driver does not sort what select() returned the way the other driver does: %s' % (label, problem or 'no read / write container found'))
                continue
            pr = {_position(x, f, he, prog, klass) for x in found['EVENT_READ']}
            pw = {_position(x, f, he, prog, klass) for x in found['EVENT_WRITE']}
            if None in pr or None in pw:
                ch.skip('C17.3', f, 'selected descriptors -> handle_events (%s)' % label, 'the hand-over of the selected descriptors to handle_events has a form outside the enumerated ones')
                continue
            ch.check(pr == {0} and pw == {1}, 'C17.3', f, 'selected descriptors -> handle_events (%s)' % label,
                     'EVENT_READ descriptors are the first argument, EVENT_WRITE descriptors the second',
                     'the %s driver passes the descriptors selected for %s where handle_events expects the other kind: every work reads when it should write in this mode'
                     % (label, 'reading' if pr != {0} else 'writing'))

    # ------------------------------------------------------------ C17.4
    # fields that exist in one mode only: assigned under a branch on a mode flag
    mode_fields: Dict[str, Set[str]] = {}      # class qual -> fields
    for f in prog.all_functions('proxy', include_inlined=True):
        if f.cls is None or not f.module.relpath.startswith(PER_CONNECTION):
            continue
        for s in walk_no_nested(f.node):
            if isinstance(s, ast.If) and any(_is_mode_read(x) for x in ast.walk(s.test)):
                for b in s.body + s.orelse:
                    for x in ast.walk(b):
                        if isinstance(x, (ast.Assign, ast.AnnAssign)):
                            for t in (x.targets if isinstance(x, ast.Assign) else [x.target]):
                                tc = attr_chain(t)
                                if tc and tc.startswith('self.'):
                                    mode_fields.setdefault(f.cls.qual, set()).add(tc)
    n_sites = 0
    for f in prog.all_functions('proxy', include_inlined='residual'):
        if not f.module.relpath.startswith(PER_CONNECTION):
            continue
        fields: Set[str] = set()
        if f.cls is not None:
            for c in prog.mro(f.cls):
                fields |= mode_fields.get(c.qual, set())
        for s in walk_no_nested(f.node):
            tests: List[Tuple[ast.AST, List[ast.stmt], List[ast.stmt]]] = []
            if isinstance(s, (ast.If, ast.While)):
                tests.append((s.test, s.body, s.orelse))
            elif isinstance(s, ast.IfExp):
                tests.append((s.test, [ast.Expr(s.body)], [ast.Expr(s.orelse)]))
            for t, body, orelse in tests:
                reads = _mode_reads(t, fields)
                if not reads:
                    continue
                n_sites += 1
                managed = fields | {r for r in reads if r in fields}
                ok = _only_manages(body, fields) and _only_manages(orelse, fields) and bool(fields)
                ch.check(ok, 'C17.4', f, 'branch on %s: %s' % (', '.join(sorted(set(reads))), norm((body or orelse)[0])[:60]),
                         'the branch only creates / closes the per-mode field itself',
                         'per-connection behaviour depends on the execution mode here: what this branch does (%s) happens in one mode only'
                         % '; '.join(norm(b)[:60] for b in (body or orelse)[:2]), line=getattr(s, 'lineno', None))
    if n_sites == 0:
        ch.ok('C17.4', None, 'no mode-dependent branch', 'per-connection code never reads the mode selection', module_rel='proxy/http/handler.py')

    # ------------------------------------------------------------ C17.5
    acc = prog.class_named('Acceptor')
    ro = prog.lookup_method(acc, 'run_once')
    wk = prog.lookup_method(acc, '_work')
    rn = prog.lookup_method(acc, 'run')
    if ro is None or rn is None:
        raise AnalysisError('anchor vanished: Acceptor.run_once / run')

    def is_dispatch(c: ast.Call) -> Optional[str]:
        cn = attr_chain(c.func) or ''
        if cn.endswith('_local_work_queue.put'):
            return 'local'
        if cn in ('self._work',):
            return 'work'
        if cn == 'start_threaded_work':
            return 'threaded'
        if cn in ('threading.Thread', 'Thread') and any(kw.arg == 'target' and norm(kw.value) == 'delegate_work_to_pool' for kw in c.keywords):
            return 'pool'
        if cn == 'delegate_work_to_pool':
            return 'pool'
        return None

    for fn in [x for x in (ro, wk) if x is not None]:
        g = cfg_of(fn, prog, exc_edges=False)
        loops = [n for n in g.nodes if n.kind == 'for' and any(isinstance(c, ast.Call) and is_dispatch(c) for c in ast.walk(n.ast))]  # type: ignore[arg-type]
        loop_ids = {n.id for n in loops}
        bad: Optional[str] = None
        npaths = 0
        kinds: Set[str] = set()
        for p in fpaths(g):
            ch.paths += 1
            ex = p.executed()
            in_loop = fn is not ro
            count = 0
            entered = False
            for idx, nd, lab in ex:
                if nd.kind == 'for' and nd.id in loop_ids:
                    if lab == 'iter' and not entered:
                        entered = True
                        in_loop = True
                        count = 0
                    elif entered:
                        in_loop = False
                if nd.kind == 'stmt' and in_loop:
                    for c in walk_no_nested(nd.ast):  # type: ignore[arg-type]
                        if isinstance(c, ast.Call):
                            k = is_dispatch(c)
                            if k:
                                count += 1
                                kinds.add(k)
            if fn is ro and not entered:
                continue
            npaths += 1
            if count != 1 and p.exit_kind != 'raise':
                bad = 'a path hands the accepted connection to %d executors' % count
        if fn is ro and not loops:
            raise AnalysisError('anchor vanished: Acceptor.run_once has no loop over the accepted connections')
        ch.check(bad is None and npaths > 0, 'C17.5', fn, 'one dispatch per accepted connection', 'exactly one hand-over on all %d path(s) (%s)' % (npaths, ', '.join(sorted(kinds))),
                 bad or 'no path dispatches')
    # start / stop of the in-process executor under the same condition as queueing for it
    def cond_of(fn: FuncInfo, pred: Any) -> Set[str]:
        out: Set[str] = set()
        g = cfg_of(fn, prog, exc_edges=False)
        for p in fpaths(g):
            for idx, st in p.stmts():
                if any(isinstance(c, ast.Call) and pred(c) for c in walk_no_nested(st)):
                    fd = allfacts(p, idx)
                    out.add(' & '.join(sorted('%s=%s' % (k, v) for k, v in fd.items() if _is_mode_read(ast.parse(k, mode='eval').body if k.replace('.', '').replace('_', '').isalnum() else ast.Constant(value=None)))))
        return out
    q = cond_of(ro, lambda c: is_dispatch(c) == 'local')
    st = cond_of(rn, lambda c: attr_chain(c.func) == 'self._start_local')
    sp = cond_of(rn, lambda c: attr_chain(c.func) == 'self._stop_local')
    if not q or not st:
        ch.skip('C17.5', rn, 'in-process executor start', 'no in-process executor queueing / start found in the enumerated form')
    else:
        ch.check(q == st, 'C17.5', rn, 'in-process executor started when used', 'started under %s, the condition under which work is queued for it' % ' | '.join(sorted(st)),
                 'the in-process executor is started under %s but work is queued for it under %s: in the configurations between the two, accepted connections are never served (or served by nobody)'
                 % (sorted(st), sorted(q)))
        if sp:
            ch.check(sp == st, 'C17.5', rn, 'in-process executor stopped when started', 'stopped under the same condition', 'the in-process executor is stopped under %s but started under %s' % (sorted(sp), sorted(st)))

    # ------------------------------------------------------------ C17.15 nothing per-connection is remembered per process
    from .common import _memo_decorator
    n15 = 0
    for fn in prog.all_functions('proxy', include_inlined=True):
        if not fn.module.relpath.startswith(PER_CONNECTION):
            continue
        dn = _memo_decorator(getattr(fn, 'orig_node', fn.node))
        if dn:
            n15 += 1
            ch.bad('C17.15', fn, '@%s' % dn, '%s is memoised per process: which process answers a connection depends on the execution mode (one acceptor process for every connection, or a worker process chosen '
                   'round-robin), so the same conversation gets remembered answers in one mode and fresh ones in another' % fn.qualname)
    probe15 = ast.parse('@lru_cache(maxsize=2)\ndef f(x):\n    return x\n').body[0]
    assert _memo_decorator(probe15) == 'lru_cache'
    if n15 == 0:
        ch.ok('C17.15', None, 'memoised per-connection code', 'no function of the per-connection modules is memoised (matcher verified on a built-in example)', module_rel='proxy/http/')
    # ------------------------------------------------------------ C17.10
    n10 = 0
    for fn in (prog.lookup_method(acc, nm) for nm in sorted(acc.methods) + sorted(acc.inlined_methods)):
        if fn is None:
            continue
        g = None
        subs = [s for s in walk_no_nested(fn.node) if isinstance(s, ast.Subscript) and isinstance(s.ctx, ast.Load) and (attr_chain(s.value) or '').startswith('self.executor_')
                and not isinstance(s.slice, ast.Slice)]
        if not subs:
            continue
        g = cfg_of(fn, prog, exc_edges=False)
        verdict: Dict[int, Tuple[ast.Subscript, Optional[str]]] = {}
        for p in fpaths(g):
            ch.paths += 1
            sym = Sym(p)
            for i, nd, lab in p.executed():
                if nd.ast is None or nd.kind not in ('stmt', 'test'):
                    continue
                for s in walk_no_nested(nd.ast):
                    if any(s is x for x in subs):
                        v = sym.value(s.slice, i)        # type: ignore[attr-defined]
                        lst = attr_chain(s.value)        # type: ignore[attr-defined]
                        ok = isinstance(v, ast.BinOp) and isinstance(v.op, ast.Mod) and norm(v.right) in ('self.flags.num_workers', 'len(%s)' % lst)
                        ok = ok or (isinstance(v, ast.Constant) and v.value == 0)
                        prev = verdict.get(id(s), (s, None))[1]
                        verdict[id(s)] = (s, prev or (None if ok else norm(v)[:80]))   # type: ignore[assignment]
        for s, why in verdict.values():
            n10 += 1
            ch.check(why is None, 'C17.10', fn, s, 'index reduced modulo the number of executors',
                     'the executor for an accepted connection is chosen with index %s, which is not reduced modulo the number of executors: with a configuration where it runs past the list '
                     '(e.g. more acceptors than workers) the acceptor dies with IndexError and the connections it accepted are never served -- in this mode only' % why)
    # the pool starts exactly flags.num_workers executors
    tp = prog.class_named('ThreadlessPool')
    su = prog.lookup_method(tp, 'setup')
    if su is None:
        raise AnalysisError('anchor vanished: ThreadlessPool.setup')
    starts = [lp for lp in walk_no_nested(su.node) if isinstance(lp, ast.For) and any(isinstance(c_, ast.Call) and attr_chain(c_.func) == 'self._start_worker' for c_ in ast.walk(lp))]
    okp = len(starts) == 1 and isinstance(starts[0].iter, ast.Call) and attr_chain(starts[0].iter.func) == 'range' and len(starts[0].iter.args) == 1 and \
        norm(starts[0].iter.args[0]) == 'self.flags.num_workers'
    ch.check(okp, 'C17.10', su, 'executors started', 'exactly flags.num_workers executors are started', 'ThreadlessPool.setup does not start one executor per index in range(flags.num_workers): the acceptor\'s modulo no longer matches the pool size')
    if n10 == 0:
        raise AnalysisError('anchor vanished: the acceptor no longer indexes its executor_* lists')
    from .common import sweep_period_check
    ch.rule('C17.16', 'the idle sweep of the shared loop runs every Threadless.cleanup_inactive_timeout seconds, a positive constant below DEFAULT_TIMEOUT: the bound on how much longer than --timeout an idle connection lives in the shared-loop modes (the per-connection thread tests every select round)', 1)
    sweep_period_check(ch, 'C17.16')
