"""C12 -- the reverse proxy routes matching requests to a configured upstream, as documented.

Decided:
  C12.1 port defaulting table: http -> 80, otherwise -> 443, explicit port wins;
  C12.2 connect target = chosen URL's host and that port; TLS wrap exactly for https with the
        same host and flags.ca_file;
  C12.3 the chosen URL belongs to the matched route (static route: random.choice over the
        URLs of the very route whose pattern matched; first match wins);
  C12.4 rewrite rules: the request path becomes the URL's path before the rebuild; the Host
        override is present exactly under flags.rewrite_host_header and is host[:port] with the
        port part present iff the URL has an explicit port;
  C12.5 upstream data is relayed to the client unchanged, once;
  C12.6 no route => 404 and no connection; the web layer and the reverse proxy match routes
        against the same string, so a request admitted by one is routed by the other.
Not decided: regular-expression semantics of arbitrary route tables; header/body preservation
beyond C02."""
import ast
from typing import Any, Dict, List, Optional, Tuple

from ..cfg import cfg_of
from ..consteval import ConstEval
from ..flow import Sym, fpaths, allfacts
from ..model import FuncInfo, attr_chain, norm, walk_no_nested
from ..report import Checker
from .c01 import _relay_param


def _expand(e: Optional[ast.AST], conds: List[Tuple[str, bool]]) -> List[Tuple[List[Tuple[str, bool]], Optional[ast.AST]]]:
    """expand conditional expressions into (conditions, value) cases; BinOp Add distributes"""
    if e is None:
        return [(conds, None)]
    if isinstance(e, ast.IfExp):
        t = norm(e.test)
        pol = True
        if isinstance(e.test, ast.Compare) and len(e.test.ops) == 1 and isinstance(e.test.ops[0], ast.IsNot):
            t = norm(ast.Compare(left=e.test.left, ops=[ast.Is()], comparators=e.test.comparators))
            pol = False
        return _expand(e.body, conds + [(t, pol)]) + _expand(e.orelse, conds + [(t, not pol)])
    if isinstance(e, ast.BinOp) and isinstance(e.op, ast.Add):
        out = []
        for c1, l in _expand(e.left, conds):
            for c2, r in _expand(e.right, c1):
                if l is None or r is None:
                    out.append((c2, None))
                else:
                    out.append((c2, ast.BinOp(left=l, op=ast.Add(), right=r)))
        return out
    return [(conds, e)]


def _flat(e: ast.AST) -> List[str]:
    if isinstance(e, ast.BinOp) and isinstance(e.op, ast.Add):
        return _flat(e.left) + _flat(e.right)
    return [norm(e)]


def run(ch: Checker) -> None:
    prog = ch.prog
    ce = ConstEval(prog)
    ch.rule('C12.10', 'the default receive buffer sizes cover a whole TLS record (https upstreams are read with one recv() per readiness event; shared with C11.11)', 2)
    ch.rule('C12.1', 'port = URL port if given, else 80 for scheme http and 443 otherwise', 1)
    ch.rule('C12.2', 'initialize_upstream(text_(choice.hostname), port); upstream.wrap(text_(choice.hostname), ca_file=flags.ca_file) exactly under scheme == https', 2)
    ch.rule('C12.3', 'static route: the URL is random.choice(route[1]) of the route whose compiled route[0] matched text_(request.path); the route loop stops at the first match', 1)
    ch.rule('C12.4', 'request.path = choice.remainder before build(); build(host=...) is None unless flags.rewrite_host_header, else choice.hostname plus ":"+port exactly when the URL has an explicit port', 2)
    ch.rule('C12.5', 'handle_upstream_data queues its argument to the client exactly once, unchanged', 1)
    ch.rule('C12.8', 'routes are matched against the path the client sent: the rewrite `request.path = <upstream path>` does not happen inside (or before) the loops that match route patterns, '
                     'where a later plugin\'s patterns would be tried against the already rewritten path', 1)
    ch.rule('C12.6', 'HttpWebServerPlugin.on_request_complete: no route and no static server => NOT_FOUND + teardown; route plugins are only invoked for a matched route; '
                     'the web layer and ReverseProxy.handle_request match against the same string (the full request path)', 3)

    hr = prog.own_method('ReverseProxy', 'handle_request')
    m = hr.module
    g = cfg_of(hr, prog)
    req = hr.params[1]
    tbl: Dict[str, Any] = {}
    bad2 = bad3 = bad4 = None
    n2 = n3 = n4 = 0
    wraps_https = wraps_other = False
    for p in fpaths(g, limit=100000):
        ch.paths += 1
        sym = Sym(p)
        fd = allfacts(p)
        for i, n_, lab in p.executed():
            st = n_.ast
            if n_.kind != 'stmt' or lab == 'exc':
                continue
            for c in walk_no_nested(st):
                if not isinstance(c, ast.Call):
                    continue
                fn = attr_chain(c.func)
                # C12.2
                if fn == 'self.initialize_upstream':
                    n2 += 1
                    a = [norm(sym.value(x, i)) for x in c.args]
                    # C12.1: the port the connection is made to, by value (the local holding it may have any name)
                    if len(c.args) == 2:
                        http = fd.get('self.choice.scheme == HTTP_PROTO')
                        v = sym.value(c.args[1], i)
                        default = None
                        explicit = False
                        if isinstance(v, ast.BoolOp) and isinstance(v.op, ast.Or) and len(v.values) == 2:
                            explicit = norm(v.values[0]) == 'self.choice.port'
                            default = ce.try_eval(m, v.values[1])
                        elif isinstance(v, ast.IfExp) and norm(v.test) in ('self.choice.port', 'self.choice.port is not None') and norm(v.body) == 'self.choice.port':
                            explicit, default = True, ce.try_eval(m, v.orelse)
                        tbl['http' if http else 'other'] = (explicit, default)
                    if len(a) != 2 or a[0] != 'text_(self.choice.hostname)' or not (a[1].startswith('self.choice.port or ')):
                        bad2 = ('the upstream connection is created for (%s): not the chosen URL\'s host and (defaulted) port' % ', '.join(a)[:100], p.describe(16))
                if fn == 'self.upstream.wrap':
                    https = fd.get('self.choice.scheme == HTTPS_PROTO')
                    if https is True:
                        wraps_https = True
                    else:
                        wraps_other = True
                    hn = norm(sym.value(c.args[0], i)) if c.args else norm(sym.value([k.value for k in c.keywords if k.arg == 'hostname'][0], i)) if any(k.arg == 'hostname' for k in c.keywords) else 'missing'
                    ca = [norm(sym.value(k.value, i)) for k in c.keywords if k.arg == 'ca_file']
                    vm = [norm(k.value) for k in c.keywords if k.arg == 'verify_mode']
                    if hn != 'text_(self.choice.hostname)' or ca != ['self.flags.ca_file'] or (vm and not vm[0].endswith('CERT_REQUIRED')):
                        bad2 = ('TLS towards the upstream is set up with hostname=%s ca_file=%s verify_mode=%s' % (hn, ca, vm), p.describe(16))
                # C12.3
                if fn == 'Url.from_bytes' and c.args and 'random.choice' in norm(c.args[0]):
                    n3 += 1
                    a = norm(sym.value(c.args[0], i))
                    route_expr = a[len('random.choice('):-len('[1])')] if a.startswith('random.choice(') and a.endswith('[1])') else None
                    patt_ok = False
                    for sidx, (nid, lb) in enumerate(p.steps[:i]):
                        nd = g.nodes[nid]
                        if nd.kind == 'test' and lb is True and '.match(' in norm(nd.ast):  # type: ignore[arg-type]
                            t = norm(sym.value(nd.ast, sidx))  # type: ignore[arg-type]
                            if route_expr and t.startswith('re.compile(%s[0]).match(text_(' % route_expr) and t.endswith('.path))'):
                                patt_ok = True
                    if route_expr is None or not patt_ok:
                        bad3 = ('the upstream URL is taken from %s, which is not the URL list of the route whose pattern matched the request path' % a[:90], p.describe(16))
                # C12.4
                if isinstance(c.func, ast.Attribute) and c.func.attr == 'build' and norm(c.func.value) == req:
                    n4 += 1
                    # path replaced before
                    stores = [j for j, s2 in p.stmts() if j < i and isinstance(s2, ast.Assign) and norm(s2.targets[0]) == '%s.path' % req and norm(s2.value) == 'self.choice.remainder']
                    if not stores:
                        bad4 = ('the request is rebuilt without its path having been replaced by the upstream URL\'s path', p.describe(16))
                    hk = [k.value for k in c.keywords if k.arg == 'host']
                    hv = sym.value(hk[0], i) if hk else None
                    for conds, val in _expand(hv, []):
                        facts = dict(fd)
                        contradictory = False
                        for k, v in conds:
                            if k in facts and facts[k] != v:
                                contradictory = True
                            facts[k] = v
                        if contradictory:
                            continue
                        rw = facts.get('self.flags.rewrite_host_header')
                        pnone = facts.get('self.choice.port is None')
                        vt = None if val is None or norm(val) == 'None' else [x for x in _flat(val) if x != "b''"]
                        if rw is not True:
                            if vt is not None and rw is False:
                                bad4 = ('a Host override (%s) is passed although --rewrite-host-header is off' % vt, p.describe(16))
                            elif rw is None and vt is not None:
                                bad4 = ('a Host override (%s) is passed on a path that did not test flags.rewrite_host_header' % vt, p.describe(16))
                            continue
                        if vt is None:
                            bad4 = ('--rewrite-host-header is on but no Host override is passed to build()', p.describe(16))
                        elif pnone is True:
                            if vt != ['self.choice.hostname']:
                                bad4 = ('URL without explicit port: Host override is %s, expected the bare host name' % vt, p.describe(16))
                        elif pnone is False:
                            if vt != ['self.choice.hostname', 'COLON', 'bytes_(self.choice.port)']:
                                bad4 = ('URL with explicit port: Host override is %s, expected host ":" port' % vt, p.describe(16))
                        else:
                            bad4 = ('the port part of the rewritten Host header (%s) does not depend on whether the upstream URL names a port (conditions: %s): an explicit :80/:443, '
                                    'or a non-default scheme/port pairing, is dropped from the authority' % (vt, [k for k, v in conds] or [k for k in fd if 'port' in k]), p.describe(16))
    ch.check(tbl.get('http') == (True, 80) and tbl.get('other') == (True, 443), 'C12.1', hr, 'port table', 'explicit port, else 80 (http) / 443 (otherwise)',
             'port defaulting is %s (expected explicit port first, http -> 80, otherwise -> 443)' % tbl)
    ch.check(bad2 is None and n2 > 0, 'C12.2', hr, 'connect target', 'upstream created for the chosen URL\'s host and port', bad2[0] if bad2 else 'initialize_upstream not reached', witness=bad2[1] if bad2 else None)
    ch.check(bad2 is None and wraps_https and not wraps_other, 'C12.2', hr, 'TLS iff https', 'upstream wrapped exactly under scheme == https',
             bad2[0] if bad2 else 'TLS wrap does not follow the URL scheme (https paths wrapped: %s, other paths wrapped: %s)' % (wraps_https, wraps_other), witness=bad2[1] if bad2 else None)
    ch.check(bad3 is None and n3 > 0, 'C12.3', hr, 'URL of the matched route', 'URL chosen among the matched route\'s URLs', bad3[0] if bad3 else 'static route selection not found', witness=bad3[1] if bad3 else None)
    ch.check(bad4 is None and n4 > 0, 'C12.4', hr, 'rewrite rules', 'path and Host rewrite follow the documented rules on %d rebuild path(s)' % n4, bad4[0] if bad4 else 'build() not reached', witness=bad4[1] if bad4 else None)
    # first match wins: a break after a static match
    brk = False
    for l in walk_no_nested(hr.node):
        if isinstance(l, ast.For) and 'routes()' in norm(l.iter):
            for iff in walk_no_nested(l):
                if isinstance(iff, ast.If) and '.match(' in norm(iff.test) and any(isinstance(b, ast.Break) for b in iff.body):
                    brk = True
    ch.check(brk, 'C12.4', hr, 'first match wins', 'route loop stops at the first matching route', 'the route loop does not stop at the first match: a later route overrides the first matching one')

    # ---------------- C12.5
    _relay_param(ch, 'C12.5', prog.own_method('ReverseProxy', 'handle_upstream_data'), 'self.client.queue')

    # ---------------- C12.8 matching sees the client's path
    rq = hr.params[1]
    match_loops = [l for l in walk_no_nested(hr.node) if isinstance(l, (ast.For, ast.While)) and any(isinstance(c, ast.Call) and isinstance(c.func, ast.Attribute) and c.func.attr in ('match', 'fullmatch', 'search')
                                                                                                   for c in ast.walk(l))]
    stores = [st for st in walk_no_nested(hr.node) if isinstance(st, (ast.Assign, ast.AugAssign)) and any(isinstance(t, ast.Attribute) and t.attr == 'path' and norm(t.value) == rq
                                                                                                      for t in (st.targets if isinstance(st, ast.Assign) else [st.target]))]
    bad8 = None
    for st in stores:
        if any(any(x is st for x in ast.walk(l)) for l in match_loops):
            bad8 = 'the request path is rewritten (`%s`, line %d) inside the loop that matches route patterns: the routes of plugins that come later are tried against the rewritten upstream path, ' \
                   'so a request can be sent to the upstream of a route its own path never matched' % (norm(st)[:60], st.lineno)
        elif match_loops and st.lineno < min(l.lineno for l in match_loops):
            bad8 = 'the request path is rewritten (line %d) before the routes are matched' % st.lineno
    ch.check(bad8 is None and bool(match_loops), 'C12.8', hr, 'match the client path', 'request.path is rewritten only after route matching (%d store(s), %d matching loop(s))' % (len(stores), len(match_loops)),
             bad8 or 'no route matching loop found')

    # ---------------- C12.6
    orc = prog.own_method('HttpWebServerPlugin', 'on_request_complete')
    go = cfg_of(orc, prog, exc_edges=False)
    bad = None
    n = 0
    for p in fpaths(go):
        fd = allfacts(p)
        if p.exit_kind == 'return' and fd.get('self.route is None') is True and fd.get('self.flags.enable_static_server') is False:
            n += 1
            q = [norm(c.args[0]) for i, st in p.stmts() for c in walk_no_nested(st) if isinstance(c, ast.Call) and attr_chain(c.func) == 'self.client.queue' and c.args]
            last = p.stmts()[-1]
            if q != ['NOT_FOUND_RESPONSE_PKT'] or not (isinstance(last[1], ast.Return) and norm(last[1].value) == 'True'):
                bad = ('a request matching no route is not answered with exactly NOT_FOUND_RESPONSE_PKT followed by teardown (queued %s)' % q, p.describe())
    ch.check(bad is None and n > 0, 'C12.6', orc, 'no route => 404', '404 + teardown on %d path(s)' % n, bad[0] if bad else 'no no-route path', witness=bad[1] if bad else None)
    tr = prog.own_method('HttpWebServerPlugin', '_try_route')
    gt = cfg_of(tr, prog, exc_edges=False)
    bad = None
    n = 0
    web_arg = None
    for p in fpaths(gt):
        sym = Sym(p)
        for i, st in p.stmts():
            for c in walk_no_nested(st):
                if isinstance(c, ast.Call) and attr_chain(c.func) in ('self.route.handle_request', 'self.route.on_websocket_open'):
                    n += 1
                    ok = False
                    for sidx, (nid, lb) in enumerate(p.steps[:i]):
                        nd = gt.nodes[nid]
                        if nd.kind == 'test' and lb is True and '.match(' in norm(nd.ast):  # type: ignore[arg-type]
                            ok = True
                            call = [x for x in ast.walk(nd.ast) if isinstance(x, ast.Call) and isinstance(x.func, ast.Attribute) and x.func.attr == 'match'][0]  # type: ignore[arg-type]
                            web_arg = norm(sym.value(call.args[0], sidx))
                    if not ok:
                        bad = ('a route plugin is invoked without its pattern having matched the request path', p.describe())
    ch.check(bad is None and n > 0, 'C12.6', tr, 'plugin only for matched route', 'route plugins invoked only after route.match()', bad[0] if bad else 'no route invocation found', witness=bad[1] if bad else None)
    # same string on both sides
    rev_args = set()
    for c in walk_no_nested(hr.node):
        if isinstance(c, ast.Call) and isinstance(c.func, ast.Attribute) and c.func.attr == 'match' and c.args:
            rev_args.add(norm(c.args[0]))
    want_web = 'text_(%s)' % tr.params[1]
    want_rev = {'text_(%s.path)' % req}
    ch.check(web_arg == want_web and rev_args == want_rev, 'C12.6', tr, 'same match subject',
             'web layer matches %s, reverse proxy matches %s: the full request path on both sides' % (web_arg, sorted(rev_args)),
             'the web layer matches routes against %s but the reverse proxy against %s: a request admitted by the first can find no route in the second (no 404, no upstream, '
             'connection left hanging) or the other way round' % (web_arg, sorted(rev_args)))
    # ---------------- C12.10 receive buffers vs TLS records
    from .common import recvbuf_tls_check
    recvbuf_tls_check(ch, 'C12.10')

    # ---------------- C12.11/12 (shared)
    ch.rule('C12.14', 'the upstream URL a request is sent to is parsed for that request: Url objects are edited after parsing (dynamic routes append to .remainder, handlers rewrite paths), so neither Url.from_bytes nor anything it calls may be memoised (expected 0 sites)', 1)
    from .common import memoised_objects_check
    memoised_objects_check(ch, 'C12.14', ('Url', 'HttpParser', 'ChunkParser', 'WebsocketFrame'))
    ch.import_rules('C07', {'C07.1': 'C12.16'}, 'the upstream\'s response reaches the client whole only if teardown waits for the client buffer to drain')
    ch.import_rules('C11', {'C11.13': 'C12.15'}, 'an https upstream named by an IPv6 literal is reachable only if its certificate is matched against the bare address')
    ch.import_rules('C01', {'C01.2': 'C12.11', 'C01.3': 'C12.12'}, 'request body and upstream response cross the reverse proxy unmodified only if the connection buffer sends exactly what was queued')

    # ---------------- C12.9 (shared)
    ch.import_rules('C01', {'C01.10': 'C12.9'}, 'the upstream\'s response is relayed only if the upstream is read while the request is still being written to it')

    # ---------------- C12.7 (shared)
    ch.import_rules('C02', {'C02.2': 'C12.7'}, 'the request line the reverse-proxied origin reads is what HttpParser.build makes of the path the route chose')
    ch.import_rules('C02', {'C02.3': 'C12.13'}, 'the request reaches the reverse-proxied origin with its framing intact only if the rebuild does not add a Content-Length next to a Transfer-Encoding header')
    from .common import plugin_load_check
    ch.rule('C12.17', 'Plugins.load keeps every class the importer returns (in the order given) unless that very class object is already listed: membership of the class, never a comparison of class names -- otherwise a configured plugin and its routes silently vanish', 1)
    plugin_load_check(ch, 'C12.17')

