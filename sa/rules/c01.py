"""C01 -- relayed byte streams arrive exactly once, in order, unmodified.

Decided (buffer algebra + relay dataflow + injection ownership):
  C01.1 queue() appends its argument unchanged at the tail and counts it;
  C01.2 flush() sends the head or a prefix of the head and afterwards removes exactly what
        was sent: pop(0) iff `sent == len(head)`, else head := head[sent:]; nothing changes
        when send would block;
  C01.3 the element counter and the list agree on every path of every method that edits them;
  C01.4 nobody outside the connection classes edits a connection's buffer or counter;
  C01.5 each upstream->client relay queues exactly once what it received (through the
        handle_upstream_chunk chain only), unsliced;
  C01.6 each client->upstream relay queues exactly once the bytes it was given;
  C01.7 the only proxy-made bytes queued to the client inside the relay module are the tunnel
        acknowledgement `200 Connection established` under is_https_tunnel;
  C01.8 only flush() sends on a connection's socket.
Not decided: orderings across real interleavings, kernel send behaviour, TLS records,
liveness (that flushing eventually happens is C07/C20 territory)."""
import ast
from typing import Any, Dict, List, Optional, Tuple

from ..cfg import cfg_of
from ..consteval import ConstEval
from ..flow import Sym, fpaths, attr_effects, allfacts
from ..model import FuncInfo, attr_chain, norm, walk_no_nested
from ..report import Checker
from .forward import eval_response_constant
from .common import idle_predicate_check

CONN_FIELDS = ('work', 'client', 'upstream', 'conn', 'connection', 'server')


def _is_head(e: ast.AST) -> bool:
    return isinstance(e, ast.Subscript) and attr_chain(e.value) == 'self.buffer' and isinstance(e.slice, ast.Constant) and e.slice.value == 0


def _strip_mv(e: ast.AST) -> ast.AST:
    while isinstance(e, ast.Call) and attr_chain(e.func) == 'memoryview' and len(e.args) == 1:
        e = e.args[0]
    return e


def run(ch: Checker) -> None:
    prog = ch.prog
    ce = ConstEval(prog)
    ch.rule('C01.16', 'client-to-upstream bytes already accepted are delivered: when HttpProtocolHandler.handle_events signals teardown because reading from the client ended (reads_teared), the path '
                      'has established that nothing is queued for the upstream either -- not only that the client buffer is empty', 1)
    ch.rule('C01.15', 'the relay does not depend on the bookkeeping parse: in read_from_descriptors, once a response segment is handed to the response parser(s), self.client.queue(raw) is attempted '
                      'on every way on, also when parsing raises (a close-delimited body, a tunnel payload or anything else that is not a well-formed response must still reach the client)', 1)
    ch.rule('C01.1', 'TcpConnection.queue: the only effect on self.buffer is append(<parameter>) and _num_buffer is incremented by 1 on the same path', 1)
    ch.rule('C01.2', 'TcpConnection.flush: send() receives the head element or a prefix slice of it; after a completed send exactly one of pop(0) [under sent == len(head), '
                     'with _num_buffer -= 1] or buffer[0] = head[sent:] [otherwise] happens; the would-block path changes nothing and returns 0', 2)
    ch.rule('C01.3', 'on every path of every TcpConnection method the change of len(self.buffer) equals the change of _num_buffer; reset() clears both; has_buffer() tests the counter against 0', 4)
    ch.rule('C01.4', 'no store to / mutating call on `<x>.buffer` or `<x>._num_buffer` of a connection object outside the TcpConnection classes (expected 0 sites; built-in positive example)', 1)
    ch.rule('C01.5', 'upstream->client relays: on every normal path with data received, exactly one queue/hand-over call whose argument is the received value, passed only through the '
                     'handle_upstream_chunk chain (no slice, no concatenation)', 4)
    ch.rule('C01.6', 'client->upstream relays: on the opaque paths of HttpProxyPlugin.on_client_data the parameter is queued to the upstream exactly once unchanged; '
                     'HttpProtocolHandler.handle_data hands the parameter to plugin.on_client_data exactly once after the first request completed', 2)
    ch.rule('C01.7', 'client queue sites in proxy/http/proxy/server.py and core/base/tcp_tunnel.py are exactly {relay of received data, PROXY_TUNNEL_ESTABLISHED_RESPONSE_PKT under is_https_tunnel}; '
                     'that packet is `HTTP/1.1 200 Connection established`', 3)
    ch.rule('C01.9', 'the idle reaper never closes a connection that still holds undelivered relay data: is_inactive() requires an empty client buffer', 1)
    ch.rule('C01.10', 'HttpProxyPlugin.get_descriptors and TcpUpstreamConnectionHandler.get_descriptors: while the upstream connection is open it is registered for READING on every path, whether or not output is pending for it '
                      '(read interest that waits for the write side to drain dead-locks a full-duplex tunnel under back-pressure)', 2)
    ch.rule('C01.12', 'HttpProxyPlugin.read_from_descriptors: on a path where upstream data arrived and was handed on, the upstream is not released and the result is False -- '
                      'reading stops only at EOF (recv() is None), on a receive error, or when a plugin asks for it; never because a parser thinks the response is complete', 1)
    ch.rule('C01.8', 'socket send is called on a connection only by TcpConnection.send, itself only by TcpConnection.flush', 2)

    idle_predicate_check(ch, 'C01.9')
    tc = prog.class_named('TcpConnection')
    conn_classes = [tc] + prog.subclasses(tc)
    # the element counter is whatever has_buffer() compares with 0 (named _num_buffer in the tree the rules were written on)
    CNT = '_num_buffer'
    for s_ in walk_no_nested(prog.own_method('TcpConnection', 'has_buffer').node):
        if isinstance(s_, ast.Return) and isinstance(s_.value, ast.Compare) and isinstance(s_.value.left, ast.Attribute) and attr_chain(s_.value.left.value) == 'self' \
                and len(s_.value.comparators) == 1 and isinstance(s_.value.comparators[0], ast.Constant) and s_.value.comparators[0].value == 0:
            CNT = s_.value.left.attr
    CNT_CHAIN = 'self.' + CNT

    # ---------------- C01.1
    q = prog.own_method('TcpConnection', 'queue')
    param = q.params[1] if len(q.params) > 1 else None
    gq = cfg_of(q, prog, exc_edges=False)
    okq = True
    detail = ''
    npq = 0
    for p in fpaths(gq):
        ch.paths += 1
        if p.exit_kind != 'return':
            continue
        npq += 1
        sym = Sym(p)
        effs = [(i, chn, kind, node) for i, st in p.stmts() for chn, kind, node in attr_effects(st) if chn in ('self.buffer', CNT_CHAIN)]
        bufs = [(i, kind, node) for i, chn, kind, node in effs if chn == 'self.buffer']
        cnts = [(i, kind, node) for i, chn, kind, node in effs if chn == CNT_CHAIN]
        good_buf = False
        if len(bufs) == 1:
            i, kind, node = bufs[0]
            if kind == 'call:append' and len(node.args) == 1:  # type: ignore[attr-defined]
                v = sym.value(node.args[0], i)  # type: ignore[attr-defined]
                good_buf = isinstance(v, ast.Name) and v.id == param
                if not good_buf:
                    detail = 'queue() stores %s instead of its argument' % norm(v)[:60]
            elif kind in ('call:extend', 'augstore'):
                src = node.args[0] if kind == 'call:extend' else node.value  # type: ignore[attr-defined]
                v = sym.value(src, i)
                good_buf = isinstance(v, ast.List) and len(v.elts) == 1 and isinstance(v.elts[0], ast.Name) and v.elts[0].id == param
            else:
                detail = 'queue() edits the buffer with %s: data is not appended at the tail' % kind
        else:
            detail = 'queue() has %d effects on self.buffer on one path (conditional or repeated append)' % len(bufs)
        good_cnt = len(cnts) == 1 and cnts[0][1] == 'augstore' and isinstance(cnts[0][2].op, ast.Add) and norm(cnts[0][2].value) == '1'  # type: ignore[attr-defined]
        if not good_cnt and not detail:
            detail = 'queue() does not increment _num_buffer by exactly 1'
        okq = okq and good_buf and good_cnt
    ch.check(okq and npq > 0, 'C01.1', q, 'append(%s)' % param, 'tail append of the argument + counter increment on %d path(s)' % npq, detail or 'no normal path')

    # ---------------- C01.2
    fl = prog.own_method('TcpConnection', 'flush')
    gf = cfg_of(fl, prog)
    n_send = 0
    n_block = 0
    problems: List[Tuple[str, List[str]]] = []
    for p in fpaths(gf):
        ch.paths += 1
        sym = Sym(p)
        send_steps = [(i, n, lab) for i, n, lab in p.executed() if n.kind == 'stmt' and any(isinstance(c, ast.Call) and attr_chain(c.func) == 'self.send' for c in walk_no_nested(n.ast))]  # type: ignore[arg-type]
        if not send_steps:
            # path without send: must not touch the buffer
            effs = [1 for i, st in p.stmts() for chn, kind, node in attr_effects(st) if chn in ('self.buffer', CNT_CHAIN)]
            if effs:
                problems.append(('flush() edits the buffer on a path that sends nothing', p.describe(20)))
            continue
        if len(send_steps) > 1:
            problems.append(('flush() sends more than once per call on one path', p.describe(20)))
            continue
        si, snode, slab = send_steps[0]
        call = [c for c in walk_no_nested(snode.ast) if isinstance(c, ast.Call) and attr_chain(c.func) == 'self.send'][0]  # type: ignore[arg-type]
        arg = sym.value(call.args[0], si) if call.args else None
        effs_after = [(i, chn, kind, node) for i, st in p.stmts() for chn, kind, node in attr_effects(st) if chn in ('self.buffer', CNT_CHAIN) and i > si]
        effs_before = [(i, chn, kind, node) for i, st in p.stmts() for chn, kind, node in attr_effects(st) if chn in ('self.buffer', CNT_CHAIN) and i < si]
        if effs_before:
            problems.append(('flush() edits the buffer before sending', p.describe(20)))
        if slab == 'exc':
            n_block += 1
            rets = [st for i, st in p.stmts() if isinstance(st, ast.Return)]
            if effs_after:
                problems.append(('the would-block / error path of flush() edits the buffer although nothing was sent: queued data is lost or duplicated', p.describe(20)))
            elif p.exit_kind == 'return' and not (rets and norm(rets[-1].value) == '0'):
                problems.append(('the would-block path of flush() does not report 0 bytes sent', p.describe(20)))
            continue
        if p.exit_kind != 'return':
            continue
        n_send += 1
        # (a) argument = head or prefix of head
        a = _strip_mv(arg) if arg is not None else None
        head_ok = False
        if a is not None:
            if _is_head(a):
                head_ok = True
            elif isinstance(a, ast.Subscript) and isinstance(a.slice, ast.Slice) and _is_head(_strip_mv(a.value)) and a.slice.step is None \
                    and (a.slice.lower is None or (isinstance(a.slice.lower, ast.Constant) and a.slice.lower.value == 0)):
                head_ok = True
        if not head_ok:
            problems.append(('send() is given %s, which is not the head element of the buffer or a prefix slice of it: the removal algebra below (pop(0) / head[sent:]) no longer '
                             'matches what was sent' % (norm(arg)[:90] if arg is not None else '?'), p.describe(20)))
            continue
        # (b) removal
        sent_txt = norm(sym.value(call, si))
        full = None   # fact `sent == len(head)`
        for sidx, (nid, lab) in enumerate(p.steps):
            nd = gf.nodes[nid]
            if sidx > si and nd.kind == 'test' and lab in (True, False):
                e = sym.value(nd.ast, sidx)  # type: ignore[arg-type]
                if isinstance(e, ast.Compare) and len(e.ops) == 1 and isinstance(e.ops[0], (ast.Eq, ast.NotEq)):
                    sides = [e.left, e.comparators[0]]
                    has_sent = any(isinstance(s, ast.Call) and attr_chain(s.func) == 'self.send' for s in sides)
                    has_len = any(isinstance(s, ast.Call) and attr_chain(s.func) == 'len' and s.args and _is_head(_strip_mv(s.args[0])) for s in sides)
                    if has_sent and has_len:
                        full = lab if isinstance(e.ops[0], ast.Eq) else (not lab)
                    elif has_sent:
                        problems.append(('the "everything was sent" test compares the sent count with %s instead of len(<whole head element>)'
                                         % norm([s for s in sides if not (isinstance(s, ast.Call) and attr_chain(s.func) == 'self.send')][0])[:60], p.describe(20)))
        pops = [(i, kind, node) for i, chn, kind, node in effs_after if chn == 'self.buffer' and kind in ('call:pop', 'delitem')]
        tails = [(i, kind, node) for i, chn, kind, node in effs_after if chn == 'self.buffer' and kind == 'item']
        others = [(i, kind, node) for i, chn, kind, node in effs_after if chn == 'self.buffer' and kind not in ('call:pop', 'delitem', 'item')]
        cnts = [(i, kind, node) for i, chn, kind, node in effs_after if chn == CNT_CHAIN]
        if others:
            problems.append(('flush() edits the buffer with %s after sending' % others[0][1], p.describe(20)))
            continue
        if full is None:
            problems.append(('no test `sent == len(head)` decides between removing the head and keeping its tail', p.describe(20)))
            continue
        if full:
            okp = len(pops) == 1 and not tails
            if okp:
                i, kind, node = pops[0]
                if kind == 'call:pop':
                    okp = len(node.args) == 1 and isinstance(node.args[0], ast.Constant) and node.args[0].value == 0  # type: ignore[attr-defined]
                else:
                    t = node.targets[0]  # type: ignore[attr-defined]
                    okp = isinstance(t, ast.Subscript) and isinstance(t.slice, ast.Constant) and t.slice.value == 0
            okc = len(cnts) == 1 and cnts[0][1] == 'augstore' and isinstance(cnts[0][2].op, ast.Sub) and norm(cnts[0][2].value) == '1'  # type: ignore[attr-defined]
            if not okp:
                problems.append(('after a complete send the head element is not removed exactly once with pop(0) / del buffer[0] (pops: %s, tail stores: %d)'
                                 % ([norm(x[2])[:40] for x in pops], len(tails)), p.describe(20)))
            elif not okc:
                problems.append(('after a complete send _num_buffer is not decremented by exactly 1', p.describe(20)))
        else:
            okt = len(tails) == 1 and not pops and not cnts
            if okt:
                i, kind, node = tails[0]
                tgt = node.targets[0]  # type: ignore[attr-defined]
                v = _strip_mv(sym.value(node.value, i))  # type: ignore[attr-defined]
                okt = isinstance(tgt, ast.Subscript) and isinstance(tgt.slice, ast.Constant) and tgt.slice.value == 0 \
                    and isinstance(v, ast.Subscript) and isinstance(v.slice, ast.Slice) and _is_head(_strip_mv(v.value)) \
                    and v.slice.upper is None and v.slice.step is None and v.slice.lower is not None and norm(v.slice.lower) == sent_txt
                if not okt:
                    problems.append(('after a partial send the head is replaced by %s, not by head[sent:]' % norm(v)[:80], p.describe(20)))
            else:
                problems.append(('after a partial send the unsent tail is not kept as buffer[0] = head[sent:] exactly once (tail stores %d, pops %d, counter updates %d)'
                                 % (len(tails), len(pops), len(cnts)), p.describe(20)))
    if problems:
        seen = set()
        for msg, wit in problems:
            if msg in seen:
                continue
            seen.add(msg)
            ch.bad('C01.2', fl, msg[:70], msg, witness=wit)
    ch.check(not problems and n_send >= 2, 'C01.2', fl, 'send/remove algebra', 'head-or-prefix sent; pop(0) iff all sent else head[sent:] on %d send path(s)' % n_send,
             'flush() algebra violated (see above)' if problems else 'fewer than two send paths found')
    ch.check(n_block >= 1 and not any('would-block' in m for m, _ in problems), 'C01.2', fl, 'would-block path', 'BlockingIOError path leaves the buffer untouched and returns 0 (%d path(s))' % n_block,
             'no would-block path found' if n_block == 0 else 'would-block path edits the buffer')

    # ---------------- C01.3
    for c in conn_classes:
        for fn in c.methods.values():
            effs_any = [1 for chn, kind, node in attr_effects(fn.node) if chn in ('self.buffer', CNT_CHAIN)]
            if not effs_any or fn.name in ('__init__',):
                continue
            g = cfg_of(fn, prog)
            bad3 = None
            npaths = 0
            for p in fpaths(g):
                if p.exit_kind != 'return':
                    continue
                npaths += 1
                dl = dc = 0
                reset_l = reset_c = False
                for i, st in p.stmts():
                    for chn, kind, node in attr_effects(st):
                        if chn == 'self.buffer':
                            if kind in ('call:append',):
                                dl += 1
                            elif kind in ('call:pop', 'delitem'):
                                if kind == 'delitem' and isinstance(node.targets[0].slice, ast.Slice):  # type: ignore[attr-defined]
                                    dl += -99
                                else:
                                    dl -= 1
                            elif kind == 'store':
                                reset_l = norm(node.value) in ('[]', 'list()')  # type: ignore[attr-defined]
                                if not reset_l:
                                    dl += 99
                            elif kind == 'item':
                                pass
                            else:
                                dl += 99
                        elif chn == CNT_CHAIN:
                            if kind == 'augstore' and norm(node.value) == '1':  # type: ignore[attr-defined]
                                dc += 1 if isinstance(node.op, ast.Add) else -1  # type: ignore[attr-defined]
                            elif kind == 'store':
                                reset_c = norm(node.value) == '0'  # type: ignore[attr-defined]
                                if not reset_c:
                                    dc += 99
                            else:
                                dc += 99
                if reset_l != reset_c or dl != dc:
                    bad3 = ('on a path of %s the buffer length changes by %s but _num_buffer by %s: has_buffer() and the list disagree afterwards'
                            % (fn.qualname, 'reset' if reset_l else dl, 'reset' if reset_c else dc), p.describe(20))
            ch.check(bad3 is None and npaths > 0, 'C01.3', fn, 'counter/list agreement', 'list and counter move together on %d path(s)' % npaths, bad3[0] if bad3 else 'no path', witness=bad3[1] if bad3 else None)
    hb = prog.own_method('TcpConnection', 'has_buffer')
    rets = [norm(s.value) for s in walk_no_nested(hb.node) if isinstance(s, ast.Return) and s.value is not None]
    ch.check(rets in (['%s != 0' % CNT_CHAIN], ['%s > 0' % CNT_CHAIN], ['len(self.buffer) > 0'], ['len(self.buffer) != 0'], ['bool(self.buffer)']), 'C01.3', hb, 'has_buffer',
             'has_buffer() is `%s`' % (rets[0] if rets else ''), 'has_buffer() returns %s: pending output is no longer what it reports' % rets)

    # ---------------- C01.4
    def foreign_edits(funcs: Any) -> List[Tuple[FuncInfo, ast.AST, str]]:
        out = []
        for fn in funcs:
            if fn.cls is not None and fn.cls in conn_classes:
                continue
            for chn, kind, node in attr_effects(fn.node):
                parts = chn.split('.')
                if parts[-1] in ('buffer', CNT) and len(parts) >= 2 and parts[-2] in CONN_FIELDS:
                    out.append((fn, node, '%s %s' % (kind, chn)))
        return out
    # positive example: must be flagged on every run
    ex_src = "class X:\n def f(self):\n  self.work.buffer.pop(0)\n"
    ex_tree = ast.parse(ex_src)

    class _F:
        cls = None
        node = ex_tree.body[0].body[0]
    assert foreign_edits([_F]), 'C01.4 positive example not flagged'
    found = foreign_edits(list(prog.all_functions('proxy')))
    if found:
        for fn, node, what in found:
            ch.bad('C01.4', fn, node, 'code outside the connection classes edits a connection buffer (%s): queued bytes can be dropped, duplicated or reordered behind flush()\'s back' % what)
    else:
        ch.ok('C01.4', None, 'who may write .buffer', 'no foreign edit of a connection buffer in proxy/** (positive example flagged)', module_rel='proxy/core/connection/connection.py')

    # ---------------- C01.5 upstream -> client relays
    _relay(ch, prog.own_method('HttpProxyPlugin', 'read_from_descriptors'), 'self.upstream.recv', 'self.client.queue', chain_hook='handle_upstream_chunk')
    _relay(ch, prog.own_method('TcpUpstreamConnectionHandler', 'read_from_descriptors'), 'self.upstream.recv', 'self.handle_upstream_data')
    _relay(ch, prog.own_method('BaseTcpTunnelHandler', 'handle_events'), 'self.upstream.recv', 'self.work.queue')
    hud = prog.own_method('ReverseProxy', 'handle_upstream_data')
    _relay_param(ch, 'C01.5', hud, 'self.client.queue')

    # ---------------- C01.6 client -> upstream
    ocd = prog.own_method('HttpProxyPlugin', 'on_client_data')
    g = cfg_of(ocd, prog, exc_edges=False)
    rawp = ocd.params[1]
    bad6 = None
    n6 = 0
    for p in fpaths(g):
        ch.paths += 1
        if p.exit_kind != 'return':
            continue
        f = allfacts(p)
        if f.get('self.upstream') is not True or f.get('self.upstream.closed') is not False:
            continue
        parsed = any(any(isinstance(c, ast.Call) and attr_chain(c.func) == 'self.pipeline_request.parse' for c in walk_no_nested(st)) for i, st in p.stmts())
        if parsed:
            continue
        n6 += 1
        sym = Sym(p)
        qs = [(i, c) for i, st in p.stmts() for c in walk_no_nested(st) if isinstance(c, ast.Call) and attr_chain(c.func) == 'self.upstream.queue']
        if len(qs) != 1:
            bad6 = ('on an opaque (tunnel / upgraded) path the client bytes are queued to the upstream %d times instead of once' % len(qs), p.describe(20))
        else:
            v = sym.value(qs[0][1].args[0], qs[0][0]) if qs[0][1].args else None
            if not (isinstance(v, ast.Name) and v.id == rawp):
                bad6 = ('on an opaque path the upstream receives %s instead of the client bytes unchanged' % (norm(v)[:60] if v is not None else '?'), p.describe(20))
    ch.check(bad6 is None and n6 >= 2, 'C01.6', ocd, 'opaque relay', 'client bytes queued to upstream exactly once, unchanged, on %d opaque path(s)' % n6,
             bad6[0] if bad6 else 'fewer than two opaque paths found', witness=bad6[1] if bad6 else None)
    hd = prog.own_method('HttpProtocolHandler', 'handle_data')
    gh = cfg_of(hd, prog, exc_edges=False)
    dpar = hd.params[1]
    bad6 = None
    n6 = 0
    for p in fpaths(gh):
        if p.exit_kind != 'return':
            continue
        f = allfacts(p)
        if f.get('self.request.state == httpParserStates.COMPLETE') is True and f.get('self.plugin') is True:
            n6 += 1
            sym = Sym(p)
            calls = [(i, c) for i, st in p.stmts() for c in walk_no_nested(st) if isinstance(c, ast.Call) and attr_chain(c.func) == 'self.plugin.on_client_data']
            if len(calls) != 1 or not calls[0][1].args or norm(sym.value(calls[0][1].args[0], calls[0][0])) != dpar:
                bad6 = ('after the first request, client data is not handed to plugin.on_client_data exactly once unchanged', p.describe(20))
    ch.check(bad6 is None and n6 >= 1, 'C01.6', hd, 'hand-over to the protocol plugin', 'data handed to plugin.on_client_data exactly once on %d path(s)' % n6,
             bad6[0] if bad6 else 'no path after request completion found', witness=bad6[1] if bad6 else None)

    # ---------------- C01.7 injection ownership
    allowed = 0
    for mod, cls in (('proxy.http.proxy.server', 'HttpProxyPlugin'), ('proxy.core.base.tcp_tunnel', 'BaseTcpTunnelHandler')):
        ci = prog.class_named(cls)
        for fn in ci.methods.values():
            for c in walk_no_nested(fn.node):
                if isinstance(c, ast.Call) and attr_chain(c.func) in ('self.client.queue', 'self.work.queue'):
                    g2 = cfg_of(fn, prog)      # with exception edges: a site inside an except handler is a queue site too
                    verdict = None
                    for p in fpaths(g2, limit=200000):
                        sym = Sym(p)
                        for i, st in p.stmts():
                            if any(x is c for x in walk_no_nested(st)):
                                v = sym.value(c.args[0], i) if c.args else None
                                t = norm(v) if v is not None else ''
                                if 'self.upstream.recv(' in t and '[' not in t.split('self.upstream.recv(')[0]:
                                    verdict = verdict or 'relay'
                                elif t == 'PROXY_TUNNEL_ESTABLISHED_RESPONSE_PKT':
                                    if allfacts(p, i).get('self.request.is_https_tunnel') is True:
                                        verdict = verdict or 'ack'
                                    else:
                                        verdict = 'BAD: tunnel acknowledgement queued outside `is_https_tunnel`'
                                else:
                                    verdict = 'BAD: proxy-made bytes %s queued to the client inside an established exchange' % t[:60]
                    if verdict is None:
                        t0 = norm(c.args[0]) if c.args else ''
                        ch.bad('C01.7', fn, c, 'a client queue site (%s) that no enumerated path reaches as a relay of received data: proxy-made bytes may be queued into an established exchange' % t0[:60])
                    elif verdict.startswith('BAD'):
                        ch.bad('C01.7', fn, c, verdict[5:])
                    else:
                        allowed += 1
                        ch.ok('C01.7', fn, c, 'client queue site is the %s' % ('relay of received data' if verdict == 'relay' else 'tunnel acknowledgement under is_https_tunnel'))
    info = eval_response_constant(prog, ce, 'PROXY_TUNNEL_ESTABLISHED_RESPONSE_PKT')
    ok7 = info is not None and info['status'] == 200 and info['reason'] == b'Connection established' and not info['body'] and info['no_cl'] is True
    ch.check(bool(ok7), 'C01.7', None, 'PROXY_TUNNEL_ESTABLISHED_RESPONSE_PKT', '200 Connection established, no body, no Content-Length',
             'the tunnel acknowledgement is not a bare `200 Connection established` (%s): extra bytes would be injected ahead of tunnel data' % (info,), module_rel='proxy/http/responses.py')

    # ---------------- C01.15 relay even if parsing raises
    from .common import must_attempt
    rfd = prog.own_method('HttpProxyPlugin', 'read_from_descriptors')
    g15 = cfg_of(rfd, prog, unguarded_exc=True)
    PARSERS = ('parse', 'handle_pipeline_response', 'emit_response_events')

    def _parses(a: ast.AST) -> bool:
        return any(isinstance(c, ast.Call) and isinstance(c.func, ast.Attribute) and c.func.attr in PARSERS for c in walk_no_nested(a))
    n15, cex15 = must_attempt(g15, lambda a: any(isinstance(c, ast.Call) and attr_chain(c.func) == 'self.client.queue' for c in walk_no_nested(a)),
                              lambda p: any(nd.ast is not None and nd.kind == 'stmt' and _parses(nd.ast) for i, nd, lab in p.executed()),
                              exc_source=_parses)
    ch.check(cex15 is None and n15 > 0, 'C01.15', rfd, 'relay even if parsing raises', 'client.queue(raw) attempted on all %d path(s) that parse a response segment' % n15,
             'a response segment is handed to the response parser and, when that raises, never queued for the client (%s): the close-delimited body of a response whose header block arrived '
             'in a segment of its own is parsed as a new response, raises IndexError and is lost together with the connection' % (cex15[0] if cex15 else 'no parsing path'),
             witness=cex15[1] if cex15 else None)

    # ---------------- C01.16 teardown after client EOF vs. bytes still queued for the upstream
    he16 = prog.own_method('HttpProtocolHandler', 'handle_events')
    g16 = cfg_of(he16, prog, exc_edges=False)
    n16 = 0
    bad16 = None
    for p in fpaths(g16):
        ch.paths += 1
        if p.exit_kind != 'return' or p.coarse:
            continue
        last_i, last = p.stmts()[-1]
        if not (isinstance(last, ast.Return) and last.value is not None and norm(Sym(p).value(last.value, last_i)) == 'True'):
            continue
        fd = allfacts(p, last_i)
        if fd.get('self.reads_teared') is not True:
            continue
        n16 += 1
        upstream_checked = any(('upstream' in k and 'has_buffer' in k and v is False) or ('has_pending' in k and v is False) or ('upstream' in k and 'buffer' in k and v is False) for k, v in fd.items())
        if not upstream_checked:
            bad16 = ('handle_events signals teardown once reading from the client has ended and the CLIENT buffer is empty, without regard to what is still queued for the upstream: a tunnel client '
                     'that sends its data and half-closes (or closes) while the upstream is reading more slowly loses the unsent tail -- the upstream socket is closed with its buffer full', p.describe(20))
    ch.check(bad16 is None and n16 > 0, 'C01.16', he16, 'teardown after client EOF waits for the upstream buffer', 'teardown after client EOF only with nothing queued for the upstream (%d path(s))' % n16,
             bad16[0] if bad16 else 'no teardown path after client EOF found', witness=bad16[1] if bad16 else None)

    # ---------------- C01.12 keep reading while data arrives
    rfd = prog.own_method('HttpProxyPlugin', 'read_from_descriptors')
    g12 = cfg_of(rfd, prog, exc_edges=False)
    bad12 = None
    n12 = 0
    for p in fpaths(g12):
        ch.paths += 1
        if p.exit_kind != 'return':
            continue
        sym = Sym(p)
        recvs = [i for i, st in p.stmts() if any(isinstance(c, ast.Call) and _cname(sym, c, i) == 'self.upstream.recv' for c in walk_no_nested(st))]
        if not recvs:
            continue
        queued = [i for i, st in p.stmts() if i > recvs[0] and any(isinstance(c, ast.Call) and _cname(sym, c, i) == 'self.client.queue' for c in walk_no_nested(st))]
        if not queued:
            continue        # nothing received / dropped by a plugin
        n12 += 1
        rel = [i for i, st in p.stmts() if i > recvs[0] and any(isinstance(c, ast.Call) and _cname(sym, c, i) == 'self._close_and_release' for c in walk_no_nested(st))]
        last = p.stmts()[-1]
        rv = norm(sym.value(last[1].value, last[0])) if isinstance(last[1], ast.Return) and last[1].value is not None else 'None'
        if rel or rv not in ('False',):
            bad12 = ('after upstream data was received and queued for the client the upstream is released / teardown is signalled (returns %s): whatever the upstream sends next -- the final '
                     'response after an interim 1xx, a close-delimited body that follows its header block in a later segment -- is never read' % rv, p.describe(24))
    ch.check(bad12 is None and n12 > 0, 'C01.12', rfd, 'keep reading while data arrives', 'no release / teardown on the %d path(s) that relay data' % n12,
             bad12[0] if bad12 else 'no relaying path found', witness=bad12[1] if bad12 else None)

    # ---------------- C01.10 read interest in the upstream is unconditional
    upstream_read_interest_check(ch, 'C01.10')

    # ---------------- C01.8 who may send
    offenders = []
    for fn in prog.all_functions('proxy'):
        if fn.module.name.startswith(('proxy.plugin', 'proxy.testing', 'proxy.http.websocket.client', 'proxy.http.client', 'proxy.core.event', 'proxy.core.work.delegate', 'proxy.core.acceptor', 'proxy.core.ssh', 'proxy.core.tls', 'proxy.socks', 'proxy.dashboard')):
            continue
        for c in walk_no_nested(fn.node):
            if isinstance(c, ast.Call) and isinstance(c.func, ast.Attribute) and c.func.attr in ('send', 'sendall'):
                where = fn.qualname
                recv = norm(c.func.value)
                if where == 'TcpConnection.send' and recv == 'self.connection':
                    continue
                if where == 'TcpConnection.flush' and recv == 'self':
                    continue
                offenders.append((fn, c))
    for fn, c in offenders:
        ch.bad('C01.8', fn, c, 'bytes are written to a socket behind the buffer (%s): they overtake or interleave with queued data' % norm(c)[:60])
    snd = prog.own_method('TcpConnection', 'send')
    ch.check(not offenders, 'C01.8', snd, 'who may send', 'only TcpConnection.send (<- flush) writes to a connection socket', 'direct socket writes found')
    body_calls = [norm(c) for c in walk_no_nested(snd.node) if isinstance(c, ast.Call)]
    ch.check(body_calls == ['self.connection.send(data)'], 'C01.8', snd, 'send body', 'send() passes its argument to the socket unchanged', 'TcpConnection.send is no longer a plain pass-through: %s' % body_calls)
    # ---------------- C01.14 (shared)
    ch.rule('C01.17', 'one readiness event pays for one non-blocking read: in the connection class and the event handlers a receive on a connection is not repeated on a path and not placed in a loop (relayed bytes are neither lost nor delayed by a read that no readiness event covers)', 4)
    from .common import single_recv_check
    single_recv_check(ch, 'C01.17')
    ch.import_rules('C11', {'C11.11': 'C01.19'}, 'bytes a client sends over a TLS client connection all reach the other side only if one receive takes a whole TLS record: what a shorter receive leaves decrypted inside the SSL object is not announced by the selector again')
    ch.import_rules('C05', {'C05.8': 'C01.18'}, 'a relay keeps working for the next exchange of the worker only if no socket is closed while its number is still registered')
    ch.import_rules('C05', {'C05.7': 'C01.14'}, 'the relay parses what it relays: a chunk size accepted without the range check (or rejected for a reason other than being out of range) ends the exchange mid-stream')

    # ---------------- C01.11 (shared)
    ch.import_rules('C07', {'C07.1': 'C01.11'}, 'relayed bytes still queued for the client are lost if the handler signals teardown with a non-empty buffer')


def _cname(sym: Sym, c: ast.Call, i: int) -> Optional[str]:
    """dotted name of the callee with local aliases of the receiver inlined (`upstream = self.upstream; upstream.recv()`)"""
    return attr_chain(sym.value(c.func, i))


def _relay(ch: Checker, fn: FuncInfo, src_call: str, sink_call: str, chain_hook: Optional[str] = None) -> None:
    prog = ch.prog
    g = cfg_of(fn, prog, exc_edges=False)
    bad = None
    n = 0
    for p in fpaths(g):
        ch.paths += 1
        if p.exit_kind != 'return':
            continue
        sym = Sym(p)
        recvs = [(i, st) for i, st in p.stmts() if any(isinstance(c, ast.Call) and _cname(sym, c, i) == src_call for c in walk_no_nested(st))]
        if not recvs:
            continue
        ri = recvs[0][0]
        # data present: every `<x> is None` test after the receive whose inlined operand derives from the receive is False
        none_hit = False
        for sidx, (nid, lab) in enumerate(p.steps):
            nd = g.nodes[nid]
            if sidx > ri and nd.kind == 'test' and lab is True:
                e = sym.value(nd.ast, sidx)  # type: ignore[arg-type]
                if isinstance(e, ast.Compare) and isinstance(e.ops[0], ast.Is) and norm(e.comparators[0]) == 'None' and src_call + '(' in norm(e.left):
                    none_hit = True
        if none_hit:
            # nothing received / a plugin dropped the chunk: nothing may be queued
            sinks = [c for i, st in p.stmts() for c in walk_no_nested(st) if isinstance(c, ast.Call) and _cname(sym, c, i) == sink_call and i > ri]
            if sinks:
                bad = ('data is handed on although nothing was received / a plugin dropped it', p.describe(22))
            continue
        n += 1
        sinks = [(i, c) for i, st in p.stmts() for c in walk_no_nested(st) if isinstance(c, ast.Call) and _cname(sym, c, i) == sink_call and i > ri]
        if len(sinks) != 1:
            bad = ('received data is handed to %s %d time(s) on a path where data arrived (exactly once expected): bytes are %s'
                   % (sink_call, len(sinks), 'lost' if not sinks else 'duplicated'), p.describe(22))
            continue
        i, c = sinks[0]
        v = sym.value(c.args[0], i) if c.args else None
        okv = v is not None and _is_chain_of(v, src_call, chain_hook)
        if not okv:
            bad = ('%s receives %s, not the received bytes as they came (only the %s chain may stand in between)'
                   % (sink_call, norm(v)[:80] if v is not None else '?', chain_hook or 'identity'), p.describe(22))
    ch.check(bad is None and n > 0, 'C01.5', fn, '%s -> %s' % (src_call, sink_call), 'received data handed on exactly once, unmodified, on %d path(s)' % n,
             bad[0] if bad else 'no relay path found', witness=bad[1] if bad else None)


def _is_chain_of(v: ast.AST, src_call: str, hook: Optional[str]) -> bool:
    if isinstance(v, ast.Call) and attr_chain(v.func) == src_call:
        return True
    if hook and isinstance(v, ast.Call) and isinstance(v.func, ast.Attribute) and v.func.attr == hook and len(v.args) == 1:
        return _is_chain_of(v.args[0], src_call, hook)
    return False


def _relay_param(ch: Checker, rule: str, fn: FuncInfo, sink_call: str) -> None:
    prog = ch.prog
    g = cfg_of(fn, prog, exc_edges=False)
    param = fn.params[1]
    bad = None
    n = 0
    for p in fpaths(g):
        if p.exit_kind != 'return':
            continue
        n += 1
        sym = Sym(p)
        sinks = [(i, c) for i, st in p.stmts() for c in walk_no_nested(st) if isinstance(c, ast.Call) and _cname(sym, c, i) == sink_call]
        if len(sinks) != 1 or not sinks[0][1].args or norm(sym.value(sinks[0][1].args[0], sinks[0][0])) != param:
            bad = ('%s does not hand its argument to %s exactly once unchanged' % (fn.qualname, sink_call), p.describe())
    ch.check(bad is None and n > 0, rule, fn, '%s -> %s' % (param, sink_call), 'argument handed on exactly once, unchanged', bad[0] if bad else 'no path', witness=bad[1] if bad else None)


def upstream_read_interest_check(ch: Checker, rule: str) -> None:
    prog = ch.prog
    for cls_name in ('HttpProxyPlugin', 'TcpUpstreamConnectionHandler'):
        _read_interest_in(ch, rule, prog.own_method(cls_name, 'get_descriptors'))


def _read_interest_in(ch: Checker, rule: str, gd: FuncInfo) -> None:
    prog = ch.prog
    g = cfg_of(gd, prog, exc_edges=False)
    OPEN = {'self.upstream': True, 'self.upstream.closed': False, 'self.upstream.connection': True}
    FD = 'self.upstream.connection.fileno()'
    n = 0
    bad = None
    for p in fpaths(g):
        ch.paths += 1
        if p.exit_kind != 'return':
            continue
        last = p.stmts()[-1][1]
        li = p.stmts()[-1][0]
        if not (isinstance(last, ast.Return) and isinstance(last.value, ast.Tuple) and len(last.value.elts) == 2):
            ch.skip(rule, gd, 'return', 'get_descriptors does not return a pair; read interest not decided')
            return
        fd = allfacts(p)
        if any(fd.get(k) is not None and fd.get(k) != v for k, v in OPEN.items()):
            continue      # the upstream is absent / closed on this path
        if not any(k in fd for k in OPEN):
            continue
        n += 1
        sym = Sym(p)
        first = last.value.elts[0]
        reg = False
        # (a) the pair is written out in the return statement
        if FD in norm(sym.value(first, li)):
            reg = True
        # (b) a local list filled on the way
        if isinstance(first, ast.Name):
            rname = first.id
            for i, st in p.stmts():
                for c in walk_no_nested(st):
                    if isinstance(c, ast.Call) and isinstance(c.func, ast.Attribute) and c.func.attr in ('append', 'add') and isinstance(c.func.value, ast.Name) and c.func.value.id == rname and c.args \
                            and norm(sym.value(c.args[0], i)) == FD:
                        reg = True
        if not reg:
            bad = ('on a path where the upstream connection is open (%s) its descriptor is not registered for reading: while output is pending for the upstream nothing the '
                   'upstream sends is read, and a peer that itself waits for its output to be read before reading more (echo / back-pressure in a tunnel, an early error response to a large '
                   'upload) never makes progress' % ', '.join('%s=%s' % (k, fd[k]) for k in sorted(fd) if 'upstream' in k), p.describe(20))
    ch.check(bad is None and n > 0, rule, gd, 'read interest in the upstream', 'registered for reading on all %d path(s) with an open upstream' % n,
             bad[0] if bad else 'no path with an open upstream found', witness=bad[1] if bad else None)
