"""C19 -- the proxy listens where configured, reports its ports truthfully, shuts down cleanly.

Decided:
  C19.1 writer/reader agreement on listener order: ListenerPool.setup is evaluated
        symbolically (for both settings of the unix-socket option) to the sequence of
        listeners it creates; Proxy.setup's index for the primary port and its index range
        for the additional ports must denote exactly those listeners;
  C19.2 the port file is written after both write-backs, primary port first;
  C19.3 every subsystem set up in Proxy.setup is shut down in Proxy.shutdown, in the order
        acceptors < executors < event manager < listeners < file removal; every pool shuts
        down each member it started and does not resize a list while iterating it;
  C19.4 listeners are created for the product of all configured addresses and ports.
Not decided: that bind/listen succeed, that children exit, file-system state."""
import ast
from typing import Any, Dict, List, Optional, Tuple

from ..cfg import cfg_of
from ..consteval import ConstEval
from ..flow import Sym, fpaths, attr_effects, allfacts
from ..model import FuncInfo, attr_chain, norm, walk_no_nested, AnalysisError
from ..report import Checker
from .common import iteration_mutations


class _NotUnderstood(Exception):
    pass


def _unix_test(e: ast.AST) -> Optional[bool]:
    """polarity with which e tests flags.unix_socket_path (True: `if unix`, False: `if not unix`)"""
    if isinstance(e, ast.UnaryOp) and isinstance(e.op, ast.Not):
        r = _unix_test(e.operand)
        return None if r is None else not r
    if attr_chain(e) == 'self.flags.unix_socket_path':
        return True
    return None


def _eval_list(e: ast.AST, env: Dict[str, List[str]]) -> List[str]:
    """abstract list: items are 'E:<text>' single elements or 'S:<text>' (all elements of <text>, in order)"""
    if isinstance(e, ast.Name) and e.id in env:
        return list(env[e.id])
    if isinstance(e, ast.Call) and attr_chain(e.func) in ('list', 'tuple') and len(e.args) == 1:
        inner = e.args[0]
        if isinstance(inner, ast.Name) and inner.id in env:
            return list(env[inner.id])
        return ['S:' + norm(inner)]
    if isinstance(e, (ast.List, ast.Tuple)):
        out: List[str] = []
        for x in e.elts:
            if isinstance(x, ast.Starred):
                out.extend(_eval_list(x.value, env) if isinstance(x.value, ast.Name) and x.value.id in env else ['S:' + norm(x.value)])
            else:
                out.append('E:' + norm(x))
        return out
    if isinstance(e, ast.BinOp) and isinstance(e.op, ast.Add):
        return _eval_list(e.left, env) + _eval_list(e.right, env)
    if isinstance(e, ast.Attribute):
        return ['S:' + norm(e)]
    raise _NotUnderstood('list expression %s' % norm(e))


def _writer_sequence(setup: FuncInfo, unix: bool) -> Tuple[List[str], str]:
    """-> (sequence of created listeners for the FIRST address, description of the address set).
    Items: 'UNIX', 'E:<port expr>', 'S:<ports expr>'."""
    env: Dict[str, List[str]] = {}
    hosts: Dict[str, str] = {}
    seq: List[str] = []
    hostdesc = ''

    def run_body(body: List[ast.stmt]) -> None:
        nonlocal hostdesc
        for s in body:
            if isinstance(s, ast.If):
                pol = _unix_test(s.test)
                if pol is None:
                    raise _NotUnderstood('branch on %s' % norm(s.test))
                run_body(s.body if pol == unix else s.orelse)
            elif isinstance(s, ast.Assign) and len(s.targets) == 1 and isinstance(s.targets[0], ast.Name):
                name = s.targets[0].id
                v = s.value
                if isinstance(v, (ast.Set,)) or (isinstance(v, ast.Call) and attr_chain(v.func) in ('set', 'sorted')):
                    hosts[name] = norm(v)
                else:
                    try:
                        env[name] = _eval_list(v, env)
                    except _NotUnderstood:
                        hosts[name] = norm(v)
            elif isinstance(s, ast.Expr) and isinstance(s.value, ast.Call):
                c = s.value
                fn = attr_chain(c.func)
                if isinstance(c.func, ast.Attribute) and isinstance(c.func.value, ast.Name) and c.func.value.id in env:
                    lst = env[c.func.value.id]
                    if c.func.attr == 'append' and len(c.args) == 1:
                        lst.append('E:' + norm(c.args[0]))
                    elif c.func.attr == 'insert' and len(c.args) == 2 and isinstance(c.args[0], ast.Constant) and c.args[0].value == 0:
                        lst.insert(0, 'E:' + norm(c.args[1]))
                    elif c.func.attr == 'extend' and len(c.args) == 1:
                        lst.extend(_eval_list(c.args[0], env))
                    else:
                        raise _NotUnderstood('list operation %s' % norm(c))
                elif fn == 'self.add':
                    if c.args and norm(c.args[0]).startswith('Unix'):
                        seq.append('UNIX')
                    else:
                        raise _NotUnderstood('add outside a loop: %s' % norm(c))
                else:
                    pass
            elif isinstance(s, (ast.For,)):
                run_loop(s)
            elif isinstance(s, (ast.Pass, ast.AnnAssign)):
                if isinstance(s, ast.AnnAssign) and isinstance(s.target, ast.Name) and s.value is not None:
                    try:
                        env[s.target.id] = _eval_list(s.value, env)
                    except _NotUnderstood:
                        hosts[s.target.id] = norm(s.value)
            else:
                raise _NotUnderstood('statement %s' % norm(s)[:60])

    def loop_dims(s: ast.For) -> List[Tuple[str, ast.AST]]:
        """[(target name, iterable)] outermost first, for product(...) or nested for loops"""
        it = s.iter
        if isinstance(it, ast.Call) and attr_chain(it.func) in ('itertools.product', 'product') and isinstance(s.target, ast.Tuple) \
                and len(s.target.elts) == len(it.args):
            return [(norm(t), a) for t, a in zip(s.target.elts, it.args)]
        dims = [(norm(s.target), it)]
        if len(s.body) == 1 and isinstance(s.body[0], ast.For):
            dims += loop_dims(s.body[0])
        return dims

    def innermost_body(s: ast.For) -> List[ast.stmt]:
        if len(s.body) == 1 and isinstance(s.body[0], ast.For):
            return innermost_body(s.body[0])
        return s.body

    def run_loop(s: ast.For) -> None:
        nonlocal hostdesc
        dims = loop_dims(s)
        body = innermost_body(s)
        adds = [n for st in body for n in walk_no_nested(st) if isinstance(n, ast.Call) and attr_chain(n.func) == 'self.add']
        if not adds:
            return
        if len(adds) != 1:
            raise _NotUnderstood('several add() calls in one loop')
        add = adds[0]
        kw = {k.arg: norm(k.value) for k in add.keywords}
        port_var, host_var = kw.get('port'), kw.get('hostname')
        names = [d[0] for d in dims]
        if port_var not in names or host_var not in names:
            raise _NotUnderstood('add() arguments %s do not come from the loop variables %s' % (kw, names))
        pi, hi = names.index(port_var), names.index(host_var)
        port_it, host_it = dims[pi][1], dims[hi][1]
        try:
            plist = _eval_list(port_it, env)
        except _NotUnderstood:
            raise
        hostdesc = hosts.get(norm(host_it), norm(host_it))
        if hi < pi:
            # address-major: for the first address every port, in order
            seq.extend(plist)
        else:
            # port-major: for each port every address -> for the first address only the FIRST port is adjacent;
            # encode as interleaved marker so that the reader comparison fails unless there is one address
            for item in plist:
                seq.append(item)
                seq.append('OTHER-ADDRESSES')

    run_body(setup.node.body)  # type: ignore[attr-defined]
    return seq, hostdesc


def run(ch: Checker) -> None:
    prog = ch.prog
    ce = ConstEval(prog)
    ch.rule('C19.9', 'a stop flag that is set in the parent and read in a child process is a multiprocessing.Event: `self.running` of the acceptor and of the threadless executors (a threading.Event is a private copy after the fork)', 2)
    ch.rule('C19.8', 'nobody waits without having asked: every unbounded join() of a thread or process is in a function that first asks it to stop (Event.set(), queue.put(False), terminate()); a join on something that only ends when a client acts makes shutdown hang before listeners and files are released', 5)
    ch.rule('C19.6', 'hand-over of accepted connections: delegate_work_to_pool sends the client address exactly under the condition under which RemoteFdExecutor.receive_from_work_queue '
                     'reads one (both decide on unix_socket_path): otherwise the two ends of the pipe disagree about what the next message is and the worker dies on the first connection', 1)
    ch.rule('C19.7', 'who may shut the listeners down: <x>.listeners.shutdown() is called from Proxy.shutdown only (closing the parent\'s copies earlier also unlinks the Unix socket path)', 1)
    ch.rule('C19.1', 'writer/reader agreement: with listeners created as evaluated from ListenerPool.setup (both unix-socket settings), Proxy.setup reads the primary '
                     'port from the listener created for flags.port and the additional ports from exactly the listeners created for flags.ports', 2)
    ch.rule('C19.10', 'the port file (and the pid file) names this run only: it is opened in a truncating write mode -- open(path, "w..."), or os.open with O_TRUNC among its flags', 1)
    ch.rule('C19.2', 'the port file is written after flags.port / flags.ports were overwritten with the bound ports, primary first then the additional ports', 2)
    ch.rule('C19.3', 'every subsystem set up in Proxy.setup is shut down in Proxy.shutdown in the order acceptors, executors, event manager, listeners, port/pid file removal', 5)
    ch.rule('C19.3b', 'pool shutdown reaches every member: ListenerPool.shutdown calls shutdown() on every listener of the pool and empties it; no list is resized while iterated', 3)
    ch.rule('C19.5', 'FlagParser.initialize: args.ports is every --ports value in the order given, converted with int(): no set / dict.fromkeys / sorted / filter between the '
                     'command line and the listener pool (0 may be given several times: each asks for one more OS-assigned port)', 1)
    ch.rule('C19.4', 'listeners are created for every (address, port) pair: addresses = {hostname} U hostnames, ports = flags.ports plus flags.port (unless a unix socket is configured)', 1)

    lp_setup = prog.own_method('ListenerPool', 'setup')
    p_setup = prog.own_method('Proxy', 'setup')
    pm = p_setup.module

    # ---------------- reader side
    reader: Dict[bool, Dict[str, Any]] = {}
    g = cfg_of(p_setup, prog)
    for unix in (False, True):
        info: Dict[str, Any] = {'primary_index': None, 'range': None}
        for p in fpaths(g, limit=50000):
            ch.paths += 1
            if p.exit_kind != 'return':
                continue
            facts = allfacts(p)
            if facts.get('self.flags.unix_socket_path', None) not in (unix, None):
                continue
            sym = Sym(p)
            for idx, st in p.stmts():
                if isinstance(st, ast.Assign) and len(st.targets) == 1 and attr_chain(st.targets[0]) == 'self.flags.port':
                    v = sym.value(st.value, idx)
                    for n in ast.walk(v):
                        if isinstance(n, ast.Subscript) and attr_chain(n.value) == 'self.listeners.pool':
                            info['primary_index'] = ce.try_eval(pm, n.slice, default=norm(n.slice))
            # the loop that reads the additional ports: for index in range(a, b): ... pool[index]
            for nid, lab in p.steps:
                n = g.nodes[nid]
                if n.kind == 'for' and lab == 'iter':
                    loop = n.ast
                    # subscripts of the listener pool evaluated on this path inside the loop body (locals and inlined helpers' parameters read through)
                    reads = []
                    in_body = {id(x) for s_ in loop.body for x in ast.walk(s_)}  # type: ignore[union-attr]
                    for j, st2 in p.stmts():
                        if id(st2) not in in_body:
                            continue
                        for x in walk_no_nested(st2):
                            if isinstance(x, ast.Subscript) and isinstance(x.ctx, ast.Load):
                                xv = sym.value(x, j)
                                if isinstance(xv, ast.Subscript) and attr_chain(xv.value) == 'self.listeners.pool':
                                    reads.append(ast.Subscript(value=xv.value, slice=sym.value(x.slice, j) if False else x.slice, ctx=ast.Load()))
                                    # the index, read through local copies, must be the loop variable
                                    idx_v = x.slice
                                    for _ in range(4):
                                        if isinstance(idx_v, ast.Name) and norm(idx_v) != norm(loop.target):   # type: ignore[union-attr]
                                            d_ = sym.last_def(idx_v.id, j)
                                            if d_ is None:
                                                break
                                            idx_v = d_[1]
                                    reads[-1] = ast.Subscript(value=xv.value, slice=idx_v, ctx=ast.Load())
                    if reads and isinstance(loop.iter, ast.Call) and attr_chain(loop.iter.func) == 'range':  # type: ignore[union-attr]
                        sidx = [i for i, (a, b) in enumerate(p.steps) if a == nid][0]
                        args = [sym.value(a, sidx) for a in loop.iter.args]  # type: ignore[union-attr]
                        env = {'__unix__': unix}
                        lo = _eval_with_unix(args[0], unix, ce, pm) if len(args) >= 2 else 0
                        hi = args[1] if len(args) >= 2 else args[0]
                        info['range'] = (lo, norm(hi), norm(reads[0].slice) == norm(loop.target))  # type: ignore[union-attr]
            break_ = True
        reader[unix] = info

    # ---------------- writer side + comparison
    for unix in (False, True):
        label = 'unix socket configured' if unix else 'TCP only'
        try:
            seq, hostdesc = _writer_sequence(lp_setup, unix)
        except _NotUnderstood as e:
            ch.skip('C19.1', lp_setup, 'listener order (%s)' % label, 'ListenerPool.setup has a form the list evaluator does not understand (%s)' % e)
            continue
        info = reader[unix]
        problems = []
        # expected reader facts derived from the writer's sequence
        if not unix:
            want_primary = [i for i, x in enumerate(seq) if x == 'E:self.flags.port']
            if len(want_primary) != 1:
                problems.append('the writer creates %d listener(s) for flags.port per address (sequence %s)' % (len(want_primary), seq))
            elif info['primary_index'] != want_primary[0]:
                problems.append('flags.port is read back from pool[%s] but the listener for flags.port is created at position %d of %s'
                                % (info['primary_index'], want_primary[0], seq))
        else:
            if info['primary_index'] is not None and reader[False]['primary_index'] == info['primary_index'] and False:
                pass
        splat = [i for i, x in enumerate(seq) if x == 'S:self.flags.ports']
        if len(splat) != 1:
            problems.append('the writer does not create the listeners for flags.ports as one contiguous run per address (sequence %s)' % seq)
        else:
            rng = info['range']
            if rng is None:
                problems.append('the reader has no index range over listeners.pool for the additional ports')
            else:
                lo, hi, uses_var = rng
                # position of the run = number of single elements before it (each 'E:'/'UNIX' occupies one slot)
                before = seq[:splat[0]]
                if any(x.startswith('S:') or x == 'OTHER-ADDRESSES' for x in before):
                    problems.append('listeners of unknown count precede the additional ports (sequence %s)' % seq)
                elif lo != len(before):
                    problems.append('additional ports are read from pool[%s:...] but their listeners start at position %d (sequence %s)' % (lo, len(before), seq))
                after = seq[splat[0] + 1:]
                if 'OTHER-ADDRESSES' in seq:
                    problems.append('listeners are created port-major (for each port every address): the entries that follow the first port in the pool belong to other addresses, '
                                    'not to the additional ports, whenever more than one address is configured')
                want_hi = '%s + len(self.flags.ports)' % lo
                if hi.replace(' ', '') not in (want_hi.replace(' ', ''), ('len(self.flags.ports)+%s' % lo).replace(' ', '')) and not (lo == 0 and hi == 'len(self.flags.ports)'):
                    problems.append('the index range ends at %s, expected %s' % (hi, want_hi))
                if not uses_var:
                    problems.append('the loop over the index range does not index the pool with its own variable')
        ch.check(not problems, 'C19.1', p_setup, 'listener order vs reported ports (%s)' % label,
                 'reader indices denote the listeners created for flags.port / flags.ports (writer sequence per address: %s)' % seq,
                 '; '.join(problems))

    # ---------------- C19.4
    try:
        seq, hostdesc = _writer_sequence(lp_setup, False)
        okh = 'self.flags.hostname' in hostdesc and 'self.flags.hostnames' in hostdesc
        okp = 'E:self.flags.port' in seq and 'S:self.flags.ports' in seq
        sequ, _ = _writer_sequence(lp_setup, True)
        oku = sequ and sequ[0] == 'UNIX' and 'S:self.flags.ports' in sequ
        ch.check(bool(okh and okp and oku), 'C19.4', lp_setup, 'endpoints', 'addresses %s x ports %s (+ unix listener first when configured)' % (hostdesc, seq),
                 'not every configured endpoint gets a listener: addresses %s, ports %s, with unix socket %s' % (hostdesc, seq, sequ))
    except _NotUnderstood as e:
        ch.skip('C19.4', lp_setup, 'endpoints', 'setup form not understood (%s)' % e)

    # ---------------- C19.2 port file
    wpf = prog.own_method('Proxy', '_write_port_file')
    n_ok = 0
    bad2 = None
    for p in fpaths(g, limit=50000):
        if p.exit_kind != 'return':
            continue
        stores = {}
        call_idx = None
        for idx, st in p.stmts():
            for chn, kind, node in attr_effects(st):
                if chn in ('self.flags.port', 'self.flags.ports') and kind == 'store':
                    stores[chn] = idx
            for c in walk_no_nested(st):
                if isinstance(c, ast.Call) and attr_chain(c.func) == 'self._write_port_file':
                    call_idx = idx
        if call_idx is None:
            bad2 = ('setup path that never writes the port file', p.describe())
            continue
        unix_fact = allfacts(p).get('self.flags.unix_socket_path')
        need = ['self.flags.ports'] + ([] if unix_fact else ['self.flags.port'])
        for nd in need:
            if nd not in stores or stores[nd] > call_idx:
                bad2 = ('%s is written back after (or never before) the port file is written' % nd, p.describe())
        n_ok += 1
    ch.check(bad2 is None, 'C19.2', p_setup, 'self._write_port_file()', 'port file written after both write-backs on %d path(s)' % n_ok,
             bad2[0] if bad2 else '', witness=bad2[1] if bad2 else None)
    # order inside _write_port_file: flags.port written before the loop over flags.ports
    gw = cfg_of(wpf, prog)
    order_ok = True
    detail = ''
    seen_any = False
    for p in fpaths(gw):
        if p.exit_kind != 'return':
            continue
        events = []
        for idx, n, lab in p.executed():
            if n.kind == 'stmt':
                for c in walk_no_nested(n.ast):  # type: ignore[arg-type]
                    if isinstance(c, ast.Call) and isinstance(c.func, ast.Attribute) and c.func.attr == 'write' and c.args:
                        t = norm(c.args[0])
                        if 'self.flags.port)' in t or t.endswith('self.flags.port'):
                            events.append('primary')
                        elif 'port' in t and 'flags' not in t:
                            events.append('additional')
        if 'primary' in events and 'additional' in events:
            seen_any = True
            if events.index('primary') > events.index('additional'):
                order_ok = False
                detail = 'an additional port is written before the primary port'
        unix_fact = allfacts(p).get('self.flags.unix_socket_path')
        if allfacts(p).get('self.flags.port_file') and unix_fact is False and 'primary' not in events:
            order_ok = False
            detail = 'the primary port is not written on a TCP configuration'
    ch.check(order_ok and seen_any, 'C19.2', wpf, 'order', 'primary port first, then every additional port', detail or 'no path writes both primary and additional ports')

    # ---------------- C19.10 the port file holds nothing but this run's ports: it is opened truncating
    n10 = 0
    bad10 = None
    for fn10 in (wpf, prog.own_method('Proxy', '_write_pid_file')):
        for p in fpaths(cfg_of(fn10, prog, exc_edges=False)):
            sym10 = Sym(p)
            for idx, n, lab in p.executed():
                if n.kind not in ('stmt', 'with') or n.ast is None:
                    continue
                exprs10 = [it.context_expr for it in n.ast.items] if isinstance(n.ast, ast.With) else [n.ast]
                for e10 in exprs10:
                    for c in walk_no_nested(e10):
                        if not isinstance(c, ast.Call):
                            continue
                        fnm = attr_chain(c.func) or ''
                        if fnm in ('open', 'io.open', 'os.fdopen', 'os.open'):
                            n10 += 1
                        if fnm in ('open', 'io.open'):
                            mode = c.args[1] if len(c.args) > 1 else next((k.value for k in c.keywords if k.arg == 'mode'), None)
                            mv = ce.try_eval(fn10.module, mode) if mode is not None else 'r'
                            if not (isinstance(mv, str) and 'w' in mv):
                                bad10 = ('%s opens its file with mode %r: anything but a truncating "w" mode leaves what an earlier run wrote (a longer list of ports, a longer pid) behind the new content' % (fn10.qualname, mv), p.describe(8))
                        elif fnm == 'os.open':
                            fl = c.args[1] if len(c.args) > 1 else next((k.value for k in c.keywords if k.arg == 'flags'), None)
                            names = {x.attr for x in ast.walk(sym10.value(fl, idx)) if isinstance(x, ast.Attribute)} if fl is not None else set()
                            names = {x for x in names if isinstance(x, str)}
                            if 'O_TRUNC' not in names:
                                bad10 = ('%s opens its file with os.open(%s): without O_TRUNC the new ports are written over the start of what an earlier run left there and the rest of the old content stays -- '
                                         'the port file then names ports nothing listens on' % (fn10.qualname, norm(fl)[:80] if fl is not None else ''), p.describe(8))
    ch.check(bad10 is None and n10 >= 2, 'C19.10', wpf, 'port / pid file opened truncating', 'the files are opened in a truncating write mode (%d open call(s))' % n10, bad10[0] if bad10 else 'no open() found in _write_port_file / _write_pid_file',
             witness=bad10[1] if bad10 else None)

    # ---------------- C19.3 setup/shutdown pairing and order
    p_shutdown = prog.own_method('Proxy', 'shutdown')
    started = []
    for st in walk_no_nested(p_setup.node):
        if isinstance(st, ast.Call) and isinstance(st.func, ast.Attribute) and st.func.attr == 'setup':
            r = attr_chain(st.func.value)
            if r and r.startswith('self.'):
                started.append(r)
    # ssh tunnel is set up through _setup_tunnel
    for st in walk_no_nested(p_setup.node):
        if isinstance(st, ast.Assign) and attr_chain(st.targets[0]) == 'self.ssh_tunnel_listener':
            started.append('self.ssh_tunnel_listener')
    stops = []
    for st in walk_no_nested(p_shutdown.node):
        if isinstance(st, ast.Call) and isinstance(st.func, ast.Attribute) and st.func.attr == 'shutdown':
            r = attr_chain(st.func.value)
            if r:
                stops.append((st.lineno, st.col_offset, r))
        if isinstance(st, ast.Call) and attr_chain(st.func) in ('self._delete_port_file', 'self._delete_pid_file'):
            stops.append((st.lineno, st.col_offset, attr_chain(st.func)))
    stops.sort()
    stop_names = [s[2] for s in stops]
    for s in started:
        ch.check(s in stop_names, 'C19.3', p_shutdown, 'stop of %s' % s, '%s.setup() in Proxy.setup has its shutdown() in Proxy.shutdown' % s,
                 '%s is set up in Proxy.setup but never shut down in Proxy.shutdown' % s)
    want_order = ['self.acceptors', 'self.executors', 'self.event_manager', 'self.listeners', 'self._delete_port_file', 'self._delete_pid_file']
    present = [x for x in want_order if x in stop_names]
    idxs = [stop_names.index(x) for x in present]
    ch.check(idxs == sorted(idxs) and len(present) >= 5, 'C19.3', p_shutdown, 'shutdown order',
             'shutdown order: %s' % ' < '.join(present),
             'shutdown order is %s; expected acceptors < executors < event manager < listeners < file removal (all present)' % stop_names)
    # each stop executes on every path where its subsystem was started: guard equivalence for the conditional ones
    gs = cfg_of(p_shutdown, prog)
    for sub, guard in (('self.executors', 'self.remote_executors_enabled'), ('self.event_manager', 'self.flags.enable_events')):
        okg = True
        for p in fpaths(gs):
            if p.exit_kind != 'return':
                continue
            called = any(isinstance(c, ast.Call) and isinstance(c.func, ast.Attribute) and c.func.attr == 'shutdown' and attr_chain(c.func.value) == sub
                         for i, st in p.stmts() for c in walk_no_nested(st))
            f = allfacts(p).get(guard)
            if f is True and not called:
                okg = False
        ch.check(okg, 'C19.3', p_shutdown, 'guard of %s' % sub, '%s.shutdown() runs whenever %s holds' % (sub, guard),
                 '%s is not shut down on a path where %s holds (it was started under that condition)' % (sub, guard))

    # ---------------- C19.3b pools
    lpool = prog.class_named('ListenerPool')
    lsd = prog.own_method('ListenerPool', 'shutdown')
    funcs = list(lpool.methods.values())
    n_it = 0
    for f, lp, node, reason in iteration_mutations(prog, funcs, lpool, 'self.pool'):
        n_it += 1
        if reason:
            ch.bad('C19.3b', f, node, 'a list resized while it is iterated skips members (every second listener is left bound and listening): ' + reason,
                   line=getattr(node, 'lineno', None))
        else:
            ch.ok('C19.3b', f, 'for %s in %s' % (norm(lp.target), norm(lp.iter)), 'body does not resize self.pool', line=lp.lineno)
    # shutdown() called on the loop variable for every element and pool emptied afterwards
    okl = False
    emptied = False
    for lp in walk_no_nested(lsd.node):
        if isinstance(lp, ast.For) and attr_chain(lp.iter) == 'self.pool':
            for c in walk_no_nested(lp):
                if isinstance(c, ast.Call) and isinstance(c.func, ast.Attribute) and c.func.attr == 'shutdown' and norm(c.func.value) == norm(lp.target):
                    # unconditional within the loop body?
                    okl = any(isinstance(s, ast.Expr) and s.value is c for s in lp.body)
    for chn, kind, node in attr_effects(lsd.node):
        if chn == 'self.pool' and kind in ('call:clear', 'store'):
            emptied = True
    ch.check(okl, 'C19.3b', lsd, 'listener.shutdown()', 'every listener of the pool is shut down unconditionally', 'ListenerPool.shutdown does not call shutdown() on every listener of the pool unconditionally')
    ch.check(emptied, 'C19.3b', lsd, 'pool emptied', 'pool emptied after shutting the listeners', 'ListenerPool.shutdown leaves the listeners in the pool')
    # acceptor / executor pools: every started child is told to stop and joined
    asd = prog.own_method('AcceptorPool', 'shutdown')
    sets = joins = False
    for lp in walk_no_nested(asd.node):
        if isinstance(lp, ast.For) and attr_chain(lp.iter) == 'self.acceptors':
            t = norm(lp.target)
            for c in walk_no_nested(lp):
                if isinstance(c, ast.Call) and norm(c.func) == '%s.running.set' % t:
                    sets = True
                if isinstance(c, ast.Call) and norm(c.func) == '%s.join' % t:
                    joins = True
    ch.check(sets and joins, 'C19.3b', asd, 'acceptors stop+join', 'every acceptor is signalled and joined',
             'AcceptorPool.shutdown does not signal and join every acceptor it started (signal %s, join %s)' % (sets, joins))
    wsd = prog.own_method('ThreadlessPool', '_shutdown_workers')
    txt = [norm(c.func) for c in walk_no_nested(wsd.node) if isinstance(c, ast.Call)]
    sig = any(t.endswith('.running.set') for t in txt)
    jn = any(t.endswith('.join') for t in txt)
    rng = [norm(l.iter) for l in walk_no_nested(wsd.node) if isinstance(l, ast.For)]
    ch.check(sig and jn and all('self.flags.num_workers' in r for r in rng) and len(rng) >= 2, 'C19.3b', wsd, 'workers stop+join',
             'every worker is signalled and joined (loops over num_workers)',
             'ThreadlessPool._shutdown_workers does not signal and join all num_workers workers (calls %s, loops %s)' % (txt, rng))
    # ---------------- C19.9 the stop signal reaches the process it is meant for
    n9 = 0
    proc_classes = []
    for ci9 in prog.classes.values():
        if not ci9.module.name.startswith('proxy.') or ci9.module.name.startswith(('proxy.testing', 'proxy.plugin')):
            continue
        init9 = ci9.methods.get('__init__')
        if init9 is None:
            continue
        for st9 in walk_no_nested(init9.node):
            if isinstance(st9, (ast.Assign, ast.AnnAssign)) and st9.value is not None:
                tg9 = st9.targets[0] if isinstance(st9, ast.Assign) else st9.target
                if attr_chain(tg9) == 'self.running' and isinstance(st9.value, ast.Call):
                    # does an instance of this class (or of a subclass) run in another process?  Its run() is the target of a
                    # multiprocessing.Process, or the class itself derives from multiprocessing.Process
                    names9 = {ci9.name} | {s_.name for s_ in prog.subclasses(ci9)}
                    is_proc = any('multiprocessing.Process' in prog.external_bases(x) or 'Process' in prog.external_bases(x) for x in [ci9] + prog.subclasses(ci9))
                    target_of_proc = False
                    for fn9 in prog.all_functions('proxy', include_inlined=True):
                        for c9 in walk_no_nested(fn9.node):
                            if isinstance(c9, ast.Call) and (attr_chain(c9.func) or '').endswith('Process') and any(k9.arg == 'target' for k9 in c9.keywords):
                                target_of_proc = target_of_proc or True
                    in_child = is_proc or (target_of_proc and any(nm in ('Threadless',) or 'Executor' in nm for nm in names9))
                    if not in_child:
                        continue
                    n9 += 1
                    ctor = attr_chain(st9.value.func) or ''
                    ch.check(ctor in ('multiprocessing.Event',), 'C19.9', init9, st9,
                             'the stop flag of a class that runs in a child process is a multiprocessing.Event',
                             '%s.running is created with %s(): instances of this class run in a child process while shutdown sets the flag in the parent, and only a multiprocessing.Event is shared across '
                             'that boundary -- the child never sees the request to stop, the join that follows never returns, and listeners, pid file and port file are never released' % (ci9.name, ctor))
    if n9 == 0:
        raise AnalysisError('anchor vanished: no `self.running = <Event>()` in a class that runs in a child process')
    # ---------------- C19.8 nobody waits without having asked
    n8 = 0
    for fn in prog.all_functions('proxy'):          # private helpers are judged as part of their callers (they are inlined there)
        if fn.module.name.startswith(('proxy.testing', 'proxy.plugin')):
            continue
        joins8 = [c_ for c_ in walk_no_nested(fn.node) if isinstance(c_, ast.Call) and isinstance(c_.func, ast.Attribute) and c_.func.attr == 'join' and not c_.args and not c_.keywords
                  and not isinstance(c_.func.value, ast.Constant)]
        if not joins8:
            continue
        stops = [norm(c_.func)[:50] for c_ in walk_no_nested(fn.node) if isinstance(c_, ast.Call) and isinstance(c_.func, ast.Attribute) and (
            (c_.func.attr == 'set' and not c_.args) or
            (c_.func.attr == 'put' and len(c_.args) == 1 and isinstance(c_.args[0], ast.Constant) and c_.args[0].value in (False, None)) or
            c_.func.attr in ('terminate', 'kill', 'cancel', 'stop'))]
        for c_ in joins8:
            n8 += 1
            ch.check(bool(stops), 'C19.8', fn, c_, 'the thread / process waited for was asked to stop in the same function (%s)' % ', '.join(stops[:2]),
                     '%s waits for %s to end without a time limit and without having asked it to stop (no Event.set() / queue.put(False) / terminate() in this function): if that thread or process '
                     'only ends when a client does something -- e.g. a per-connection handler thread with a connection still open -- shutdown never completes, and the listeners, pid file and port file '
                     'that are released after this point stay behind' % (fn.qualname, norm(c_.func.value)[:40]))
    if n8 == 0:
        raise AnalysisError('anchor vanished: no thread / process join found in proxy/**')
    # ---------------- C19.6 sender / receiver agreement on the address message
    dw = prog.function('proxy.core.work.delegate', 'delegate_work_to_pool')
    rx = prog.own_method('RemoteFdExecutor', 'receive_from_work_queue')

    def _guard_of(fn: FuncInfo, pred: Any) -> Optional[Dict[str, bool]]:
        gg = cfg_of(fn, prog, exc_edges=False)
        seen = None
        locals_ = {x.id for x in ast.walk(fn.node) if isinstance(x, ast.Name) and isinstance(x.ctx, ast.Store)} - set(fn.params)
        for p in fpaths(gg):
            sym6 = Sym(p)
            for i, st in p.stmts():
                if any(pred(c, sym6, i) for c in walk_no_nested(st)):
                    # in terms of the inputs: a local flag that names a condition is that condition (allfacts carries both), constants decide nothing
                    fd = {k.replace('self.flags.', ''): v for k, v in allfacts(p, i).items() if k not in ('True', 'False') and k not in locals_}
                    seen = fd if seen is None else {k: v for k, v in seen.items() if fd.get(k) == v}
        return seen
    # by value: the thing sent is the address parameter, through however many locals / helper parameters it went
    g_tx = _guard_of(dw, lambda c, sy, i: isinstance(c, ast.Call) and isinstance(c.func, ast.Attribute) and c.func.attr == 'send' and c.args and norm(sy.value(c.args[0], i)) == 'addr' if 'addr' in dw.params else False)
    g_rx = _guard_of(rx, lambda c, sy, i: isinstance(c, ast.Call) and attr_chain(c.func) == 'self.work_queue.recv')
    ok6 = g_tx is not None and g_rx is not None and g_tx == g_rx and 'unix_socket_path' in g_tx
    ch.check(bool(ok6), 'C19.6', dw, 'address message: sender = receiver', 'address sent and read under the same condition %s' % g_tx,
             'the acceptor sends the client address under %s but the remote executor reads one under %s: with a Unix socket AND TCP ports configured the first TCP connection leaves an unread '
             'message in the pipe, recv_handle() fails and the worker\'s loop ends -- no endpoint is served any more' % (g_tx, g_rx))

    # ---------------- C19.7 who may shut the listeners down
    callers7 = []
    for fn in prog.all_functions('proxy'):
        for c in walk_no_nested(fn.node):
            if isinstance(c, ast.Call) and (attr_chain(c.func) or '').endswith('listeners.shutdown'):
                callers7.append(fn.qualname)
    ch.check(callers7 == ['Proxy.shutdown'], 'C19.7', prog.own_method('Proxy', 'shutdown'), 'who may call listeners.shutdown()', 'only Proxy.shutdown',
             'listeners.shutdown() is called from %s: shutting the parent\'s listeners down while the proxy runs removes the Unix socket path (UnixSocketListener.shutdown unlinks it), so that '
             'endpoint stops accepting right after start-up' % callers7)

    # ---------------- C19.5
    _ports_flag_check(ch)


def _eval_with_unix(e: ast.AST, unix: bool, ce: ConstEval, m: Any) -> Any:
    """evaluate a small int expression that may test self.flags.unix_socket_path"""
    class T(ast.NodeTransformer):
        def visit_Attribute(self, n: ast.Attribute) -> ast.AST:
            if attr_chain(n) == 'self.flags.unix_socket_path':
                return ast.Constant(value=unix)
            return n
    import copy
    e2 = ast.fix_missing_locations(T().visit(copy.deepcopy(e)))
    v = ce.try_eval(m, e2, default=None)
    return v if v is not None else norm(e)


def _ports_flag_check(ch: Checker) -> None:
    prog = ch.prog
    init = prog.method('FlagParser', 'initialize')
    # the store into <namespace>.ports (the namespace local may have any name)
    sites = [st for st in walk_no_nested(init.node) if isinstance(st, ast.Assign) and len(st.targets) == 1 and isinstance(st.targets[0], ast.Attribute) and st.targets[0].attr == 'ports' and isinstance(st.targets[0].value, ast.Name)]
    if not sites:
        ch.bad('C19.5', init, 'args.ports', 'FlagParser.initialize no longer stores args.ports')
        return
    defs: Dict[str, List[ast.AST]] = {}
    for st in walk_no_nested(init.node):
        if isinstance(st, ast.Assign) and len(st.targets) == 1 and isinstance(st.targets[0], ast.Name):
            defs.setdefault(st.targets[0].id, []).append(st.value)
        elif isinstance(st, ast.AnnAssign) and isinstance(st.target, ast.Name) and st.value is not None:
            defs.setdefault(st.target.id, []).append(st.value)
    LOSSY = ('set', 'frozenset', 'dict.fromkeys', 'sorted', 'reversed', 'OrderedDict.fromkeys', 'collections.OrderedDict.fromkeys', 'filter', 'unique', 'Counter', 'collections.Counter')
    for st in sites:
        seen: List[ast.AST] = []
        todo = [st.value]
        lossy = None
        chained = False
        while todo:
            e = todo.pop()
            for n_ in ast.walk(e):
                if isinstance(n_, ast.Call) and (attr_chain(n_.func) or '') in LOSSY:
                    lossy = norm(n_.func)
                if isinstance(n_, (ast.Set, ast.SetComp, ast.DictComp)):
                    lossy = type(n_).__name__
                if isinstance(n_, (ast.ListComp, ast.GeneratorExp)) and any(g.ifs for g in n_.generators):
                    lossy = 'a filtering comprehension'
                if isinstance(n_, ast.Call) and (attr_chain(n_.func) or '').endswith('chain.from_iterable'):
                    chained = True
                if isinstance(n_, ast.Name) and isinstance(n_.ctx, ast.Load) and len(defs.get(n_.id, [])) == 1 and not any(x is defs[n_.id][0] for x in seen):
                    seen.append(defs[n_.id][0])
                    todo.append(defs[n_.id][0])
        if lossy:
            ch.bad('C19.5', init, 'args.ports', 'the --ports values pass through %s before they reach the listener pool: repeated values (e.g. `--ports 0 0 0`, three OS-assigned ports) are merged or the '
                                              'given order is lost, so fewer or other endpoints are bound than were configured' % lossy, line=st.lineno)
        elif chained:
            ch.ok('C19.5', init, 'args.ports', 'all --ports values, flattened in the order given', line=st.lineno)
        else:
            ch.skip('C19.5', init, 'args.ports', 'how args.ports is derived from the --ports values is not a recognised form; not decided')
