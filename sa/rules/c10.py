"""C10 -- every connection's resources are released exactly once, however it ends.

Decided:
  C10.1 lifecycle in each driver: Threadless._cleanup forgets the work (and closes the
        received handle in remote mode) on every path, exceptional ones included; threaded
        run() reaches shutdown() and selector.close() on every path;
  C10.2 registration pairing: every selector.register/modify for a work is immediately
        recorded in registered_events_by_work_ids; _cleanup unregisters everything recorded
        before shutdown() closes the sockets; threaded register has its unregister in finally;
  C10.3 an owning field (a TcpServerConnection held in `.upstream`) is not overwritten with
        a fresh connection on a path that can run more than once per client connection,
        unless guarded by `is None` / preceded by close();
  C10.4 every owning field is released on the teardown path: close() / pool release is
        attempted on every path where the field is set, including when the socket-level
        shutdown raises; the client socket close is attempted on every path; the protocol
        plugin's close hook (the only place upstreams are released) is always attempted;
  C10.5 TcpConnection.close is idempotent by flag.
Not decided: descriptor counts in a live process, selector map contents."""
import ast
from typing import Any, Dict, List, Optional, Set, Tuple

from ..cfg import cfg_of
from ..flow import Sym, fpaths, attr_effects, allfacts
from ..model import FuncInfo, attr_chain, norm, walk_no_nested
from ..report import Checker
from .common import must_attempt, shutdown_hook_check, raise_capable

ONCE = {'__init__', 'on_request_complete', 'initialize', 'on_client_connection_close', 'shutdown', 'protocols', 'routes'}
REPEATABLE = {'on_client_data', 'read_from_descriptors', 'write_to_descriptors', 'get_descriptors', 'handle_events', 'get_events',
              'handle_upstream_data', 'on_websocket_message', 'handle_data', 'handle_readables', 'handle_writables', 'on_response_chunk'}


def _has_call(a: ast.AST, names: Tuple[str, ...]) -> bool:
    return any(isinstance(c, ast.Call) and attr_chain(c.func) in names for c in walk_no_nested(a))


def run(ch: Checker) -> None:
    prog = ch.prog
    ch.rule('C10.11', 'every close() in the TcpConnection hierarchy attempts the real close on every way through it, exceptional ones included: an override reaches super().close() '
                      '(the base reaches self.connection.close()) whenever the connection is not closed yet -- anything it does first (TLS unwrap, logging) must not be able to skip it', 1)
    ch.rule('C10.1', 'lifecycle: Threadless._cleanup attempts `del self.works[id]` (and os.close(id) with a work-queue fd) on every path, exception edges included, after shutdown(); '
                     'HttpProtocolHandler.run attempts shutdown() and selector.close() on every path', 4)
    ch.rule('C10.16', 'a TLS wrapper owns the descriptor as soon as it exists: every function that wraps a connection stores the wrapper into <connection>._conn in the statement that creates it, or before any other call is made on it (handshake, timeout) -- so whatever raises next, shutdown() closes it', 2)
    ch.rule('C10.2', 'registration pairing: each selector.register/modify in _update_work_events is followed at once by the store into registered_events_by_work_ids[work_id][fileno]; '
                     '_cleanup unregisters the recorded descriptors before shutdown(); threaded _run_once/_flush unregister in finally', 5)
    ch.rule('C10.3', 'owning field: a store of a new TcpServerConnection into an `upstream` field is reachable only from once-per-connection entry points, or is guarded by '
                     '`upstream is None` / preceded by closing the old value', 3)
    ch.rule('C10.4', 'release on teardown: upstream.close() or pool release is attempted on every path of the owner\'s close callback where the field is set (exceptions of the '
                     'socket-level shutdown included); client socket close is attempted on every path of shutdown(); the plugin close hook is always attempted', 4)
    ch.rule('C10.6', 'hand-over of the received descriptor: on every normal path of ThreadlessFdExecutor.work the created work is stored in self.works (so that _cleanup -- the only '
                     'place that closes the received descriptor and forgets the work -- will run for it) or _cleanup(fileno) is attempted on that path', 1)
    ch.rule('C10.7', 'who may close: a socket owned by a work is closed only from the teardown callbacks (shared with C05.8): earlier closes leave the number registered and its bookkeeping behind', 3)
    ch.rule('C10.9', 'who may set <connection>.closed = True (the flag under which TcpConnection.close() skips the real close): close() itself, TcpServerConnection.__init__ (not connected yet), '
                     'HttpProtocolHandler.handle_data on client EOF (the client socket is closed through work.connection.close() in shutdown), HttpProxyPlugin._close_and_release (hand-over to the pool)', 4)
    ch.rule('C10.10', 'the plugin object whose on_request_complete() is being run is already stored in self.plugin: if that call raises after it connected upstream, shutdown() still reaches '
                      'plugin.on_client_connection_close(), the only place the upstream socket is closed / released', 1)
    ch.rule('C10.5', 'TcpConnection.close closes the socket only under `not self.closed` and sets closed = True on that path', 1)

    # ---------------- C10.1
    cl = prog.own_method('Threadless', '_cleanup')
    gcl = cfg_of(cl, prog)
    def _forgets(a: ast.AST) -> bool:
        return (isinstance(a, ast.Delete) and any(isinstance(t, ast.Subscript) and attr_chain(t.value) == 'self.works' for t in a.targets)) or \
            any(isinstance(c_, ast.Call) and attr_chain(c_.func) == 'self.works.pop' for c_ in walk_no_nested(a))
    n, cex = must_attempt(gcl, _forgets,
                          lambda p: True, exc_source=lambda a: _has_call(a, ()) or any(isinstance(c, ast.Call) and (isinstance(c.func, ast.Attribute) and c.func.attr == 'shutdown') for c in walk_no_nested(a)))
    ch.check(cex is None and n > 0, 'C10.1', cl, 'del self.works[work_id]', 'the work is forgotten on all %d path(s), also when shutdown() raises' % n,
             'a path of _cleanup (%s) leaves the work in self.works: it is polled and cleaned again, and never released' % (cex[0] if cex else ''), witness=cex[1] if cex else None)
    n, cex = must_attempt(gcl, lambda a: _has_call(a, ('os.close',)),
                          lambda p: allfacts(p).get('self.work_queue_fileno() is None') is not True,      # also the ways out on which the question is never asked
                          exc_source=lambda a: any(isinstance(c, ast.Call) and (isinstance(c.func, ast.Attribute) and c.func.attr == 'shutdown') for c in walk_no_nested(a)))
    ch.check(cex is None and n > 0, 'C10.1', cl, 'os.close(work_id)', 'the received handle is closed on all %d path(s) with a work-queue fd' % n,
             'remote executor: the duplicated descriptor received for the work is not closed on a path of _cleanup (%s)' % (cex[0] if cex else 'no such path'), witness=cex[1] if cex else None)
    # shutdown precedes the forgetting
    order_ok = True
    for p in fpaths(gcl):
        ch.paths += 1
        ev = []
        for idx, n_, lab in p.executed():
            if n_.kind == 'stmt':
                if any(isinstance(c, ast.Call) and (isinstance(c.func, ast.Attribute) and c.func.attr == 'shutdown') for c in walk_no_nested(n_.ast)):  # type: ignore[arg-type]
                    ev.append('shutdown')
                if _forgets(n_.ast):       # type: ignore[arg-type]
                    ev.append('forget')
        if 'forget' in ev and 'shutdown' not in ev and p.exit_kind == 'return':
            order_ok = False
    ch.check(order_ok, 'C10.1', cl, 'shutdown before forget', 'every normal path that forgets the work also calls its shutdown()', 'a work is forgotten without its shutdown() having been called: its sockets stay open')
    run_ = prog.own_method('HttpProtocolHandler', 'run')
    gr = cfg_of(run_, prog)
    for tgt, nm in ((('self.shutdown',), 'shutdown()'), (('self.selector.close',), 'selector.close()')):
        n, cex = must_attempt(gr, lambda a, t=tgt: _has_call(a, t), (lambda p: True) if nm == 'shutdown()' else (lambda p: allfacts(p).get('self.selector') is not False))
        ch.check(cex is None and n > 0, 'C10.1', run_, nm, '%s attempted on all %d path(s) of the threaded driver' % (nm, n),
                 'threaded mode: %s is skipped on a path (%s)' % (nm, cex[0] if cex else ''), witness=cex[1] if cex else None)

    # ---------------- C10.2
    uwe = prog.own_method('Threadless', '_update_work_events')
    gu = cfg_of(uwe, prog, exc_edges=False)
    sites: Dict[int, Tuple[ast.Call, bool]] = {}
    for p in fpaths(gu):
        ch.paths += 1
        ex = p.executed()
        for k, (idx, n_, lab) in enumerate(ex):
            if n_.kind != 'stmt':
                continue
            for c in walk_no_nested(n_.ast):  # type: ignore[arg-type]
                if isinstance(c, ast.Call) and attr_chain(c.func) in ('self.selector.register', 'self.selector.modify'):
                    # next executed statement must record it
                    nxt = ex[k + 1][1] if k + 1 < len(ex) else None
                    nidx = ex[k + 1][0] if k + 1 < len(ex) else 0
                    okn = False
                    if nxt is not None and nxt.kind == 'stmt' and isinstance(nxt.ast, ast.Assign) and isinstance(nxt.ast.targets[0], ast.Subscript) and c.args:
                        sym = Sym(p)
                        tg = nxt.ast.targets[0]
                        ev = [kw.value for kw in c.keywords if kw.arg == 'events'] or (list(c.args[1:2]))
                        okn = norm(sym.value(tg.value, nidx)) == 'self.registered_events_by_work_ids[%s]' % uwe.params[1] and \
                            norm(sym.value(tg.slice, nidx)) == norm(sym.value(c.args[0], idx)) and \
                            bool(ev) and norm(sym.value(nxt.ast.value, nidx)) == norm(sym.value(ev[0], idx))
                    prev = sites.get(id(c), (c, True))
                    sites[id(c)] = (c, prev[1] and bool(okn))
    for c, okn in sites.values():
        ch.check(okn, 'C10.2', uwe, c, 'registration recorded in registered_events_by_work_ids right after the selector call',
                 'a descriptor is registered/modified in the selector without being recorded at once, under its own number and with the mask just registered, in registered_events_by_work_ids[work_id]: '
                 '_cleanup will not unregister it, or a later change of interest is compared with a stale mask and never reaches the selector')
    # _cleanup: unregister loop over the recorded descriptors precedes shutdown (path based, helper calls are inlined)
    bad_u = None
    n_u = 0
    for p in fpaths(gcl):
        sym = Sym(p)
        fd = allfacts(p)
        sd_steps = [i for i, nd, lab in p.executed() if nd.kind == 'stmt' and any(isinstance(c, ast.Call) and isinstance(c.func, ast.Attribute) and c.func.attr == 'shutdown' for c in walk_no_nested(nd.ast))]  # type: ignore[arg-type]
        if not sd_steps:
            continue
        recorded = [v for k, v in fd.items() if k.endswith('in self.registered_events_by_work_ids')]
        if not recorded or recorded[-1] is not True:
            continue
        n_u += 1
        ok = False
        for i, (nid, lab) in enumerate(p.steps[:sd_steps[0]]):
            nd = gcl.nodes[nid]
            if nd.kind == 'for':
                it = norm(sym.value(nd.ast.iter, i))  # type: ignore[union-attr]
                if it in [t_ % cl.params[1] for t_ in ('self.registered_events_by_work_ids[%s]', 'self.registered_events_by_work_ids[%s].keys()', 'list(self.registered_events_by_work_ids[%s])')] and \
                        any(isinstance(c, ast.Call) and attr_chain(c.func) == 'self.selector.unregister' and c.args and norm(c.args[0]) == norm(nd.ast.target) for c in walk_no_nested(nd.ast)):  # type: ignore[union-attr]
                    ok = True
        if not ok:
            bad_u = ('_cleanup reaches shutdown() for a work with recorded descriptors without first unregistering every one of them: closed descriptors stay in the selector map', p.describe(20))
    ch.check(bad_u is None and n_u > 0, 'C10.2', cl, 'unregister before shutdown', 'every recorded descriptor is unregistered before shutdown() closes the sockets (%d path(s))' % n_u,
             bad_u[0] if bad_u else 'no path with recorded descriptors reaches shutdown()', witness=bad_u[1] if bad_u else None)
    for fname, reg_in in (('_run_once', None), ('_flush', 'self.selector.register')):
        f = prog.own_method('HttpProtocolHandler', fname)
        gf = cfg_of(f, prog, unguarded_exc=True)      # an exception nothing in the function catches is a way out, too
        n, cex = must_attempt(gf, lambda a: _has_call(a, ('self.selector.unregister',)) or (isinstance(a, ast.For) and False),
                              lambda p, r=reg_in: True if r is None else any(_has_call(st, (r,)) for i, st in p.stmts(completed_only=True)))
        # _run_once unregisters inside a for loop over events: the loop head must be reached
        if fname == '_run_once':
            n, cex = _loop_reached(gf, 'self._selected_events()')
        ch.check(cex is None and n > 0, 'C10.2', f, 'unregister in finally', 'threaded %s: descriptors registered for the select are unregistered on all %d path(s)' % (fname, n),
                 'threaded %s: a path leaves descriptors registered in the per-connection selector (%s)' % (fname, cex[0] if cex else ''), witness=cex[1] if cex else None)

    # ---------------- C10.3 owning fields
    stores: List[Tuple[FuncInfo, ast.AST]] = []
    for fn in prog.all_functions('proxy'):
        if fn.cls is None or fn.module.name.startswith('proxy.plugin') or fn.module.name.startswith('proxy.testing'):
            continue
        for chn, kind, node in attr_effects(fn.node):
            if chn == 'self.upstream' and kind == 'store':
                v = node.value  # type: ignore[attr-defined]
                vt = norm(v)
                if vt == 'None':
                    continue
                stores.append((fn, node))
    for fn, node in stores:
        guarded = _store_guarded(prog, fn, node)
        if guarded:
            ch.ok('C10.3', fn, node, 'store guarded: %s' % guarded)
            continue
        chain = _repeatable_chain(prog, fn)
        if chain is None:
            ch.ok('C10.3', fn, node, 'reachable only from once-per-connection entry points')
        else:
            ch.bad('C10.3', fn, node, 'a live upstream connection can be overwritten: this store runs once per request (reachable through %s) without checking or closing the previous '
                                     'connection; the old socket is dropped while still registered with the event loop' % ' <- '.join(chain))

    # ---------------- C10.4 release on teardown
    occ = prog.own_method('HttpProxyPlugin', 'on_client_connection_close')
    go = cfg_of(occ, prog)
    mentions_up = lambda a: any(attr_chain(n_) is not None and (attr_chain(n_) or '').startswith('self.upstream') for n_ in ast.walk(a) if isinstance(n_, ast.Attribute))
    n, cex = must_attempt(go, lambda a: _has_call(a, ('self.upstream.close', 'self.upstream_conn_pool.release')),
                          lambda p: allfacts(p).get('self.upstream is None') is False and p.exit_kind == 'return' or
                          (allfacts(p).get('self.upstream is None') is False and any(lab == 'exc' for _, lab in p.steps)),
                          exc_source=mentions_up)
    ch.check(cex is None and n > 0, 'C10.4', occ, 'upstream release', 'upstream.close() / pool release attempted on all %d path(s) with an upstream (socket-level shutdown errors included)' % n,
             'the upstream connection is not closed on a path of on_client_connection_close (%s): e.g. after the origin reset the connection, shutdown(SHUT_WR) raises and close() is skipped'
             % (cex[0] if cex else ''), witness=cex[1] if cex else None)
    rocc = prog.own_method('ReverseProxy', 'on_client_connection_close')
    gro = cfg_of(rocc, prog, exc_edges=False)
    okr = True
    nr = 0
    for p in fpaths(gro):
        f = allfacts(p)
        if f.get('self.upstream') is True and f.get('self.upstream.closed') is False:
            nr += 1
            if not any(_has_call(st, ('self.upstream.close',)) for i, st in p.stmts()):
                okr = False
    ch.check(okr and nr > 0, 'C10.4', rocc, 'upstream release (reverse proxy)', 'open upstream closed on client close', 'the reverse proxy does not close its open upstream when the client connection ends')
    sd = prog.own_method('HttpProtocolHandler', 'shutdown')
    gsd = cfg_of(sd, prog)
    n, cex = must_attempt(gsd, lambda a: _has_call(a, ('self.work.connection.close',)), lambda p: True)
    ch.check(cex is None and n > 0, 'C10.4', sd, 'client socket close', 'client socket close attempted on all %d path(s), whatever raised before' % n,
             'the client socket is not closed on a path of shutdown() (%s)' % (cex[0] if cex else ''), witness=cex[1] if cex else None)
    shutdown_hook_check(ch, 'C10.4')

    # ---------------- C10.6 hand-over in ThreadlessFdExecutor.work
    wk = prog.own_method('ThreadlessFdExecutor', 'work')
    gwk = cfg_of(wk, prog)
    bad6 = None
    n6 = 0
    for p in fpaths(gwk):
        ch.paths += 1
        if p.exit_kind != 'return':
            continue
        created = [i for i, st in p.stmts() if _has_call(st, ('self.create',))]
        if not created:
            continue
        n6 += 1
        stored = cleaned = False
        for i, st in p.stmts():
            if i < created[0]:
                continue
            for chn, kind, node in attr_effects(st):
                if chn == 'self.works' and kind == 'item':
                    stored = True
                if chn == 'self.works' and kind in ('delitem', 'call:pop', 'call:clear'):
                    stored = False
            if _has_call(st, ('self._cleanup',)):
                cleaned = True
        # attempted-but-raised cleanup also counts (the handler chain is C05's business)
        for i, nd, lab in p.executed():
            if lab == 'exc' and nd.ast is not None and _has_call(nd.ast, ('self._cleanup',)):
                cleaned = True
        if not stored and not cleaned:
            bad6 = ('a work is created for a received descriptor and the function returns without the work being in self.works and without _cleanup(fileno): nothing will ever '
                    'close the descriptor received from the acceptor (os.close happens only in _cleanup) -- one leaked descriptor per such connection', p.describe(24))
    ch.check(bad6 is None and n6 > 0, 'C10.6', wk, 'hand-over', 'stored in self.works or cleaned up on all %d normal path(s)' % n6, bad6[0] if bad6 else 'no path creates a work', witness=bad6[1] if bad6 else None)

    # ---------------- C10.7 who may close (shared with C05.8)
    from .common import who_may_close_check
    who_may_close_check(ch, 'C10.7')

    # ---------------- C10.12/13 (shared)
    ch.rule('C10.15', 'UpstreamConnectionPool._remove releases a pooled connection completely on every way through it: conn.close() and both bookkeeping removals are attempted also when the '
                      'socket-level shutdown raises (the origin reset the connection)', 3)
    rm15 = prog.own_method('UpstreamConnectionPool', '_remove')
    g15 = cfg_of(rm15, prog)
    for label15, pred15 in (('conn.close()', lambda a: any(isinstance(c_, ast.Call) and isinstance(c_.func, ast.Attribute) and c_.func.attr == 'close' and not (attr_chain(c_.func.value) or '').endswith('.connection') for c_ in walk_no_nested(a))),
                            ('pools[addr].remove(conn)', lambda a: any(isinstance(c_, ast.Call) and isinstance(c_.func, ast.Attribute) and c_.func.attr in ('remove', 'discard') and 'self.pools' in norm(c_.func.value) for c_ in walk_no_nested(a))),
                            ('del connections[fileno]', lambda a: (isinstance(a, ast.Delete) and any('self.connections' in norm(t_) for t_ in a.targets)) or any(isinstance(c_, ast.Call) and attr_chain(c_.func) == 'self.connections.pop' for c_ in walk_no_nested(a)))):
        # the exceptions the function itself expects: those its own handlers catch (socket.shutdown raises OSError; anything else is a programming error)
        def caught15(p: Any) -> bool:
            return all(i_ + 1 < len(p.steps) and g15.nodes[p.steps[i_ + 1][0]].kind == 'handler' for i_, (nid_, lab_) in enumerate(p.steps) if lab_ == 'exc')
        n15, cex15 = must_attempt(g15, pred15, caught15, exc_source=lambda a: any(isinstance(c_, ast.Call) and isinstance(c_.func, ast.Attribute) and c_.func.attr == 'shutdown' for c_ in walk_no_nested(a)))
        ch.check(cex15 is None and n15 > 0, 'C10.15', rm15, label15, 'attempted on all %d path(s), also when shutdown(SHUT_WR) raises' % n15,
                 'a path of _remove (%s) skips %s: after the origin reset a pooled connection the pool keeps the socket open and keeps counting it -- a descriptor and a registry entry leak per reset, '
                 'for the life of the worker' % (cex15[0] if cex15 else '', label15), witness=cex15[1] if cex15 else None)
    ch.import_rules('C20', {'C20.1': 'C10.12', 'C20.2': 'C10.13'}, 'a connection that ends by idle timeout is only ever released if the idle predicate can become true for it')

    # ---------------- C10.8 (shared)
    ch.import_rules('C09', {'C09.6': 'C10.8'}, 'a strict decode of wire bytes that raises on the way to the close callbacks aborts teardown before the upstream socket is released')
    ch.import_rules('C09', {'C09.5b': 'C10.14'}, 'resources a plugin releases in its close hook are released only if every plugin gets that hook, whatever an earlier plugin answered to the access-log hook')

    # ---------------- C10.11 close() overrides reach the real close
    tcn = prog.class_named('TcpConnection')
    n11 = 0
    for ci11 in [tcn] + prog.subclasses(tcn):
        if ci11.module.name.startswith(('proxy.plugin', 'proxy.testing', 'proxy.http.websocket.client')):
            continue
        fn11 = ci11.methods.get('close')
        if fn11 is None:
            continue
        n11 += 1
        g11 = cfg_of(fn11, prog, unguarded_exc=True)
        target = ('self.connection.close',) if ci11 is tcn else ('super().close',)
        nn, cex = must_attempt(g11, lambda a, t=target: any(isinstance(c, ast.Call) and norm(c.func) in t for c in walk_no_nested(a)),
                               lambda p: allfacts(p).get('self.closed') is not True and allfacts(p).get('self.connection') is not False,
                               extra_pure=('isinstance',))
        ch.check(cex is None and nn > 0, 'C10.11', fn11, 'close() reaches the real close', '%s attempted on all %d path(s) with the connection still open' % (target[0], nn),
                 '%s.close() can be left without %s() having been attempted (%s): the socket stays open and nothing else will close it'
                 % (ci11.name, target[0], cex[0] if cex else 'no path with an open connection'), witness=cex[1] if cex else None)

    # ---------------- C10.9 who may set closed = True
    ALLOWED_CLOSED = {'TcpConnection.close', 'TcpServerConnection.__init__', 'HttpProtocolHandler.handle_data', 'HttpProxyPlugin._close_and_release'}
    for fn in prog.all_functions('proxy'):
        if fn.module.name.startswith(('proxy.plugin', 'proxy.testing', 'proxy.http.websocket.client', 'proxy.http.client')):
            continue
        for st in walk_no_nested(fn.node):
            if isinstance(st, ast.Assign) and any(isinstance(t, ast.Attribute) and t.attr == 'closed' for t in st.targets) and norm(st.value) == 'True':
                ch.check(fn.qualname in ALLOWED_CLOSED, 'C10.9', fn, st, 'listed writer of the closed flag',
                         '%s sets %s: TcpConnection.close() only closes the socket while `closed` is False, so from here on the teardown\'s close() does nothing and the descriptor is left '
                         'to the garbage collector' % (fn.qualname, norm(st)))

    # ---------------- C10.10 plugin registered before it acts
    pfr = prog.own_method('HttpProtocolHandler', '_parse_first_request')
    g10 = cfg_of(pfr, prog, exc_edges=False)
    bad10 = None
    n10 = 0
    for p in fpaths(g10):
        ch.paths += 1
        sym = Sym(p)
        for i, st in p.stmts():
            for c in walk_no_nested(st):
                if isinstance(c, ast.Call) and isinstance(c.func, ast.Attribute) and c.func.attr == 'on_request_complete':
                    n10 += 1
                    recv = c.func.value
                    if attr_chain(recv) == 'self.plugin':
                        stv = sym.attr_store('self.plugin', i)
                        if stv is None:
                            bad10 = ('on_request_complete() is called on self.plugin, which was not assigned on this path', p.describe(16))
                    else:
                        rv = norm(sym.value(recv, i))
                        stv = sym.attr_store('self.plugin', i)
                        if stv is None or norm(stv[1]) != rv:
                            bad10 = ('on_request_complete() runs on %s before that object is stored in self.plugin: when it raises (a plugin rejecting the request after the upstream '
                                     'connection was made) shutdown() sees self.plugin is None, never calls on_client_connection_close(), and the upstream socket / pool entry is never released'
                                     % rv[:60], p.describe(16))
    ch.check(bad10 is None and n10 > 0, 'C10.10', pfr, 'plugin registered before on_request_complete', 'self.plugin holds the plugin before its on_request_complete() runs (%d path(s))' % n10,
             bad10[0] if bad10 else 'no call of on_request_complete found', witness=bad10[1] if bad10 else None)

    # ---------------- C10.5
    close = prog.own_method('TcpConnection', 'close')
    gc = cfg_of(close, prog, exc_edges=False)
    ok5 = True
    n5 = 0
    for p in fpaths(gc):
        closes = [i for i, st in p.stmts() if _has_call(st, ('self.connection.close',))]
        if closes:
            n5 += 1
            f = allfacts(p, closes[0])
            sets = [i for i, st in p.stmts() for chn, kind, nd in attr_effects(st) if chn == 'self.closed' and norm(nd.value) == 'True']  # type: ignore[attr-defined]
            if f.get('self.closed') is not False or not sets:
                ok5 = False
    ch.check(ok5 and n5 > 0, 'C10.5', close, 'idempotent close', 'socket closed once, flag set', 'TcpConnection.close may close the socket twice or does not record that it closed it')

    # ---------------- C10.16 a freshly wrapped socket is published before anything else is done with it
    n16 = 0
    for fn16 in prog.all_functions('proxy'):
        if fn16.module.name.startswith(('proxy.plugin', 'proxy.testing', 'proxy.http.client', 'proxy.http.websocket.client')):
            continue
        if not any(isinstance(c, ast.Call) and (attr_chain(c.func) or '').split('.')[-1] == 'wrap_socket' for c in walk_no_nested(fn16.node)):
            continue
        g16 = cfg_of(fn16, prog, exc_edges=False)
        bad16 = None
        sites16 = 0
        for p in fpaths(g16, limit=100000):
            if p.coarse:
                continue
            stmts = p.stmts()
            for k, (i, st) in enumerate(stmts):
                if not (isinstance(st, (ast.Assign, ast.AnnAssign)) and any(isinstance(c, ast.Call) and (attr_chain(c.func) or '').split('.')[-1] == 'wrap_socket' for c in walk_no_nested(st))):
                    continue
                tgs = st.targets if isinstance(st, ast.Assign) else [st.target]
                if any((attr_chain(t_) or '').endswith('._conn') for t_ in tgs):
                    sites16 += 1
                    continue                    # created and published by one statement
                local = tgs[0].id if isinstance(tgs[0], ast.Name) else None
                if local is None:
                    continue
                pub = next((k2 for k2 in range(k + 1, len(stmts)) if isinstance(stmts[k2][1], (ast.Assign, ast.AnnAssign)) and
                            any((attr_chain(t_) or '').endswith('._conn') for t_ in (stmts[k2][1].targets if isinstance(stmts[k2][1], ast.Assign) else [stmts[k2][1].target])) and
                            isinstance(stmts[k2][1].value, ast.Name) and stmts[k2][1].value.id == local), None)
                if pub is None:
                    continue                    # handed back to the caller: the caller's statement is judged
                sites16 += 1
                between = [c for k2 in range(k + 1, pub) for c in walk_no_nested(stmts[k2][1]) if isinstance(c, ast.Call) and not (attr_chain(c.func) or '').startswith('logger.')]
                if between:
                    bad16 = ('between wrap_socket() and the store into %s the new socket is used (%s): the wrapper owns the descriptor from the moment it exists (the plain socket was detached), and while it is '
                             'only held by a local nothing the teardown knows of can close it -- if that call raises (a failed or timed-out handshake, a reset) the connection is forgotten with its descriptor '
                             'open and the peer sees neither FIN nor RST' % (norm(stmts[pub][1].targets[0] if isinstance(stmts[pub][1], ast.Assign) else stmts[pub][1].target), norm(between[0])[:50]), p.describe(12))
        if sites16:
            n16 += 1
            ch.check(bad16 is None, 'C10.16', fn16, 'wrapped socket published at once', 'the TLS wrapper is stored where shutdown() finds it by the statement that creates it or the next one',
                     bad16[0] if bad16 else '', witness=bad16[1] if bad16 else None)
    if n16 < 2:
        raise AnalysisError('anchor vanished: fewer than two functions wrap a socket and store it into ._conn')



def _loop_reached(g: Any, itername: str) -> Tuple[int, Optional[Tuple[str, List[str]]]]:
    """every path (exception edges included) passes the loop head that walks the result of <itername> and whose body unregisters"""
    n = 0
    for p in g.paths(limit=50000):
        n += 1
        hit = False
        sym = Sym(p)
        for si, (nid, lab) in enumerate(p.steps):
            nd = g.nodes[nid]
            if nd.kind == 'for' and _has_call(ast.Module(body=nd.ast.body, type_ignores=[]), ('self.selector.unregister',)):
                # the loop walks what was registered: by value, (part of) the result of the call named by `itername`, whatever the local is called
                if itername in norm(sym.value(nd.ast.iter, si)):
                    hit = True
        # paths that raise before the descriptors were registered (inside _selected_events) have nothing to undo
        registered = any(nd2.ast is not None and nd2.kind == 'stmt' and lab2 != 'exc' and '_selected_events' in norm(nd2.ast) for (i2, lab2) in p.steps for nd2 in [g.nodes[i2]])
        if any(g.nodes[i2].kind == 'stmt' and isinstance(g.nodes[i2].ast, ast.Assert) for i2, _ in p.steps):
            continue
        if not hit and registered:
            return n, ('path without the unregister loop', p.describe())
    return n, None


def _store_guarded(prog: Any, fn: FuncInfo, node: ast.AST) -> Optional[str]:
    g = cfg_of(fn, prog, exc_edges=False)
    verdicts = []
    for p in fpaths(g):
        for idx, st in p.stmts():
            if st is node:
                f = allfacts(p, idx)
                if f.get('self.upstream is None') is True or f.get('self.upstream') is False:
                    verdicts.append('under `self.upstream is None`')
                elif any(_has_call(s2, ('self.upstream.close',)) for j, s2 in p.stmts() if j < idx):
                    verdicts.append('old connection closed first')
                else:
                    verdicts.append(None)
    if verdicts and all(v is not None for v in verdicts):
        return verdicts[0]
    return None


def _repeatable_chain(prog: Any, fn: FuncInfo, depth: int = 0, seen: Optional[Set[str]] = None) -> Optional[List[str]]:
    """call chain from a repeatable entry point to fn (by method name, within proxy.http / proxy.core.base), or None"""
    seen = seen or set()
    if fn.name in REPEATABLE:
        return [fn.qualname]
    if fn.name in ONCE or depth > 6 or fn.qualname in seen:
        return None
    seen.add(fn.qualname)
    for caller in prog.all_functions('proxy'):
        if caller.cls is None or caller is fn:
            continue
        if not (caller.module.name.startswith('proxy.http') or caller.module.name.startswith('proxy.core.base')):
            continue
        for c in walk_no_nested(caller.node):
            if isinstance(c, ast.Call) and isinstance(c.func, ast.Attribute) and c.func.attr == fn.name:
                # receiver must plausibly be an instance of fn's class hierarchy: self.<name>(...), self.route.<name>(...), plugin.<name>(...)
                recv = norm(c.func.value)
                if recv == 'self' and not (prog.is_subclass(caller.cls, fn.cls) or prog.is_subclass(fn.cls, caller.cls)):
                    continue
                if recv.startswith('super()'):
                    continue
                sub = _repeatable_chain(prog, caller, depth + 1, seen)
                if sub is not None:
                    return [fn.qualname] + sub
    return None
