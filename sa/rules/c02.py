"""C02 -- the forwarded HTTP request is semantically identical to the client's.

Decided:
  C02.1  at every site that forwards a rebuilt request: Proxy-Authorization/Proxy-Connection
         removed, --disable-headers applied, origin-form target;
  C02.1b a Via field naming the proxy is added at every forward site;
  C02.2  HttpParser.build keeps method, path (origin-form), version and every header's original
         name and value (Host only when an override is passed), filters only disabled headers,
         adds no User-Agent;
  C02.3  body framing on rebuild follows the Transfer-Encoding header (= C15.2) and
         Content-Length is the length of the emitted body (= C15.3);
  C02.4  packet assembly order: start line, header lines, blank line, body;
  C02.5  the header store keeps the original name and the stripped value, keyed by lower-case name;
  C02.6  the follow-up request parser is kept until the request is complete (a request split
         over several reads is neither dropped nor re-parsed from the middle).
Not decided: equality with an independent parser over generated requests; decoded-body
equality for arbitrary chunk layouts (see C03)."""
import ast
from typing import Any, Dict, List, Optional, Tuple

from ..cfg import cfg_of
from ..consteval import ConstEval
from ..flow import Sym, fpaths, attr_effects, allfacts
from ..model import FuncInfo, attr_chain, norm, walk_no_nested
from ..report import Checker
from .forward import forward_sites_check, opaque_relay_check
from .common import dict_iter
from .c15 import body_or_chunks_check, content_length_check
from .c03 import chunk_decoder_checks, completion_typestate_check


def pipeline_reset_check(ch: Checker, rule: str) -> None:
    """`self.pipeline_request = None` only where the follow-up request is complete (or was dropped by a plugin after completion)"""
    prog = ch.prog
    for cls, fname in (('HttpProxyPlugin', 'on_client_data'), ('HttpWebServerPlugin', 'on_client_data')):
        f = prog.own_method(cls, fname)
        g = cfg_of(f, prog)
        bad = None
        n = 0
        for p in fpaths(g):
            ch.paths += 1
            for i, n_, lab in p.executed():
                if n_.kind != 'stmt' or lab == 'exc':
                    continue
                st = n_.ast
                if isinstance(st, ast.Assign) and attr_chain(st.targets[0]) == 'self.pipeline_request' and norm(st.value) == 'None':
                    n += 1
                    facts = allfacts(p, i)
                    complete = [v for k, v in facts.items() if k.endswith('.is_complete') and 'pipeline_request' in k or k == 'request.is_complete']
                    # alias: request = self.pipeline_request; request.is_complete
                    sym = Sym(p)
                    ok = False
                    for sidx, (nid, lb) in enumerate(p.steps[:i]):
                        nd = g.nodes[nid]
                        if nd.kind == 'test' and lb is True and norm(sym.value(nd.ast, sidx)).endswith('self.pipeline_request.is_complete'):  # type: ignore[arg-type]
                            ok = True
                    if not ok:
                        bad = ('the follow-up request parser is discarded on a path where the request has not been completely received: a request that arrives in more than one '
                               'read loses its first part (the rest is parsed from the middle or dropped)', p.describe(22))
        ch.check(bad is None and n > 0, rule, f, 'self.pipeline_request = None', 'follow-up parser discarded only after the request completed (%d reset site-path(s))' % n,
                 bad[0] if bad else 'no reset of the follow-up parser found', witness=bad[1] if bad else None)


def run(ch: Checker) -> None:
    prog = ch.prog
    ce = ConstEval(prog)
    ch.rule('C02.12', 'writer/reader agreement on --disable-headers: HttpParser.build drops a header when `name.lower()` is in the list, so FlagParser.initialize stores the configured names lower-cased', 1)
    ch.rule('C02.1', 'at every site that queues a rebuilt request to the upstream, del_headers([proxy-authorization, proxy-connection]) ran on that parser on every path, '
                     'build() receives disable_headers=flags.disable_headers and not for_proxy', 2)
    ch.rule('C02.1b', 'a Via header naming the proxy (PROXY_AGENT_HEADER_VALUE) is added to the parser on every path to every forward site', 2)
    ch.rule('C02.2', 'HttpParser.build: build_http_request(self.method, <self.path or b"/">, self.version, headers={orig name: orig value (Host replaced only by the host= override) '
                     'for names whose lower-case form is not in disable_headers}, body=_get_body_or_chunks(), no_ua=True)', 5)
    ch.rule('C02.3', 'rebuild framing: chunk-framed iff chunked and body not None; Content-Length = len(emitted body) under the case-insensitive transfer-encoding scan', 3)
    ch.rule('C02.4', 'build_http_pkt: JOIN(line, SP) CRLF, then for every header in map order name ": " value CRLF, then CRLF, then the body when non-empty', 1)
    ch.rule('C02.5', '_process_header: key/value are the stripped sides of the first-colon split; add_header stores (key, value) under key.lower()', 2)
    ch.rule('C02.7', 'chunked request bodies are decoded independently of segmentation preconditions (shared with C03): size line searched in held+new bytes, chunk data added '
                     'piece[:missing] / piece[missing:], no unchecked fixed-width skip, no chunk completed without its CRLF', 3)
    ch.rule('C02.8', 'a request is treated as complete (and forwarded) only when its announced body has arrived: completion typestate of HttpParser (shared with C03.6)', 3)
    ch.rule('C02.9', 'outside a CONNECT tunnel a client request reaches the upstream unparsed (not rewritten at all) only under an upgrade state that is revoked when the upstream answers anything but 101 (shared with C08.6)', 1)
    ch.rule('C02.6', 'the follow-up (pipeline) request parser is reset to None only where the request is complete', 2)

    forward_sites_check(ch, 'C02.1', want_via=True, via_rule='C02.1b')

    # ---------------- C02.2
    b = prog.own_method('HttpParser', 'build')
    m = b.module
    g = cfg_of(b, prog, exc_edges=False)
    res: Dict[str, Optional[str]] = {}
    n = 0
    for p in fpaths(g):
        ch.paths += 1
        if p.exit_kind != 'return':
            continue
        f = allfacts(p)
        if f.get('for_proxy') is True:
            continue
        n += 1
        sym = Sym(p)
        last = p.stmts()[-1]
        calls = [c for c in walk_no_nested(last[1]) if isinstance(c, ast.Call) and attr_chain(c.func) == 'build_http_request']
        if not calls:
            res['call'] = 'build() does not return build_http_request(...)'
            continue
        c = calls[0]
        # arguments by parameter name of build_http_request: positional and keyword spelling are one call
        from .common import bound_args
        ba = bound_args(prog, b, c)
        if ba is not None and all(k_ in ba for k_ in ('method', 'url', 'protocol_version')):
            args = [norm(sym.value(ba[k_], last[0])) for k_ in ('method', 'url', 'protocol_version')]
            kw = dict(ba)
        else:
            args = [norm(sym.value(a, last[0])) for a in c.args]
            kw = {k.arg: k.value for k in c.keywords}
        if not (len(args) >= 3 and args[0] == 'self.method' and args[2] == 'self.version'):
            res['line'] = 'method/version handed to the builder are %s / %s' % (args[0] if args else '?', args[2] if len(args) > 2 else '?')
        if len(args) >= 2 and args[1] not in ("self.path or b'/'",):
            res['path'] = 'the request target is rebuilt as %s instead of the origin-form path' % args[1][:60]
        if 'no_ua' not in kw or norm(kw['no_ua']) != 'True':
            res['ua'] = 'no_ua=True missing: a User-Agent header is injected into forwarded requests'
        body = kw.get('body')
        if body is None or norm(sym.value(body, last[0])) != 'self._get_body_or_chunks()':
            res['body'] = 'body handed to the builder is %s' % (norm(sym.value(body, last[0]))[:60] if body is not None else 'missing')
        h = kw.get('headers')
        hv = sym.value(h, last[0]) if h is not None else None
        comp = None
        if hv is not None:
            for x in ast.walk(hv):
                if isinstance(x, ast.DictComp):
                    comp = x
        if comp is not None:
            gen = comp.generators[0]
            di = dict_iter(gen.target, gen.iter, 'self.headers')
            if di is None or di.get('snapshot') and False:
                res['headers'] = 'header comprehension iterates %s' % norm(gen.iter)
                di = {'key': norm(gen.target), 'value': None}
            k, fv = di.get('key'), di.get('value')
            names = {'self.headers[%s][0]' % k} if k else set()
            values = {'self.headers[%s][1]' % k} if k else set()
            if fv:
                names.add('%s[0]' % fv)
                values.add('%s[1]' % fv)
            ve = di.get('value_elts')
            if ve and len(ve) == 2 and ve[0] and ve[1]:     # for k, (name, value) in self.headers.items()
                names.add(ve[0])
                values.add(ve[1])
            if norm(comp.key) not in names:
                res['hname'] = 'header names are rebuilt as %s, not the original spelling (%s)' % (norm(comp.key)[:60], ' / '.join(sorted(names)))
            val = comp.value
            vtxt = norm(val)
            if isinstance(val, ast.IfExp):
                # host override: original value unless (host given and name is host)
                t = norm(val.test)
                is_host_name = any(('%s.lower() != b\'host\'' % nm) in t for nm in names | ({k} if k else set()))
                is_host_name_pos = any(('%s.lower() == b\'host\'' % nm) in t for nm in names | ({k} if k else set()))
                okv = (norm(val.body) in values and norm(val.orelse) == 'host' and 'host is None' in t and is_host_name) or \
                      (norm(val.orelse) in values and norm(val.body) == 'host' and 'host is not None' in t and is_host_name_pos)
                if not okv:
                    res['hvalue'] = 'header values are rebuilt as %s' % vtxt[:90]
            elif vtxt not in values:
                res['hvalue'] = 'header values are rebuilt as %s, not the original value' % vtxt[:60]
            conds = [norm(c_) for c_ in gen.ifs]
            colls = ['disable_headers'] + (['DEFAULT_DISABLE_HEADERS'] if f.get('disable_headers is None') is True else [])
            okf = len(conds) == 1 and conds[0] in ['%s.lower() not in %s' % (nm, cl) for nm in (list(names) + ([k] if k else [])) for cl in colls]
            if not okf:
                res['filter'] = 'headers are filtered by %s (only `name.lower() not in disable_headers` may drop a header)' % conds
        else:
            # loop form: a dict filled inside `for ... in self.headers[.items()]` on this path
            r2 = _loop_form_headers(g, p, sym, hv, last[0])
            if r2 is None:
                if not (hv is not None and norm(hv) in ('{}',) and allfacts(p).get('self.headers') is False):
                    res['headers'] = 'headers handed to the builder (%s) are neither a comprehension over self.headers nor a dict filled in a loop over it' % (norm(hv)[:60] if hv is not None else 'missing')
            else:
                for kk, vv in r2.items():
                    res[kk] = vv
    for key, what in (('line', 'method and version'), ('path', 'origin-form path'), ('hname', 'header names'), ('hvalue', 'header values'), ('filter', 'header filter')):
        msg = res.get(key) or res.get('call') or res.get('headers')
        ch.check(msg is None and n > 0, 'C02.2', b, what, '%s preserved by build()' % what, msg or 'no path')
    for key in ('ua', 'body'):
        if res.get(key):
            ch.bad('C02.2', b, key, res[key] or '')

    # ---------------- C02.3
    body_or_chunks_check(ch, 'C02.3')
    content_length_check(ch, 'C02.3')

    # ---------------- C02.4 build_http_pkt
    bp = prog.function('proxy.common.utils', 'build_http_pkt')
    gp = cfg_of(bp, prog, exc_edges=False)
    line, headers, body = bp.params[0], bp.params[1], bp.params[2]
    bad4 = None
    n4 = 0
    def _flat(e: ast.AST) -> List[ast.AST]:
        if isinstance(e, ast.BinOp) and isinstance(e.op, ast.Add):
            return _flat(e.left) + _flat(e.right)
        return [e]

    def _is_header_call(e: ast.AST, kname: str, vname: str) -> bool:
        if not (isinstance(e, ast.Call) and attr_chain(e.func) == 'build_http_header'):
            return False
        from .common import bound_args
        ba_ = bound_args(prog, bp, e)
        if ba_ is not None and len(ba_) == 2:
            vals_ = list(ba_.values())
            ps_ = list(ba_.keys())
            a_ = getattr(prog.function('proxy.common.utils', 'build_http_header'), 'node').args
            order_ = [x.arg for x in a_.args]
            if set(ps_) == set(order_[:2]):
                return norm(ba_[order_[0]]) == kname and norm(ba_[order_[1]]) == vname
        return len(e.args) == 2 and norm(e.args[0]) == kname and norm(e.args[1]) == vname

    for p in fpaths(gp):
        if p.exit_kind != 'return':
            continue
        n4 += 1
        sym = Sym(p)
        last_i, last = p.stmts()[-1]
        if not (isinstance(last, ast.Return) and last.value is not None):
            bad4 = ('build_http_pkt returns nothing on a path', p.describe(20))
            continue
        class _DropDefault(ast.NodeTransformer):
            """`headers or {}` (the defaulting of the parameter) is the header map itself for the purpose of this rule"""
            def visit_BoolOp(self, n: ast.BoolOp) -> ast.AST:
                self.generic_visit(n)
                if isinstance(n.op, ast.Or) and len(n.values) == 2 and isinstance(n.values[0], ast.Name) and n.values[0].id == headers and isinstance(n.values[1], ast.Dict) and not n.values[1].keys:
                    return n.values[0]
                return n
        parts = _flat(ast.fix_missing_locations(_DropDefault().visit(sym.value(last.value, last_i))))
        txt = [norm(x) for x in parts]
        facts = allfacts(p)
        prob = None
        i = 0
        # start line
        if not (i < len(parts) and txt[i].replace(' ', '') == 'WHITESPACE.join(%s)' % line):
            prob = 'the packet does not start with WHITESPACE.join(%s)' % line
        i += 1
        if prob is None and not (i < len(parts) and ce.try_eval(m, parts[i]) == b'\r\n'):
            prob = 'the start line is not followed by CRLF'
        i += 1
        # header lines: loop iterations (one per enumerated iteration) or one join over all of them
        while prob is None and i < len(parts):
            e = parts[i]
            it_k = '__iter__(%s.items())[0]' % headers
            it_v = '__iter__(%s.items())[1]' % headers
            if _is_header_call(e, it_k, it_v) and i + 1 < len(parts) and ce.try_eval(m, parts[i + 1]) == b'\r\n':
                i += 2
                continue
            if isinstance(e, ast.Call) and isinstance(e.func, ast.Attribute) and e.func.attr == 'join' and ce.try_eval(m, e.func.value) == b'' and len(e.args) == 1 \
                    and isinstance(e.args[0], (ast.ListComp, ast.GeneratorExp)) and len(e.args[0].generators) == 1 and not e.args[0].generators[0].ifs:
                gen = e.args[0].generators[0]
                di = dict_iter(gen.target, gen.iter, headers)
                fl = _flat(e.args[0].elt)
                if di is None and norm(gen.iter) == '{}.items()' and isinstance(gen.target, ast.Tuple) and len(gen.target.elts) == 2:
                    # the header map was found empty and replaced by {} on this path: no header lines
                    di = {'view': 'items', 'snapshot': False, 'key': norm(gen.target.elts[0]), 'value': norm(gen.target.elts[1])}
                if di is not None and di.get('view') == 'items' and not di.get('snapshot') and len(fl) == 2 and _is_header_call(fl[0], di['key'], di['value']) and ce.try_eval(m, fl[1]) == b'\r\n':
                    i += 1
                    continue
            break
        if prob is None and not (i < len(parts) and ce.try_eval(m, parts[i]) == b'\r\n'):
            prob = 'the header section is not closed by exactly one blank line (CRLF) after the header lines (found %s)' % (txt[i] if i < len(parts) else 'nothing')
        i += 1
        rest = txt[i:]
        if prob is None:
            if facts.get(body) is True:
                if rest != [body]:
                    prob = 'with a body the packet ends in %s, not in the body as given' % rest
            elif rest:
                prob = 'something (%s) follows the blank line although there is no body' % rest
        if prob:
            bad4 = ('%s (packet = %s)' % (prob, ' + '.join(txt)[:200]), p.describe(20))
    # the loop form must walk the header map itself, in its own order
    for l in walk_no_nested(bp.node):
        if isinstance(l, ast.For) and any(isinstance(c, ast.Call) and attr_chain(c.func) == 'build_http_header' for c in ast.walk(l)):
            di = dict_iter(l.target, l.iter, headers)
            if di is None or di.get('snapshot') or di.get('view') != 'items':
                bad4 = bad4 or ('header lines are produced from %s, not from %s.items() in map order' % (norm(l.iter), headers), [])
    ch.check(bad4 is None and n4 > 0, 'C02.4', bp, 'assembly order', 'start line, headers, blank line, body on %d path(s)' % n4, bad4[0] if bad4 else '', witness=bad4[1] if bad4 else None)

    # ---------------- C02.5
    ph = prog.own_method('HttpParser', '_process_header')
    gh = cfg_of(ph, prog, exc_edges=False)
    raw = ph.params[1]
    bad5 = None
    n5 = 0
    for p in fpaths(gh):
        if p.exit_kind != 'return':
            continue
        sym = Sym(p)
        for i, st in p.stmts():
            for c in walk_no_nested(st):
                if isinstance(c, ast.Call) and attr_chain(c.func) == 'self.add_header' and len(c.args) == 2:
                    n5 += 1
                    k = norm(sym.value(c.args[0], i))
                    v = norm(sym.value(c.args[1], i))
                    if k != '%s.split(COLON, 1)[0].strip()' % raw:
                        bad5 = ('header name stored as %s' % k[:70], p.describe())
                    if v.replace(' ', '') not in (("b'' if len(%s.split(COLON, 1)) == 1 else %s.split(COLON, 1)[1].strip()" % (raw, raw)).replace(' ', ''),
                                                  ('%s.split(COLON, 1)[1].strip()' % raw).replace(' ', ''), "b''"):
                        bad5 = ('header value stored as %s' % v[:90], p.describe())
    ch.check(bad5 is None and n5 > 0, 'C02.5', ph, 'header store', 'name and value are the stripped sides of the first-colon split', bad5[0] if bad5 else 'no add_header call', witness=bad5[1] if bad5 else None)
    ah = prog.own_method('HttpParser', 'add_header')
    stores = [(chn, kind, node) for chn, kind, node in attr_effects(ah.node) if chn == 'self.headers' and kind == 'item']
    ok5 = False
    if len(stores) == 1:
        node = stores[0][2]
        tgt = node.targets[0]  # type: ignore[attr-defined]
        kparam, vparam = ah.params[1], ah.params[2]
        sl = norm(tgt.slice)
        # slice is key.lower() directly or a local assigned from it
        lower_ok = sl == '%s.lower()' % kparam or any(isinstance(s_, ast.Assign) and norm(s_.targets[0]) == sl and norm(s_.value) == '%s.lower()' % kparam for s_ in walk_no_nested(ah.node))
        ok5 = lower_ok and norm(node.value) == '(%s, %s)' % (kparam, vparam)  # type: ignore[attr-defined]
    ch.check(ok5, 'C02.5', ah, 'add_header', 'headers[key.lower()] = (key, value)', 'add_header no longer stores (original name, value) under the lower-cased name')

    # ---------------- C02.6
    pipeline_reset_check(ch, 'C02.6')
    chunk_decoder_checks(ch, 'C02.7', 'C02.7', 'C02.7')
    completion_typestate_check(ch, 'C02.8')
    ch.rule('C02.16', 'HttpParser.headers is None for a well-formed message without header fields: every use of it as an object is behind a branch that found it present, and no method asserts that it is there', 4)
    from .common import optional_field_check
    optional_field_check(ch, 'C02.16', 'HttpParser', 'self.headers', 'a request line followed directly by the empty line has no header fields and is still a request to forward')
    ch.import_rules('C10', {'C10.2': 'C02.19'}, 'a request at a later position on the connection reaches the origin only if the upstream descriptor is re-registered for writing when it is queued, i.e. if the loop\'s record of what is registered follows every register / modify')
    ch.import_rules('C11', {'C11.11': 'C02.18'}, 'a request sent over a TLS client connection is forwarded whole only if one receive covers a whole TLS record')
    ch.import_rules('C11', {'C11.9': 'C02.17'}, 'a request is forwarded however its bytes were segmented only if an incomplete TLS record on the client side means "read again", in the base handler as well as in the overriding one')
    ch.import_rules('C01', {'C01.2': 'C02.13', 'C01.3': 'C02.14'}, 'the body reaches the origin byte-identical only if the connection buffer sends exactly what was queued, also on short writes')
    opaque_relay_check(ch, 'C02.9')
    # C02.12 configured names are stored the way the filter looks them up
    fi12 = prog.method('FlagParser', 'initialize')
    comps12 = [c for c in ast.walk(fi12.node) if isinstance(c, (ast.ListComp, ast.GeneratorExp, ast.SetComp)) and 'disable_headers' in norm(c.generators[0].iter)]
    ok12 = bool(comps12) and all(any(isinstance(x, ast.Call) and isinstance(x.func, ast.Attribute) and x.func.attr in ('lower', 'casefold') for x in ast.walk(c.elt)) for c in comps12)
    reader12 = any('.lower() not in' in norm(g_) for c in ast.walk(b.node) if isinstance(c, (ast.DictComp, ast.ListComp)) for g0 in c.generators for g_ in g0.ifs) or \
        any('.lower() not in' in norm(t_) or '.lower() in' in norm(t_) for t_ in ast.walk(b.node) if isinstance(t_, ast.Compare))
    ch.check(ok12 or not reader12, 'C02.12', fi12, '--disable-headers names lower-cased', 'configured names are lower-cased, as the filter in build() expects',
             'the names given to --disable-headers are stored as %s while HttpParser.build() looks up `name.lower()`: a name written with an upper-case letter never matches and the header is '
             'forwarded to the origin' % ([norm(c.elt) for c in comps12] or 'nothing recognisable'))
    ch.import_rules('C14', {'C14.7': 'C02.10', 'C14.6': 'C02.11'}, 'the origin-form target and the Host the origin sees are those of the request only if the request target is split into authority and path at the right place')
    ch.import_rules('C04', {'C04.4': 'C02.15'}, 'a request at a later position on the connection reaches the origin as sent only if its parser is neither reused from the previous request nor dropped while half filled')


def _loop_form_headers(g: Any, p: Any, sym: Sym, hv: Optional[ast.AST], ridx: int) -> Optional[Dict[str, str]]:
    """headers built by `for k[, (name, value)] in self.headers[.items()]: ... D[name] = value` (one iteration on this path)"""
    if not isinstance(hv, (ast.Name, ast.Dict)) and hv is not None and not isinstance(hv, ast.Call):
        pass
    out: Dict[str, str] = {}
    loops = [(i, nid) for i, (nid, lab) in enumerate(p.steps) if g.nodes[nid].kind == 'for' and lab == 'iter'
             and norm(g.nodes[nid].ast.iter) in ('self.headers', 'self.headers.items()', 'self.headers.keys()')]
    if not loops:
        # zero iterations on this path: is there such a loop in the function at all?
        any_loop = any(nd.kind == 'for' and norm(nd.ast.iter) in ('self.headers', 'self.headers.items()', 'self.headers.keys()') for nd in g.nodes)
        return {} if any_loop else None
    i0, nid0 = loops[0]
    loop = g.nodes[nid0].ast
    items = norm(loop.iter).endswith('.items()')
    it = '__iter__(%s)' % norm(loop.iter)
    kname = it + '[0]' if items else it
    orig_name = ['%s[1][0]' % it, 'self.headers[%s][0]' % kname] if items else ['self.headers[%s][0]' % kname]
    orig_val = ['%s[1][1]' % it, 'self.headers[%s][1]' % kname] if items else ['self.headers[%s][1]' % kname]
    # end of this iteration = next visit of the loop node
    end = len(p.steps)
    for j in range(i0 + 1, len(p.steps)):
        if p.steps[j][0] == nid0:
            end = j
            break
    stores = []
    for j in range(i0 + 1, end):
        nd = g.nodes[p.steps[j][0]]
        if nd.kind == 'stmt' and isinstance(nd.ast, ast.Assign) and isinstance(nd.ast.targets[0], ast.Subscript) and isinstance(nd.ast.targets[0].value, ast.Name):
            stores.append((j, nd.ast))
    facts = {}
    from ..cfg import atom_key
    for j in range(i0 + 1, end):
        nd = g.nodes[p.steps[j][0]]
        if nd.kind == 'test' and p.steps[j][1] in (True, False):
            e = sym.value(nd.ast, j)
            k2, pol = atom_key(e, p.steps[j][1])
            facts[k2] = pol
    disabled = [v for k2, v in facts.items() if k2.replace(' ', '') in ('%s.lower()indisable_headers' % kname.replace(' ', ''),
                                                                      '%s.lower()inDEFAULT_DISABLE_HEADERS' % kname.replace(' ', ''))]
    if not stores:
        if not (disabled and disabled[-1] is True):
            out['filter'] = 'a header is dropped on a path that did not establish `name.lower() in disable_headers` (conditions: %s)' % list(facts.items())
        return out
    if disabled and disabled[-1] is True:
        out['filter'] = 'a disabled header is emitted'
    j, st = stores[-1]
    key = norm(sym.value(st.targets[0].slice, j))
    val = norm(sym.value(st.value, j))
    if key not in orig_name:
        out['hname'] = 'header names are rebuilt as %s, not the original spelling' % key[:70]
    if val in orig_val:
        pass
    elif val == 'host':
        host_given = facts.get('host is None') is False
        is_host = any(v is True and k2.endswith(".lower() == b'host'") for k2, v in facts.items())
        if not (host_given and is_host):
            out['hvalue'] = 'a header value is replaced by the host override on a path that did not establish `host is not None` and `<name>.lower() == b\'host\'`'
    else:
        out['hvalue'] = 'header values are rebuilt as %s, not the original value' % val[:70]
    return out
