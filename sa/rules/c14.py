"""C14 -- the proxy connects to exactly the host and port the request-target names.

Decided:
  C14.1 destination dataflow: the address handed to the socket layer derives from
        request.host / request.port only (text_ and the plugin-supplied resolve_dns override
        being the only transformations); request.host/port come from Url.hostname/Url.port;
  C14.2 bracket stripping: the socket layer unwraps a bracketed IPv6 literal before
        ip_address()/connect()/create_connection(), for every literal form (a regular expression
        used for this must admit hex digits, ':' and '.');
  C14.3 default ports: 443 for CONNECT, 80 otherwise, explicit port wins; the tunnel flag is
        set from the method before the target is parsed;
  C14.4 targets without host/port raise a protocol exception before any connect;
  C14.5 literal vs. name dispatch: only ValueError of ip_address() is swallowed, the
        fall-through resolves the very same address; v4/v6 sockets by ip.version;
  C14.6 Url._parse: the host never contains the userinfo: every returned host derives from the
        part after '@'; userinfo is split on the first ':' only.
Not decided: agreement with a reference URI parser over the grammar (IDNA, odd spellings)."""
import ast
import re
from typing import Any, Dict, List, Optional, Tuple

from ..cfg import cfg_of, ExcTypes
from ..consteval import ConstEval
from ..flow import Sym, fpaths, attr_effects, allfacts
from ..model import FuncInfo, attr_chain, norm, walk_no_nested
from ..report import Checker


def _regex_admits(pattern: Any, chars: str) -> Optional[bool]:
    """does the bracketed group of `^\\[(...)\\]$` admit each of chars?  None when the pattern has another shape"""
    try:
        import re._parser as sp  # type: ignore
    except Exception:   # pragma: no cover
        import sre_parse as sp  # type: ignore
    if isinstance(pattern, bytes):
        pattern = pattern.decode('latin-1')
    try:
        tree = sp.parse(pattern)
    except Exception:
        return None
    classes = []

    def walk(t: Any) -> None:
        for op, av in t:
            name = str(op)
            if name == 'IN':
                classes.append(av)
            elif name in ('MAX_REPEAT', 'MIN_REPEAT'):
                walk(av[2])
            elif name == 'SUBPATTERN':
                walk(av[3])
            elif name == 'ANY':
                classes.append('ANY')
            elif name == 'BRANCH':
                for b in av[1]:
                    walk(b)
    walk(tree)
    if not classes:
        return None
    for ch_ in chars:
        ok = False
        for cl in classes:
            if cl == 'ANY':
                ok = True
                break
            neg = any(str(op) == 'NEGATE' for op, av in cl)
            hit = False
            for op, av in cl:
                n = str(op)
                if n == 'LITERAL' and av == ord(ch_):
                    hit = True
                elif n == 'RANGE' and av[0] <= ord(ch_) <= av[1]:
                    hit = True
                elif n == 'CATEGORY' and 'DIGIT' in str(av) and ch_.isdigit():
                    hit = True
            if hit != neg:
                ok = True
                break
        if not ok:
            return False
    return True


def run(ch: Checker) -> None:
    prog = ch.prog
    ce = ConstEval(prog)
    ch.rule('C14.9', 'request line = exactly three tokens split from the left: on every path that accepts a request line, the target handed to set_url is token [1] of `<line>.split(SP, 2)` '
                     '(or of a full split of length 3), the method token [0] and the version token [2]; a target containing a space never ends up inside the URL', 1)
    ch.rule('C14.1', 'connect_upstream creates/acquires the upstream for (text_(request.host), request.port) and connects to that address unless a plugin resolved another IP; '
                     'TcpServerConnection.connect hands `addr or self.addr` to new_socket_connection; _set_line_attributes takes host/port from Url.hostname/Url.port', 4)
    ch.rule('C14.2', 'new_socket_connection: every path to ip_address()/connect()/create_connection() either established that the host is not bracketed or replaced it by the unbracketed text; '
                     'a regex used to unwrap admits 0-9a-fA-F : and .', 1)
    ch.rule('C14.3', '_set_line_attributes: CONNECT -> port 443 unless explicit; otherwise 80 unless explicit; _is_https_tunnel is set from method == CONNECT before set_url()', 2)
    ch.rule('C14.12', 'connect_upstream dials what the parser derived: with host and port present no `raise` of its own precedes the connection attempt (a further test of the host bytes refuses destinations the parser accepts)', 1)
    ch.rule('C14.4', 'connect_upstream raises HttpProtocolException when host or port is missing, before any connection is made', 1)
    ch.rule('C14.5', 'new_socket_connection: ValueError is the only exception swallowed around ip_address(); fall-through = socket.create_connection(<same addr>); AF_INET for version 4 else AF_INET6 '
                     'with connect((host, port, 0, 0))', 2)
    ch.rule('C14.7', 'Url.from_bytes: the authority handed to Url._parse is the text before the FIRST slash of what follows the scheme (split/partition/find from offset 0), '
                     'so nothing in the path or query can be taken for the authority', 1)
    ch.rule('C14.6', 'Url._parse: every returned host derives from the text after the userinfo (never from the raw input); userinfo is split on the first colon only', 2)

    # ---------------- C14.1
    cu = prog.own_method('HttpProxyPlugin', 'connect_upstream')
    g = cfg_of(cu, prog)
    bad = None
    n = 0
    for p in fpaths(g, limit=100000):
        ch.paths += 1
        sym = Sym(p)
        for i, n_, lab in p.executed():
            if n_.kind != 'stmt' or n_.ast is None:
                continue
            for c in walk_no_nested(n_.ast):
                if not isinstance(c, ast.Call):
                    continue
                fn = attr_chain(c.func)
                if fn == 'TcpServerConnection':
                    n += 1
                    a = [norm(sym.value(x, i)) for x in c.args]
                    if a != ['text_(self.request.host)', 'self.request.port']:
                        bad = ('the upstream connection object is created for (%s), not for the request\'s host and port' % ', '.join(a)[:90], p.describe(14))
                if fn == 'self.upstream_conn_pool.acquire':
                    n += 1
                    a = norm(sym.value(c.args[0], i)) if c.args else ''
                    if a != '(text_(self.request.host), self.request.port)':
                        bad = ('a pooled connection is acquired for %s, not for the request\'s host and port' % a[:80], p.describe(14))
                if fn == 'self.upstream.connect':
                    ad = [k.value for k in c.keywords if k.arg == 'addr']
                    av = sym.value(ad[0], i) if ad else (sym.value(c.args[0], i) if c.args else ast.Constant(value=None))
                    cands = [av.body, av.orelse] if isinstance(av, ast.IfExp) else [av]
                    for cv in cands:
                        t = norm(cv)
                        if t == 'None':
                            continue
                        okv = isinstance(cv, ast.Tuple) and len(cv.elts) == 2 and norm(cv.elts[1]) == 'self.request.port' and \
                            (norm(cv.elts[0]) == 'None' or 'resolve_dns(text_(self.request.host), self.request.port)' in norm(cv.elts[0]))
                        if not okv:
                            bad = ('connect() is directed to %s: the only accepted override of the request host is the IP returned by a plugin\'s resolve_dns hook, with the request\'s port' % t[:90], p.describe(14))
    ch.check(bad is None and n >= 2, 'C14.1', cu, 'address of the upstream', 'upstream created for (text_(request.host), request.port) on %d site-path(s)' % n, bad[0] if bad else 'creation sites not found', witness=bad[1] if bad else None)
    conn = prog.own_method('TcpServerConnection', 'connect')
    calls = [c for c in walk_no_nested(conn.node) if isinstance(c, ast.Call) and attr_chain(c.func) == 'new_socket_connection']
    # per path: the address is the override when one was given (truthy), the connection's own address otherwise
    ap_ = conn.params[1]
    gconn = cfg_of(conn, prog, exc_edges=False)
    okc = len(calls) == 1
    seen_c = 0
    for p in fpaths(gconn):
        sym = Sym(p)
        for i, st in p.stmts():
            for c in walk_no_nested(st):
                if any(c is x for x in calls) and c.args:
                    seen_c += 1
                    v = norm(sym.value(c.args[0], i))
                    given = allfacts(p, i).get(ap_)
                    if not (v == '%s or self.addr' % ap_ or (given is True and v == ap_) or (given is False and v == 'self.addr')):
                        okc = False
    okc = okc and seen_c > 0
    ch.check(bool(okc), 'C14.1', conn, 'new_socket_connection(addr or self.addr)', 'socket layer receives the override or the connection\'s own address', 'TcpServerConnection.connect hands %s to the socket layer' % [norm(c) for c in calls])
    init = prog.own_method('TcpServerConnection', '__init__')
    st = [norm(s.value) for s in walk_no_nested(init.node) if isinstance(s, (ast.Assign, ast.AnnAssign)) and attr_chain(s.targets[0] if isinstance(s, ast.Assign) else s.target) == 'self.addr']
    ch.check(st == ['(%s, %s)' % (init.params[1], init.params[2])], 'C14.1', init, 'self.addr = (host, port)', 'address stored as given', 'TcpServerConnection stores its address as %s' % st)
    sla = prog.own_method('HttpParser', '_set_line_attributes')
    gs = cfg_of(sla, prog, exc_edges=False)
    bad = None
    tbl: Dict[str, Any] = {}
    npaths = 0
    for p in fpaths(gs):
        if p.exit_kind != 'return':
            continue
        fd = allfacts(p)
        if fd.get('self.type == httpParserTypes.REQUEST_PARSER') is not True:
            continue
        npaths += 1
        sym = Sym(p)
        host = sym.attr_store('self.host', len(p.steps))
        port = sym.attr_store('self.port', len(p.steps))
        path = sym.attr_store('self.path', len(p.steps))
        ht = norm(host[1]) if host else None
        pt = norm(port[1]) if port else None
        if ht != 'self._url.hostname':
            bad = ('request.host is set to %s instead of the URL\'s hostname' % ht, p.describe())
        if path is None or norm(path[1]) != 'self._url.remainder':
            bad = ('request.path is not the URL\'s path/query remainder', p.describe())
        tunnel = fd.get('self._is_https_tunnel')
        explicit = fd.get('self._url.port is None')
        truthy = fd.get('self._url.port')
        if port is not None and isinstance(port[1], ast.IfExp) and norm(port[1].test) == 'self._url.port':
            tbl[('tunnel' if tunnel else 'plain', 'explicit')] = norm(port[1].body)
            tbl[('tunnel' if tunnel else 'plain', 'default')] = norm(port[1].orelse)
            continue
        key = ('tunnel' if tunnel else 'plain', 'explicit' if (explicit is False or truthy is True) else 'default')
        tbl[key] = pt
    want = {('tunnel', 'explicit'): 'self._url.port', ('tunnel', 'default'): '443', ('plain', 'explicit'): 'self._url.port', ('plain', 'default'): 'DEFAULT_HTTP_PORT'}
    ch.check(bad is None and npaths > 0, 'C14.1', sla, 'host/path from the URL', 'request.host = url.hostname, request.path = url.remainder', bad[0] if bad else 'no request path', witness=bad[1] if bad else None)
    d80 = ce.try_eval(sla.module, ast.parse('DEFAULT_HTTP_PORT', mode='eval').body)
    diffs = ['%s -> %s (expected %s)' % (k, tbl.get(k), v) for k, v in want.items() if tbl.get(k) != v]
    ch.check(not diffs and d80 == 80, 'C14.3', sla, 'default ports', 'CONNECT -> 443, otherwise 80, explicit port wins', 'default-port table differs: %s (DEFAULT_HTTP_PORT=%s)' % ('; '.join(diffs), d80))
    pl = prog.own_method('HttpParser', '_process_line')
    gp = cfg_of(pl, prog, exc_edges=False)
    bad = None
    n3 = 0
    for p in fpaths(gp):
        calls = [i for i, st_ in p.stmts() if any(isinstance(c, ast.Call) and attr_chain(c.func) == 'self.set_url' for c in walk_no_nested(st_))]
        if not calls:
            continue
        n3 += 1
        fd = allfacts(p, calls[0])
        is_connect = fd.get('self.method == httpMethods.CONNECT')
        sets = [i for i, st_ in p.stmts() if i < calls[0] and isinstance(st_, ast.Assign) and attr_chain(st_.targets[0]) == 'self._is_https_tunnel' and norm(st_.value) == 'True']
        if bool(sets) != bool(is_connect):
            bad = ('the tunnel flag is %s although the method %s CONNECT when the target is parsed' % ('set' if sets else 'not set', 'is' if is_connect else 'is not'), p.describe(16))
    ch.check(bad is None and n3 > 0, 'C14.3', pl, 'tunnel flag before set_url', 'tunnel detection precedes target parsing on %d path(s)' % n3, bad[0] if bad else 'set_url not reached', witness=bad[1] if bad else None)

    # ---------------- C14.4
    hpe = prog.class_named('HttpProtocolException')
    bad = None
    n4 = 0
    exc = ExcTypes(prog, cu.module)
    for p in fpaths(g, limit=100000):
        fd = allfacts(p)
        if fd.get('self.request.host') is False or fd.get('self.request.port') is False:      # by value: the locals holding them may have any name
            n4 += 1
            made = any(isinstance(c, ast.Call) and attr_chain(c.func) in ('TcpServerConnection', 'self.upstream_conn_pool.acquire') for i, st_ in p.stmts() for c in walk_no_nested(st_))
            if p.exit_kind != 'raise' or made:
                bad = ('with host or port missing connect_upstream does not raise a protocol exception before connecting', p.describe())
    # C14.12: with host and port present nothing else is asked of the destination before dialling
    bad12 = None
    n12 = 0
    for p in fpaths(g, limit=100000):
        fd = allfacts(p)
        if fd.get('self.request.host') is not True or fd.get('self.request.port') is not True:
            continue
        n12 += 1
        ex12 = p.executed()
        made_at = [i for i, nd, lab in ex12 if nd.kind == 'stmt' and nd.ast is not None and any(isinstance(c_, ast.Call) and (attr_chain(c_.func) in ('TcpServerConnection', 'self.upstream_conn_pool.acquire') or
                   (isinstance(c_.func, ast.Attribute) and c_.func.attr == 'connect')) for c_ in walk_no_nested(nd.ast))]
        first_made = made_at[0] if made_at else 10 ** 9
        for i, nd, lab in ex12:
            in_handler = any(g.nodes[nid_].kind == 'handler' for nid_, lab_ in p.steps[:i])       # a failure of the attempt itself (resolver, constructor) is reported, not a test
            if nd.kind == 'stmt' and isinstance(nd.ast, ast.Raise) and i < first_made and not in_handler:
                tests = [k for k in allfacts(p, i) if 'self.request.host' not in (k,) and 'self.request.port' not in (k,)]
                bad12 = ('connect_upstream refuses a request that has a host and a port before dialling, on a condition of its own (%s): a destination the parser accepted -- e.g. a registered name in UTF-8 -- '
                         'is never connected to' % '; '.join(tests[-2:])[:160], p.describe(14))
    ch.check(bad12 is None and n12 > 0, 'C14.12', cu, 'no second admission test', 'with host and port present every path reaches the connect (%d path(s))' % n12, bad12[0] if bad12 else 'no path with host and port', witness=bad12[1] if bad12 else None)
    ch.check(bad is None and n4 > 0, 'C14.4', cu, 'missing host/port', 'protocol exception raised on %d path(s)' % n4, bad[0] if bad else 'no such path', witness=bad[1] if bad else None)

    # ---------------- C14.2 / C14.5
    nsc = prog.function('proxy.common.utils', 'new_socket_connection')
    m = nsc.module
    gn = cfg_of(nsc, prog)
    ap = nsc.params[0]
    bad2 = bad5 = None
    n2 = 0
    fam: Dict[Any, str] = {}
    for p in fpaths(gn, limit=100000):
        ch.paths += 1
        sym = Sym(p)
        stripped = False
        how = ''
        for sidx, (nid, lab) in enumerate(p.steps):
            nd = gn.nodes[nid]
            if nd.kind == 'test' and lab in (True, False):
                t = norm(nd.ast).replace(' ', '')  # type: ignore[arg-type]
                fdb = allfacts(p, sidx + 1)
                both = ("%s[0].startswith('[') and %s[0].endswith(']')" % (ap, ap), "%s[0].endswith(']') and %s[0].startswith('[')" % (ap, ap))
                if fdb.get("%s[0].startswith('[')" % ap) is False or fdb.get("%s[0].endswith(']')" % ap) is False or any(fdb.get(b_) is False for b_ in both):
                    stripped, how = True, 'not bracketed'
                e = sym.value(nd.ast, sidx)  # type: ignore[arg-type]
                if any(isinstance(c, ast.Call) and isinstance(c.func, ast.Attribute) and c.func.attr in ('match', 'fullmatch') for c in ast.walk(e)):
                    # regex based: inspect the pattern
                    pat = None
                    for c in ast.walk(e):
                        if isinstance(c, ast.Call) and isinstance(c.func, ast.Attribute) and c.func.attr in ('match', 'fullmatch'):
                            recv = c.func.value
                            if attr_chain(recv) == 're' and c.args:
                                pat = ce.try_eval(m, c.args[0])
                            else:
                                r = prog.resolve_expr(m, recv) if isinstance(recv, (ast.Name, ast.Attribute)) else ('unknown',)
                                if r[0] == 'const' and isinstance(r[2], ast.Call) and attr_chain(r[2].func) == 're.compile' and r[2].args:
                                    pat = ce.try_eval(r[1], r[2].args[0])
                    if pat is not None:
                        adm = _regex_admits(pat, '0123456789abcdefABCDEF:.')
                        if adm is False:
                            bad2 = ('IPv6 brackets are removed with the pattern %r, which does not admit every character of an IPv6 literal (hex digits, ":" and "." for the '
                                    'dotted-quad forms such as [::ffff:192.0.2.1]): those literals reach the resolver with their brackets' % pat, p.describe(16))
                        if lab is False:
                            stripped, how = True, 'regex did not match (not a bracketed literal)'
            if nd.kind == 'stmt' and nd.ast is not None:
                for c in walk_no_nested(nd.ast):
                    if isinstance(c, ast.Call) and attr_chain(c.func) in ('ipaddress.ip_address', 'socket.create_connection') or \
                            (isinstance(c, ast.Call) and isinstance(c.func, ast.Attribute) and c.func.attr == 'connect'):
                        n2 += 1
                        # the host text THIS call is given, in terms of the address parameter as it came in
                        hv_ = sym.value(c.args[0], sidx) if c.args else None
                        if hv_ is not None and attr_chain(c.func) != 'ipaddress.ip_address':
                            hv_ = hv_.elts[0] if isinstance(hv_, ast.Tuple) and hv_.elts else ast.Subscript(value=hv_, slice=ast.Constant(value=0), ctx=ast.Load())
                        hv = norm(hv_).replace(' ', '') if hv_ is not None else ''
                        unwrapped = hv in ('%s[0][1:-1]' % ap, "%s[0].strip('[]')" % ap) or '.group(1)' in hv
                        as_given = hv == '%s[0]' % ap
                        if not (unwrapped or (as_given and stripped)):
                            bad2 = bad2 or ('%s is reached with the host as it came out of the URL: a bracketed IPv6 literal ("[::1]") is not a valid address for the socket layer '
                                            '(name resolution error, 502)' % norm(c)[:60], p.describe(16))
                        # C14.5 facts
                        if attr_chain(c.func) == 'socket.create_connection':
                            a0 = norm(c.args[0]) if c.args else ''
                            if a0 != ap:
                                bad5 = ('the fall-through resolves %s instead of the address it was given' % a0, p.describe(16))
                        if isinstance(c.func, ast.Attribute) and c.func.attr == 'connect' and attr_chain(c.func) != 'socket.create_connection':
                            v4 = allfacts(p, sidx).get('ip.version == 4')
                            a0 = norm(sym.value(c.args[0], sidx)).replace(' ', '') if c.args else ''
                            want4 = norm(sym.value(ast.Name(id=ap, ctx=ast.Load()), sidx)).replace(' ', '')
                            want6 = norm(sym.value(ast.parse('(%s[0], %s[1], 0, 0)' % (ap, ap), mode='eval').body, sidx)).replace(' ', '')
                            sock = [norm(sym.value(s_.value, j)) for j, s_ in p.stmts() if j < sidx and isinstance(s_, ast.Assign) and norm(s_.targets[0]) == norm(c.func.value)]
                            famt = 'AF_INET6' if sock and 'AF_INET6' in sock[-1] else 'AF_INET'
                            if v4 is True and not (famt == 'AF_INET' and a0 == want4):
                                bad5 = ('IPv4 literal: socket family %s, connect(%s)' % (famt, a0), p.describe(16))
                            if v4 is False and not (famt == 'AF_INET6' and a0 == want6):
                                bad5 = ('IPv6 literal: socket family %s, connect(%s)' % (famt, a0), p.describe(16))
    ch.check(bad2 is None and n2 > 0, 'C14.2', nsc, 'brackets removed before the socket layer', 'every sink is reached with an unbracketed host (%d sink-path(s))' % n2,
             bad2[0] if bad2 else 'no sink found', witness=bad2[1] if bad2 else None)
    handlers = [h for t in walk_no_nested(nsc.node) if isinstance(t, ast.Try) for h in t.handlers]
    hts = [norm(h.type) if h.type is not None else 'bare' for h in handlers]
    ch.check(hts == ['ValueError'], 'C14.5', nsc, 'only ValueError swallowed', 'only "not an IP literal" is swallowed', 'new_socket_connection swallows %s: a failed connect to a literal address falls through to name resolution' % hts)
    ch.check(bad5 is None, 'C14.5', nsc, 'family / fall-through', 'v4/v6 sockets by ip.version; fall-through resolves the same address', bad5[0] if bad5 else '', witness=bad5[1] if bad5 else None)

    # ---------------- C14.9 request-line tokens
    pl9 = prog.own_method('HttpParser', '_process_line')
    g9 = cfg_of(pl9, prog, exc_edges=False)
    bad9 = None
    n9 = 0
    for p in fpaths(g9):
        ch.paths += 1
        sym = Sym(p)
        for i, st in p.stmts():
            for c in walk_no_nested(st):
                if isinstance(c, ast.Call) and attr_chain(c.func) == 'self.set_url' and c.args:
                    n9 += 1
                    v = sym.value(c.args[0], i)
                    okv = isinstance(v, ast.Subscript) and ce.try_eval(pl9.module, v.slice) == 1 and isinstance(v.value, ast.Call) and isinstance(v.value.func, ast.Attribute) \
                        and v.value.func.attr == 'split' and (not v.value.args or ce.try_eval(pl9.module, v.value.args[0]) == b' ') \
                        and (len(v.value.args) < 2 or ce.try_eval(pl9.module, v.value.args[1]) == 2)
                    if okv:
                        # the accepting path must have established that there are exactly three tokens
                        fd = allfacts(p, i)
                        three = any(val is True and k.replace(' ', '').startswith('len(') and k.replace(' ', '').endswith('==3') and '.split(' in k for k, val in fd.items())
                        if not three:
                            bad9 = ('the request target is taken from %s without the line having been checked to consist of three tokens' % norm(v)[:60], p.describe(16))
                    else:
                        bad9 = ('the request target handed to set_url is %s, not token [1] of a left-to-right three-way split of the request line: with partition/rpartition (or a split from the '
                                'right) everything between the first and the last space -- spaces included -- becomes the target, so a damaged line such as `GET http://a @b/ HTTP/1.1` is '
                                'accepted and routed to `b` instead of being rejected' % norm(v)[:70], p.describe(16))
    ch.check(bad9 is None and n9 > 0, 'C14.9', pl9, 'request line tokens', 'target = token [1] of a checked three-way split (%d path(s))' % n9, bad9[0] if bad9 else 'set_url is never called', witness=bad9[1] if bad9 else None)

    # ---------------- C14.7
    _authority_split(ch, ce)

    # ---------------- C14.6
    up = prog.own_method('Url', '_parse')
    gu = cfg_of(up, prog)
    rawp = up.params[0]
    bad = None
    n6 = 0
    for p in fpaths(gu):
        if p.exit_kind != 'return':
            continue
        sym = Sym(p)
        last = p.stmts()[-1]
        rv6 = sym.value(last[1].value, last[0]) if isinstance(last[1], ast.Return) and last[1].value is not None else None     # by value: a named result is read through
        if not (isinstance(rv6, ast.Tuple) and len(rv6.elts) == 4):
            continue
        n6 += 1
        hv = rv6.elts[2]
        # every occurrence of the raw parameter inside the host expression must be under  raw.split(AT, 1)[-1]  (the part after the userinfo)
        ok_nodes = set()
        for x in ast.walk(hv):
            if isinstance(x, ast.Subscript) and isinstance(x.value, ast.Call) and isinstance(x.value.func, ast.Attribute) and x.value.func.attr in ('split', 'rsplit', 'rpartition', 'partition') \
                    and x.value.args and ce.try_eval(up.module, x.value.args[0]) == b'@' and norm(x.slice) in ('-1', '2'):
                for y in ast.walk(x):
                    ok_nodes.add(id(y))
        leaks = [x for x in ast.walk(hv) if isinstance(x, ast.Name) and x.id == rawp and id(x) not in ok_nodes]
        if leaks:
            bad = ('the host returned by Url._parse is computed from the whole authority (%s) instead of the part after the userinfo: "user:secret@[::1]:8080" yields a host that '
                   'contains the credentials' % norm(hv)[:90], p.describe(16))
    ch.check(bad is None and n6 > 0, 'C14.6', up, 'host excludes userinfo', 'every returned host derives from the text after "@" (%d return path(s))' % n6, bad[0] if bad else 'no return found', witness=bad[1] if bad else None)
    # the userinfo split: a split / partition on ':' whose receiver is, by value, part [0] of an '@'-split of the raw authority (whatever the locals are called)
    def _is_at_part0(e: ast.AST) -> bool:
        return isinstance(e, ast.Subscript) and norm(e.slice) == '0' and isinstance(e.value, ast.Call) and isinstance(e.value.func, ast.Attribute) and \
            e.value.func.attr in ('split', 'rsplit', 'partition', 'rpartition') and bool(e.value.args) and ce.try_eval(up.module, e.value.args[0]) == b'@' and \
            any(isinstance(y, ast.Name) and y.id == rawp for y in ast.walk(e.value.func.value))
    usplit_d: Dict[int, ast.Call] = {}
    for p in fpaths(cfg_of(up, prog, exc_edges=False)):
        sym = Sym(p)
        for i, nd, lab in p.executed():
            if nd.ast is None or nd.kind not in ('stmt', 'test'):
                continue
            for c_ in walk_no_nested(nd.ast):
                if isinstance(c_, ast.Call) and isinstance(c_.func, ast.Attribute) and c_.func.attr in ('split', 'rsplit', 'partition', 'rpartition') and c_.args and \
                        ce.try_eval(up.module, c_.args[0]) == b':' and _is_at_part0(sym.value(c_.func.value, i)):
                    usplit_d[id(c_)] = c_
    usplit = list(usplit_d.values())
    oku = len(usplit) == 1 and ((usplit[0].func.attr == 'split' and len(usplit[0].args) == 2 and ce.try_eval(up.module, usplit[0].args[1]) == 1) or usplit[0].func.attr == 'partition')  # type: ignore[attr-defined]
    ch.check(oku, 'C14.6', up, 'userinfo split', 'userinfo split on the first colon only', 'userinfo is split with %s: a missing password or a colon inside the password makes a valid target unparseable' % [norm(c) for c in usplit])
    # ---------------- C14.8 (shared)
    ch.rule('C14.11', 'the destination is derived from this request\'s own target: Url / HttpParser objects are mutable, so the functions that build them are not memoised (expected 0 sites)', 1)
    from .common import memoised_objects_check
    memoised_objects_check(ch, 'C14.11', ('Url', 'HttpParser', 'ChunkParser', 'WebsocketFrame'))
    ch.rule('C14.13', 'who may write the destination: the host / port a request names are derived by HttpParser from its request line and written nowhere else -- no plugin or handler stores into <request>.host / .port / ._url '
                      '(the rebuild and the connect both read them) (expected 0 sites)', 1)
    n13 = 0
    for fn13 in prog.all_functions('proxy', include_inlined=True):
        if fn13.module.name.startswith('proxy.testing') or (fn13.cls is not None and fn13.cls.name == 'HttpParser'):
            continue
        for st13 in walk_no_nested(fn13.node):
            tgs13 = st13.targets if isinstance(st13, ast.Assign) else ([st13.target] if isinstance(st13, (ast.AugAssign, ast.AnnAssign)) else [])
            flat13 = [y for t_ in tgs13 for y in (t_.elts if isinstance(t_, (ast.Tuple, ast.List)) else [t_])]
            for t_ in flat13:
                if isinstance(t_, ast.Attribute) and t_.attr in ('host', 'port', '_url') and (attr_chain(t_.value) or '').split('.')[-1] in ('request', 'pipeline_request', 'req'):
                    n13 += 1
                    ch.bad('C14.13', fn13, st13, '%s stores into %s: the connection is opened to, and the request line rebuilt from, these fields -- once something other than the request line feeds them '
                           '(a Host header, a default) the origin is dialled at, or told, a destination the client did not name' % (fn13.qualname, norm(t_)))
    if n13 == 0:
        ch.ok('C14.13', None, 'destination fields', 'nothing outside HttpParser stores into <request>.host / .port / ._url', module_rel='proxy/')
    ch.rule('C14.14', 'TcpServerConnection.connect dials the address it is given: no `raise` of its own precedes new_socket_connection (a range test there refuses ports the parser accepted)', 1)
    tsc = prog.own_method('TcpServerConnection', 'connect')
    g14 = cfg_of(tsc, prog, exc_edges=False)
    bad14 = None
    n14 = 0
    for p in fpaths(g14):
        ex14 = p.executed()
        dial = [i_ for i_, nd_, lab_ in ex14 if nd_.kind == 'stmt' and nd_.ast is not None and any(isinstance(c_, ast.Call) and (attr_chain(c_.func) or '').split('.')[-1] in ('new_socket_connection', 'create_connection', 'connect') for c_ in walk_no_nested(nd_.ast))]
        n14 += 1
        first = dial[0] if dial else 10 ** 9
        for i_, nd_, lab_ in ex14:
            if nd_.kind == 'stmt' and isinstance(nd_.ast, ast.Raise) and i_ < first:
                bad14 = ('TcpServerConnection.connect raises (%s) before dialling, on a test of its own: %s' % (norm(nd_.ast)[:60], '; '.join('%s=%s' % kv for kv in list(allfacts(p, i_).items())[-2:])[:120]), p.describe())
    ch.check(bad14 is None and n14 > 0, 'C14.14', tsc, 'no admission test before dialling', 'every path hands the address to the socket layer (%d path(s))' % n14, bad14[0] if bad14 else 'no path', witness=bad14[1] if bad14 else None)
    ch.import_rules('C02', {'C02.2': 'C14.8'}, 'the path the origin receives is the request target\'s path, unedited')
    ch.import_rules('C04', {'C04.4': 'C14.10'}, 'the request line forwarded for a later request is that request\'s own only if the follow-up parser is fresh for each request')


def _authority_split(ch: Checker, ce: ConstEval) -> None:
    prog = ch.prog
    fb = prog.own_method('Url', 'from_bytes')
    m = fb.module
    g = cfg_of(fb, prog, exc_edges=False)
    good = 0
    bad = None
    undec = None

    def is_slash(e: ast.AST) -> bool:
        return ce.try_eval(m, e) == b'/'

    def offending_search(e: ast.AST) -> Optional[str]:
        """a search for the slash that does not start at offset 0 / runs from the right, anywhere inside e"""
        for c in ast.walk(e):
            if isinstance(c, ast.Call) and isinstance(c.func, ast.Attribute) and c.args and is_slash(c.args[0]):
                if c.func.attr in ('rfind', 'rindex', 'rsplit', 'rpartition'):
                    return norm(c)
                if c.func.attr in ('find', 'index') and len(c.args) >= 2 and ce.try_eval(m, c.args[1]) != 0:
                    return norm(c)
            # the authority must not be located relative to an "@": splitting off the userinfo is Url._parse's job, and an "@" may sit in the path or query
            if isinstance(c, ast.Call) and isinstance(c.func, ast.Attribute) and c.args and ce.try_eval(m, c.args[0]) == b'@' \
                    and c.func.attr in ('split', 'rsplit', 'partition', 'rpartition', 'find', 'rfind', 'index', 'rindex'):
                return norm(c)
            if isinstance(c, ast.Call) and attr_chain(c.func) == '__updated__':
                return 'an item store into the split result (%s)' % norm(c)[:60]
        return None

    for p in fpaths(g):
        ch.paths += 1
        if p.exit_kind != 'return':
            continue
        sym = Sym(p, item_stores=True)
        fd = allfacts(p)
        for i, st in p.stmts():
            for c in walk_no_nested(st):
                if not (isinstance(c, ast.Call) and attr_chain(c.func) in ('Url._parse', 'cls._parse') and c.args):
                    continue
                x = sym.value(c.args[0], i)
                if isinstance(x, ast.Name):
                    continue            # authority-form / no scheme: the whole input is the authority (CONNECT host:port)
                off = offending_search(x)
                for k, v in allfacts(p, i).items():
                    try:
                        off = off or offending_search(ast.parse(k, mode='eval').body)
                    except SyntaxError:
                        pass
                if off:
                    bad = ('the authority is cut out with %s -- not simply the text before the first "/" after the scheme: a "/" or "@" inside the path or query '
                           'moves the cut, and text from the path/query is parsed as the destination host' % off, p.describe(20))
                    continue
                ok = False
                if isinstance(x, ast.Subscript) and not isinstance(x.slice, ast.Slice) and ce.try_eval(m, x.slice) == 0 and isinstance(x.value, ast.Call) \
                        and isinstance(x.value.func, ast.Attribute) and x.value.func.attr in ('split', 'partition') and x.value.args and is_slash(x.value.args[0]):
                    ok = True
                elif isinstance(x, ast.Subscript) and isinstance(x.slice, ast.Slice) and x.slice.lower is None and isinstance(x.slice.upper, ast.Call) \
                        and isinstance(x.slice.upper.func, ast.Attribute) and x.slice.upper.func.attr in ('find', 'index') and norm(x.slice.upper.func.value) == norm(x.value) \
                        and x.slice.upper.args and is_slash(x.slice.upper.args[0]):
                    ok = True
                elif any(v is True and kk.replace(' ', '').endswith('.find(SLASH)==-1') for kk, v in fd.items()) or any(v is False and kk.replace(' ', '').startswith('SLASHin') for kk, v in fd.items()):
                    ok = True
                if ok:
                    good += 1
                else:
                    undec = norm(x)[:80]
    if bad:
        ch.bad('C14.7', fb, 'authority split', bad[0], witness=bad[1])
    elif good and not undec:
        ch.ok('C14.7', fb, 'authority split', 'the authority is the text before the first "/" on %d path(s)' % good)
    else:
        ch.skip('C14.7', fb, 'authority split', 'how the authority is separated from the path (%s) is not one of the recognised forms; not decided' % undec)
