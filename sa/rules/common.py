"""Helpers shared by several rule sets."""
import ast
from typing import Any, Callable, Dict, Iterator, List, Optional, Set, Tuple

from ..cfg import ExcTypes
from ..flow import attr_effects, enclosing_handlers
from ..model import ClassInfo, FuncInfo, Program, attr_chain, norm, walk_no_nested


def hierarchy_functions(prog: Program, root: ClassInfo) -> List[FuncInfo]:
    """methods defined by root and by every subclass of root"""
    out: List[FuncInfo] = []
    for c in [root] + prog.subclasses(root):
        out.extend(c.methods.values())
    return out


def self_calls(fn: FuncInfo) -> List[Tuple[ast.Call, str]]:
    """(call node, method name) for every `self.m(...)` in fn"""
    out = []
    for n in walk_no_nested(fn.node):
        if isinstance(n, ast.Call) and isinstance(n.func, ast.Attribute) and isinstance(n.func.value, ast.Name) \
                and n.func.value.id == 'self':
            out.append((n, n.func.attr))
    return out


def implementations(prog: Program, root: ClassInfo, name: str) -> List[FuncInfo]:
    out = []
    for c in [root] + prog.subclasses(root):
        if name in c.methods:
            out.append(c.methods[name])
    if not out:
        f = prog.lookup_method(root, name)
        if f is not None:
            out.append(f)
    return out


def is_awaited(fn: FuncInfo, call: ast.Call) -> bool:
    for n in walk_no_nested(fn.node):
        if isinstance(n, ast.Await) and n.value is call:
            return True
    return False


def handler_reraises(h: ast.ExceptHandler) -> bool:
    return any(isinstance(n, ast.Raise) for s in h.body for n in walk_no_nested(s))


def contained_locally(fn: FuncInfo, node: ast.AST, exc: ExcTypes, needed: Tuple[type, ...]) -> Optional[ast.ExceptHandler]:
    """The innermost try *body* enclosing `node` in fn whose handlers together catch every
    class in `needed` without re-raising; returns one of the covering handlers, else None."""
    for t, in_body in enclosing_handlers(fn.node, node):
        if not in_body:
            continue
        covered = []
        for need in needed:
            hit = None
            for h in t.handlers:
                if exc.handler_catches(h, need) is True:
                    hit = h
                    break
            covered.append(hit)
        if all(c is not None for c in covered) and not any(handler_reraises(c) for c in covered if c is not None):
            return covered[0]
    return None


def mutation_summary(prog: Program, funcs: List[FuncInfo], root: ClassInfo, chain: str) -> Dict[str, List[str]]:
    """method name -> reasons why calling it may change the size of `chain` (e.g. 'self.works'),
    transitively through self-calls within funcs."""
    direct: Dict[str, List[str]] = {}
    for f in funcs:
        for ch_, kind, node in attr_effects(f.node):
            if ch_ == chain and kind in ('delitem', 'item', 'store', 'call:pop', 'call:clear', 'call:remove', 'call:popitem',
                                        'call:append', 'call:insert', 'call:add', 'call:discard', 'call:update', 'call:setdefault', 'call:extend'):
                direct.setdefault(f.name, []).append('%s in %s' % (norm(node)[:60], f.qualname))
    changed = True
    summ = {k: list(v) for k, v in direct.items()}
    while changed:
        changed = False
        for f in funcs:
            for call, name in self_calls(f):
                if name in summ and f.name not in summ:
                    summ[f.name] = ['calls %s' % name]
                    changed = True
    return summ


def iteration_mutations(prog: Program, funcs: List[FuncInfo], root: ClassInfo, chain: str) -> Iterator[Tuple[FuncInfo, ast.AST, ast.AST, str]]:
    """Yield (function, loop, offending node, reason) for every loop that iterates `chain` directly
    (not a copy) and whose body can change its size."""
    summ = mutation_summary(prog, funcs, root, chain)
    for f in funcs:
        for loop in walk_no_nested(f.node):
            if isinstance(loop, (ast.For, ast.AsyncFor)):
                it = loop.iter
                base = it
                if isinstance(it, ast.Call) and isinstance(it.func, ast.Attribute) and it.func.attr in ('items', 'keys', 'values') and not it.args:
                    base = it.func.value
                if attr_chain(base) != chain:
                    continue
                hit = False
                for s in loop.body:
                    for ch_, kind, node in attr_effects(s):
                        if ch_ == chain and kind not in ('augitem',) and not (kind == 'item' and False):
                            if kind in ('item',):
                                # self.x[k] = v for an existing key does not change the size; flag only deletes/inserting calls
                                continue
                            hit = True
                            yield f, loop, node, 'the loop body changes the container being iterated: %s' % norm(node)[:70]
                    for n in walk_no_nested(s):
                        if isinstance(n, ast.Call) and isinstance(n.func, ast.Attribute) and isinstance(n.func.value, ast.Name) \
                                and n.func.value.id == 'self' and n.func.attr in summ:
                            hit = True
                            yield f, loop, n, 'the loop body calls %s, which changes the container (%s)' % (n.func.attr, summ[n.func.attr][0])
                if not hit:
                    yield f, loop, loop, ''
