"""Helpers shared by several rule sets."""
import ast
from typing import Any, Callable, Dict, Iterator, List, Optional, Set, Tuple

from ..cfg import ExcTypes, cfg_of
from ..flow import attr_effects, enclosing_handlers, allfacts, fpaths
from ..model import ClassInfo, FuncInfo, Program, attr_chain, norm, walk_no_nested


def hierarchy_functions(prog: Program, root: ClassInfo) -> List[FuncInfo]:
    """methods defined by root and by every subclass of root"""
    out: List[FuncInfo] = []
    for c in [root] + prog.subclasses(root):
        out.extend(c.methods.values())
    return out


def self_calls(fn: FuncInfo) -> List[Tuple[ast.Call, str]]:
    """(call node, method name) for every `self.m(...)` in fn"""
    out = []
    for n in walk_no_nested(fn.node):
        if isinstance(n, ast.Call) and isinstance(n.func, ast.Attribute) and isinstance(n.func.value, ast.Name) \
                and n.func.value.id == 'self':
            out.append((n, n.func.attr))
    return out


def implementations(prog: Program, root: ClassInfo, name: str) -> List[FuncInfo]:
    out = []
    for c in [root] + prog.subclasses(root):
        if name in c.methods:
            out.append(c.methods[name])
    if not out:
        f = prog.lookup_method(root, name)
        if f is not None:
            out.append(f)
    return out


def is_awaited(fn: FuncInfo, call: ast.Call) -> bool:
    for n in walk_no_nested(fn.node):
        if isinstance(n, ast.Await) and n.value is call:
            return True
    return False


def handler_reraises(h: ast.ExceptHandler) -> bool:
    return any(isinstance(n, ast.Raise) for s in h.body for n in walk_no_nested(s))


def contained_locally(fn: FuncInfo, node: ast.AST, exc: ExcTypes, needed: Tuple[type, ...]) -> Optional[ast.ExceptHandler]:
    """The innermost try *body* enclosing `node` in fn whose handlers together catch every
    class in `needed` without re-raising; returns one of the covering handlers, else None."""
    for t, in_body in enclosing_handlers(fn.node, node):
        if not in_body:
            continue
        covered = []
        for need in needed:
            hit = None
            for h in t.handlers:
                if exc.handler_catches(h, need) is True:
                    hit = h
                    break
            covered.append(hit)
        if all(c is not None for c in covered) and not any(handler_reraises(c) for c in covered if c is not None):
            return covered[0]
    return None


def mutation_summary(prog: Program, funcs: List[FuncInfo], root: ClassInfo, chain: str) -> Dict[str, List[str]]:
    """method name -> reasons why calling it may change the size of `chain` (e.g. 'self.works'),
    transitively through self-calls within funcs."""
    direct: Dict[str, List[str]] = {}
    for f in funcs:
        for ch_, kind, node in attr_effects(f.node):
            if ch_ == chain and kind in ('delitem', 'item', 'store', 'call:pop', 'call:clear', 'call:remove', 'call:popitem',
                                        'call:append', 'call:insert', 'call:add', 'call:discard', 'call:update', 'call:setdefault', 'call:extend'):
                direct.setdefault(f.name, []).append('%s in %s' % (norm(node)[:60], f.qualname))
    changed = True
    summ = {k: list(v) for k, v in direct.items()}
    while changed:
        changed = False
        for f in funcs:
            for call, name in self_calls(f):
                if name in summ and f.name not in summ:
                    summ[f.name] = ['calls %s' % name]
                    changed = True
    return summ


def dict_iter(target: ast.AST, it: ast.AST, chain: str) -> Optional[Dict[str, Any]]:
    """How `for target in it` walks the mapping `chain`:
    {'key': name|None, 'value': name|None, 'snapshot': bool} for it = chain | chain.keys() | chain.items() | chain.values(),
    each optionally wrapped in list()/tuple()/sorted() (snapshot); None when `it` is not an iteration of chain."""
    snapshot = False
    while isinstance(it, ast.Call) and attr_chain(it.func) in ('list', 'tuple', 'sorted') and len(it.args) == 1 and not it.keywords:
        it = it.args[0]
        snapshot = True
    view = 'keys'
    if isinstance(it, ast.Call) and isinstance(it.func, ast.Attribute) and it.func.attr in ('items', 'keys', 'values') and not it.args:
        view = it.func.attr
        it = it.func.value
    if attr_chain(it) != chain:
        return None
    key = value = None
    value_elts: Optional[List[Optional[str]]] = None        # the value unpacked in the target: for k, (a, b) in d.items()
    vt: Optional[ast.AST] = None
    if view == 'keys' and isinstance(target, ast.Name):
        key = target.id
    elif view == 'values':
        vt = target
    elif view == 'items' and isinstance(target, ast.Tuple) and len(target.elts) == 2:
        key = target.elts[0].id if isinstance(target.elts[0], ast.Name) else None
        vt = target.elts[1]
    if isinstance(vt, ast.Name):
        value = vt.id
    elif isinstance(vt, (ast.Tuple, ast.List)):
        value_elts = [e.id if isinstance(e, ast.Name) else None for e in vt.elts]
    return {'key': key, 'value': value, 'value_elts': value_elts, 'snapshot': snapshot, 'view': view}


def iteration_mutations(prog: Program, funcs: List[FuncInfo], root: ClassInfo, chain: str) -> Iterator[Tuple[FuncInfo, ast.AST, ast.AST, str]]:
    """Yield (function, loop, offending node, reason) for every loop that iterates `chain` directly
    (not a copy) and whose body can change its size."""
    summ = mutation_summary(prog, funcs, root, chain)
    for f in funcs:
        for loop in walk_no_nested(f.node):
            if isinstance(loop, (ast.For, ast.AsyncFor)):
                it = loop.iter
                base = it
                if isinstance(it, ast.Call) and isinstance(it.func, ast.Attribute) and it.func.attr in ('items', 'keys', 'values') and not it.args:
                    base = it.func.value
                if attr_chain(base) != chain:
                    continue
                hit = False
                for s in loop.body:
                    for ch_, kind, node in attr_effects(s):
                        if ch_ == chain and kind not in ('augitem',) and not (kind == 'item' and False):
                            if kind in ('item',):
                                # self.x[k] = v for an existing key does not change the size; flag only deletes/inserting calls
                                continue
                            hit = True
                            yield f, loop, node, 'the loop body changes the container being iterated: %s' % norm(node)[:70]
                    for n in walk_no_nested(s):
                        if isinstance(n, ast.Call) and isinstance(n.func, ast.Attribute) and isinstance(n.func.value, ast.Name) \
                                and n.func.value.id == 'self' and n.func.attr in summ:
                            hit = True
                            yield f, loop, n, 'the loop body calls %s, which changes the container (%s)' % (n.func.attr, summ[n.func.attr][0])
                if not hit:
                    yield f, loop, loop, ''


# ----------------------------------------------------------------------------------------
# must-attempt: a statement that has to be reached on every path, exceptional ones included
PURE_LAST = ('debug', 'info', 'warning', 'error', 'exception', 'log', 'isinstance', 'len', 'has_buffer', '_encryption_enabled',
             'format', 'format_map', 'str', 'int', 'bool', 'time', 'has_header', 'is_set', 'values', 'items', 'keys', 'get',
             'text_', 'bytes_', 'lower', 'upper', 'strip', 'update', 'append', 'extend', 'getpid', 'cast')


def raise_capable(node: ast.AST, extra_pure: Tuple[str, ...] = ()) -> bool:
    """can this statement realistically raise?  (I/O, foreign or plugin calls, awaits, the `.connection` property
    that raises TcpConnectionUninitializedException) -- logging and pure accessors are not counted"""
    for n in walk_no_nested(node):
        if isinstance(n, ast.Await):
            return True
        if isinstance(n, ast.Call):
            fn = attr_chain(n.func)
            last = fn.split('.')[-1] if fn else None
            if last is None or (last not in PURE_LAST and last not in extra_pure):
                return True
        if isinstance(n, ast.Attribute) and n.attr == 'connection' and isinstance(n.ctx, ast.Load):
            return True
    return False


def must_attempt(cfg: Any, is_target: Callable[[ast.AST], bool], relevant: Callable[[Any], bool],
                 extra_pure: Tuple[str, ...] = (), allowed_raisers: Tuple[str, ...] = (),
                 exc_source: Optional[Callable[[ast.AST], bool]] = None) -> Tuple[int, Optional[Tuple[str, List[str]]]]:
    """Every feasible path (exception edges included) for which relevant(path) holds must execute
    or at least attempt a statement satisfying is_target.  Exception edges are only followed out of
    statements that are raise_capable and whose calls are not all in allowed_raisers.
    -> (number of relevant paths, first counter-example or None)"""
    from ..flow import feasible
    n = 0
    for p in cfg.paths(limit=100000):
        ok_path = True
        for nid, lab in p.steps:
            if lab == 'exc':
                node = cfg.nodes[nid]
                a = node.ast if node.kind != 'for' else node.ast.iter
                if node.kind == 'with':
                    a = ast.Module(body=[ast.Expr(value=it.context_expr) for it in node.ast.items], type_ignores=[])
                if not raise_capable(a, extra_pure) or (exc_source is not None and not exc_source(a)):
                    ok_path = False
                    break
                names = [(attr_chain(c.func) or '') for c in walk_no_nested(a) if isinstance(c, ast.Call)]
                if names and all(nm in allowed_raisers for nm in names if nm.split('.')[-1] not in PURE_LAST):
                    ok_path = False
                    break
        if not ok_path or not feasible(p) or not relevant(p):
            continue
        # a failing assertion is a programming-error exit, not a behaviour of the connection
        if any(cfg.nodes[nid].kind == 'stmt' and isinstance(cfg.nodes[nid].ast, ast.Assert) for nid, lab in p.steps):
            continue
        n += 1
        hit = False
        for idx, node, lab in p.executed():
            if node.ast is not None and node.kind in ('stmt', 'test') and is_target(node.ast):
                hit = True
                break
        if not hit:
            raiser = [norm(cfg.nodes[nid].ast)[:60] for nid, lab in p.steps if lab == 'exc']
            return n, ('exception in `%s`' % raiser[0] if raiser else 'normal path', p.describe(24))
    return n, None


def shutdown_hook_check(ch: Any, rule: str) -> None:
    """HttpProtocolHandler.shutdown attempts plugin.on_client_connection_close on every path, exception edges included"""
    from ..cfg import cfg_of
    prog = ch.prog
    sd = prog.own_method('HttpProtocolHandler', 'shutdown')
    gsd = cfg_of(sd, prog)
    n, cex = must_attempt(gsd, lambda a: any(isinstance(c, ast.Call) and attr_chain(c.func) == 'self.plugin.on_client_connection_close' for c in walk_no_nested(a)),
                          lambda p: allfacts(p).get('self.plugin') is not False,
                          allowed_raisers=('self._flush',))
    ch.check(cex is None and n > 0, rule, sd, 'plugin.on_client_connection_close()',
             'attempted on all %d path(s) (exception edges included; self._flush() exempt: it handles BrokenPipeError itself and no other OSError could be provoked)' % n,
             'the connection-close hook of the protocol plugin (access log, on_upstream_connection_close, upstream close / pool release) is skipped when %s: the enclosing handler swallows the error '
             'and the hook never runs' % (cex[0] if cex else '?'), witness=cex[1] if cex else None)


def idle_predicate_check(ch: Any, rule: str) -> None:
    """HttpProtocolHandler.is_inactive may report idle only with an empty client buffer"""
    from ..cfg import cfg_of
    from ..flow import Sym, fpaths
    prog = ch.prog
    HASBUF = 'self.work.has_buffer()'
    ia = prog.own_method('HttpProtocolHandler', 'is_inactive')
    gi = cfg_of(ia, prog)
    bad4 = None
    n4 = 0
    for p in fpaths(gi):
        if p.exit_kind != 'return':
            continue
        last = p.stmts()[-1]
        if isinstance(last[1], ast.Return) and last[1].value is not None:
            v = Sym(p).value(last[1].value, last[0])
            if isinstance(v, ast.Constant) and not v.value:
                continue
            n4 += 1
            if isinstance(v, ast.Constant) and v.value is True:
                if allfacts(p).get(HASBUF) is not False:
                    bad4 = ('is_inactive() reports an idle connection without requiring an empty client buffer: the reaper closes connections with undelivered output', p.describe())
            else:
                # boolean expression: must contain `not has_buffer()` as a conjunct
                txt = norm(v).replace(' ', '')
                if 'notself.work.has_buffer()and' not in txt and not txt.endswith('andnotself.work.has_buffer()'):
                    bad4 = ('is_inactive() returns %s, which does not require an empty client buffer' % norm(v)[:80], p.describe())
    ch.check(bad4 is None and n4 >= 1, rule, ia, 'idle predicate', 'idle only with an empty buffer', bad4[0] if bad4 else 'is_inactive never returns True', witness=bad4[1] if bad4 else None)


# ----------------------------------------------------------------------------------------
# freshness of per-response header maps
def _alternatives(e: ast.AST) -> List[ast.AST]:
    """the expressions e may evaluate to through `or` / `and` / conditional expressions"""
    if isinstance(e, ast.BoolOp):
        out: List[ast.AST] = []
        for v in e.values:
            out.extend(_alternatives(v))
        return out
    if isinstance(e, ast.IfExp):
        return _alternatives(e.body) + _alternatives(e.orelse)
    return [e]


def shared_mutable(prog: Program, fn: FuncInfo, e: ast.AST) -> Optional[str]:
    """e names a mutable container that outlives the call: a module-level binding (possibly imported) or a class attribute
    whose value is a dict/list/set display or constructor call, or the result of a memoised (lru_cache / cache) function.
    -> description or None"""
    if isinstance(e, ast.Call):
        callee = None
        f = e.func
        if isinstance(f, ast.Name):
            r0 = prog.resolve(fn.module, f.id)
            callee = r0[1] if r0[0] == 'func' else None
        elif isinstance(f, ast.Attribute) and isinstance(f.value, ast.Name):
            if f.value.id in ('self', 'cls') and fn.cls is not None:
                callee = prog.lookup_method(fn.cls, f.attr)
            else:
                r0 = prog.resolve_expr(fn.module, f)
                callee = r0[1] if r0[0] == 'func' else None
        if callee is not None:
            for d in getattr(callee, 'orig_node', callee.node).decorator_list:
                dn = attr_chain(d.func if isinstance(d, ast.Call) else d) or ''
                if dn.split('.')[-1] in ('lru_cache', 'cache', 'cached_property', 'memoize'):
                    return 'the result of %s(), which is memoised by @%s (every call returns the same object)' % (norm(f), dn)
        return None
    if isinstance(e, ast.Name) and e.id not in fn.params:
        r = prog.resolve(fn.module, e.id)
    elif isinstance(e, ast.Attribute) and isinstance(e.value, ast.Name) and e.value.id in ('self', 'cls') and fn.cls is not None:
        v = prog.lookup_class_attr(fn.cls, e.attr)
        r = ('const', v[0].module, v[1]) if v is not None else ('unknown',)
    elif isinstance(e, ast.Attribute):
        r = prog.resolve_expr(fn.module, e)
    else:
        return None
    if r[0] == 'const':
        v = r[2]
        if isinstance(v, (ast.Dict, ast.List, ast.Set, ast.DictComp, ast.ListComp, ast.SetComp)) or \
                (isinstance(v, ast.Call) and attr_chain(v.func) in ('dict', 'list', 'set', 'collections.OrderedDict', 'OrderedDict', 'defaultdict', 'collections.defaultdict')):
            return '%s (bound once in %s)' % (norm(e), r[1].name if hasattr(r[1], 'name') else r[1])
    return None


def header_mutators(prog: Program) -> Dict[str, FuncInfo]:
    """module-level builders that write into the `headers` mapping they are given (after `headers = headers or {}` etc.)"""
    from ..cfg import cfg_of
    from ..flow import Sym, fpaths
    out: Dict[str, FuncInfo] = {}
    for fn in prog.all_functions('proxy'):
        if fn.cls is not None or 'headers' not in fn.params or not fn.module.name.startswith(('proxy.common.utils', 'proxy.http.responses')):
            continue
        g = cfg_of(fn, prog, exc_edges=False)
        hit = False
        for p in fpaths(g):
            sym = Sym(p)
            for i, st in p.stmts():
                for chn, kind, node in attr_effects(st):
                    pass
                for n in walk_no_nested(st):
                    tgt = None
                    if isinstance(n, ast.Subscript) and isinstance(n.ctx, (ast.Store, ast.Del)) and isinstance(n.value, ast.Name):
                        tgt = n.value
                    elif isinstance(n, ast.Call) and isinstance(n.func, ast.Attribute) and n.func.attr in ('update', 'setdefault', 'pop', 'clear', 'popitem') and isinstance(n.func.value, ast.Name):
                        tgt = n.func.value
                    if tgt is not None and any(isinstance(a, ast.Name) and a.id == 'headers' for a in _alternatives(sym.value(tgt, i))):
                        hit = True
            if hit:
                break
        if hit:
            out[fn.name] = fn
    # builders that pass their own `headers` on to a mutator
    changed = True
    while changed:
        changed = False
        for fn in prog.all_functions('proxy'):
            if fn.cls is not None or 'headers' not in fn.params or fn.name in out or not fn.module.name.startswith(('proxy.common.utils', 'proxy.http.responses')):
                continue
            for c in walk_no_nested(fn.node):
                if isinstance(c, ast.Call) and (attr_chain(c.func) or '').split('.')[-1] in out:
                    for k in c.keywords:
                        if k.arg == 'headers' and isinstance(k.value, ast.Name) and k.value.id == 'headers':
                            out[fn.name] = fn
                            changed = True
    return out


def fresh_headers_check(ch: Any, rule: str, functions: Optional[List[FuncInfo]] = None) -> int:
    """every header mapping handed to a builder that writes into it is created for that one message: on every path the
    argument evaluates to a display / comprehension / dict(...) / a parameter / an instance attribute, never (not even as
    an `or`-alternative) to a module-level or class-level container.  Likewise a local that may alias such a container
    is not written to."""
    from ..cfg import cfg_of
    from ..flow import Sym, fpaths
    prog = ch.prog
    muts = header_mutators(prog)
    n = 0
    fns = functions if functions is not None else [f for f in prog.all_functions('proxy') if not f.module.name.startswith(('proxy.plugin', 'proxy.testing'))]
    for fn in fns:
        sites = [c for c in walk_no_nested(fn.node) if isinstance(c, ast.Call) and (attr_chain(c.func) or '').split('.')[-1] in muts
                 and any(k.arg == 'headers' for k in c.keywords)]
        writes = [x for x in walk_no_nested(fn.node) if isinstance(x, ast.Subscript) and isinstance(x.ctx, (ast.Store, ast.Del)) and isinstance(x.value, ast.Name)]
        if not sites:
            continue
        g = cfg_of(fn, prog, exc_edges=False)
        verdict: Dict[int, Tuple[ast.AST, Optional[str], List[str]]] = {}
        for p in fpaths(g):
            ch.paths += 1
            sym = Sym(p)
            for i, st in p.stmts():
                for x in walk_no_nested(st):
                    cand = None
                    if any(x is c for c in sites):
                        cand = [k.value for k in x.keywords if k.arg == 'headers'][0]   # type: ignore[attr-defined]
                    elif any(x is w for w in writes):
                        cand = x.value   # type: ignore[attr-defined]
                    if cand is None:
                        continue
                    why = None
                    for alt in _alternatives(sym.value(cand, i)):
                        why = why or shared_mutable(prog, fn, alt)
                    prev = verdict.get(id(x))
                    if prev is None or (prev[1] is None and why is not None):
                        verdict[id(x)] = (x, why, p.describe(16) if why else [])
        for x, why, wit in verdict.values():
            if isinstance(x, ast.Call):
                n += 1
                ch.check(why is None, rule, fn, x, 'the header map is created for this message',
                         'the header map handed to %s may be %s: the builder writes Content-Length / Content-Encoding / Connection into the map it is given, so what one response '
                         'adds stays in the shared map and is sent with every later response (e.g. `Content-Encoding: gzip` on a body that is not compressed)'
                         % ((attr_chain(x.func) or '?').split('.')[-1], why), witness=wit)
            elif why is not None:
                n += 1
                ch.bad(rule, fn, x, 'a per-message header is written into %s, which is shared by every call' % why, witness=wit, line=x.lineno)
    return n


TEARDOWN_CALLBACKS = ('shutdown', 'on_client_connection_close', 'on_upstream_connection_close')


def who_may_close_check(ch: Any, rule: str) -> int:
    """A socket owned by a work is closed only from the work's teardown callbacks.  The executor takes a work's descriptors
    out of the selector in one place, Threadless._cleanup, which then calls shutdown(); a socket closed while the work lives on
    keeps its number registered, and the next accept()/connect() in the process is handed that very number."""
    prog = ch.prog
    n = 0
    for fn in prog.all_functions('proxy'):
        mn = fn.module.name
        if not (mn.startswith('proxy.http.') or mn.startswith('proxy.core.base')) or mn.startswith(('proxy.http.client', 'proxy.http.websocket.client')) or fn.cls is None:
            continue
        for c in walk_no_nested(fn.node):
            if isinstance(c, ast.Call) and isinstance(c.func, ast.Attribute) and c.func.attr == 'close' and not c.args:
                chain = attr_chain(c.func.value) or ''
                last = chain.split('.')[-1]
                if not chain.startswith('self.') or last not in ('upstream', 'work', 'client', 'connection'):
                    continue
                n += 1
                ch.check(fn.name in TEARDOWN_CALLBACKS, rule, fn, c, 'closed from a teardown callback',
                         '%s closes %s outside the teardown callbacks %s: the work stays alive, its closed descriptor stays registered with the executor\'s selector (only _cleanup unregisters), '
                         'and the next connection that is given the same descriptor number is never polled' % (fn.qualname, chain, list(TEARDOWN_CALLBACKS)))
    return n


def upstream_flush_check(ch: Any, rule: str) -> int:
    """When the executor reports the upstream descriptor writable (`<upstream fd> in <writables parameter>` holds on the path)
    and nothing on the path says its buffer is empty, upstream.flush() is called.  Found by shape: every method in
    proxy/http/** and proxy/core/base/** that tests `self.upstream.connection.fileno() in <parameter>` for a parameter
    named w / writables."""
    from ..cfg import cfg_of
    from ..flow import Sym, fpaths
    prog = ch.prog
    n = 0
    for fn in prog.all_functions('proxy'):
        mn = fn.module.name
        if fn.cls is None or not (mn.startswith('proxy.http.') or mn.startswith('proxy.core.base')):
            continue
        wparams = [p_ for p_ in fn.params if p_ in ('w', 'writables')]
        if not wparams:
            continue
        wp = wparams[0]
        atom = 'self.upstream.connection.fileno() in %s' % wp
        if not any(isinstance(c, ast.Compare) and len(c.ops) == 1 and isinstance(c.ops[0], (ast.In, ast.NotIn)) for c in walk_no_nested(fn.node)):
            continue
        g = cfg_of(fn, prog, exc_edges=False)
        relevant = 0
        bad = None
        for p in fpaths(g):
            ch.paths += 1
            fd = allfacts(p)
            if fd.get(atom) is not True or p.coarse:
                continue
            if fd.get('self.upstream.has_buffer()') is False or fd.get('self.upstream.closed') is True or fd.get('self.upstream') is False:
                continue
            relevant += 1
            sym = Sym(p)
            flushed = False
            for i, nd, lab in p.executed():
                if nd.ast is None or nd.kind not in ('stmt', 'test'):
                    continue
                for c in walk_no_nested(nd.ast):
                    if isinstance(c, ast.Call) and isinstance(c.func, ast.Attribute) and c.func.attr == 'flush' and norm(sym.value(c.func.value, i)) == 'self.upstream':
                        flushed = True
            if not flushed:
                bad = ('the upstream descriptor is reported writable (and its buffer is not known to be empty) on a path that never calls self.upstream.flush(): bytes queued for the '
                       'upstream stay queued, the write interest stays set and the loop spins without ever delivering them', p.describe(20))
        if relevant == 0:
            continue
        n += 1
        ch.check(bad is None, rule, fn, 'flush upstream when writable', 'upstream.flush() on all %d path(s) where its descriptor is writable' % relevant, bad[0] if bad else '', witness=bad[1] if bad else None)
    return n


def loop_containing_call(fn: FuncInfo, callee: str) -> Optional[ast.While]:
    """the outermost `while` of fn whose body contains a call of `callee` (dotted name) -- `while True:` or a flag-controlled loop alike"""
    for n in walk_no_nested(fn.node):
        if isinstance(n, ast.While) and any(isinstance(c, ast.Call) and attr_chain(c.func) == callee for c in ast.walk(n)):
            return n
    return None


def leaves_flag_loop(loop: ast.While, path: Any) -> bool:
    """a way round a flag-controlled loop (`while keep_running:`) on which the flag was set to a false constant is the loop's exit, not an iteration"""
    t = loop.test
    neg = False
    if isinstance(t, ast.UnaryOp) and isinstance(t.op, ast.Not):
        t, neg = t.operand, True
    if not isinstance(t, ast.Name):
        return False
    val = None
    for i, st in path.stmts():
        if isinstance(st, ast.Assign) and len(st.targets) == 1 and isinstance(st.targets[0], ast.Name) and st.targets[0].id == t.id and isinstance(st.value, ast.Constant):
            val = bool(st.value.value)
    if val is None:
        return False
    return (val is False) if not neg else (val is True)


def truthiness_presence_check(ch: Any, rule: str, module_prefixes: Tuple[str, ...]) -> int:
    """`if self.x:` / `if not self.x:` used as a presence test on an attribute annotated Optional[Cls] is only a presence test
    while Cls (and its bases in the repository) define neither __len__ nor __bool__: otherwise an object that exists but is
    "empty" is taken for absent (and, in the parsers, replaced by a fresh one, dropping the state it carried)."""
    prog = ch.prog
    n = 0
    seen: Set[Tuple[str, str]] = set()
    for fn in prog.all_functions('proxy'):
        if fn.cls is None or not fn.module.name.startswith(module_prefixes):
            continue
        tests: List[ast.AST] = []
        for x in walk_no_nested(fn.node):
            if isinstance(x, (ast.If, ast.While, ast.IfExp, ast.Assert)):
                tests.append(x.test)
        atoms: List[ast.AST] = []
        while tests:
            t = tests.pop()
            if isinstance(t, ast.BoolOp):
                tests.extend(t.values)
            elif isinstance(t, ast.UnaryOp) and isinstance(t.op, ast.Not):
                tests.append(t.operand)
            else:
                atoms.append(t)
        for a in atoms:
            if isinstance(a, ast.Attribute) and isinstance(a.value, ast.Name) and a.value.id == 'self':
                ann = prog.attr_annotation(fn.cls, a.attr)
                if ann is None:
                    continue
                tc = prog.annotation_class(ann[0].module, ann[1])
                if tc is None:
                    continue
                key = (fn.cls.name, a.attr)
                if key in seen:
                    continue
                seen.add(key)
                n += 1
                dunder = None
                for c in prog.mro(tc) + prog.subclasses(tc):
                    for nm in ('__len__', '__bool__'):
                        if nm in c.methods:
                            dunder = '%s.%s' % (c.name, nm)
                ch.check(dunder is None, rule, fn, 'truthiness of self.%s : Optional[%s]' % (a.attr, tc.name), 'presence test is a presence test (%s defines neither __len__ nor __bool__)' % tc.name,
                         '%s tests self.%s by truthiness to see whether a %s exists, but %s is defined: an existing object for which it returns 0/False is taken for absent'
                         % (fn.qualname, a.attr, tc.name, dunder), line=getattr(a, 'lineno', None))
    return n


def use_after_release_check(ch: Any, rule: str, cls_name: str = 'HttpProxyPlugin', field: str = 'self.upstream') -> int:
    """typestate on an Optional field: after a call to a method that may set the field to None (found by summary), the field
    is not dereferenced on the same path unless it was re-assigned or re-tested.  Exception edges are followed: the calls in
    question sit in except handlers."""
    from ..cfg import cfg_of
    from ..flow import fpaths
    prog = ch.prog
    ci = prog.class_named(cls_name)
    nullers: Set[str] = set()
    for fn in ci.methods.values():
        for st in walk_no_nested(fn.node):
            if isinstance(st, ast.Assign) and any(attr_chain(t) == field for t in st.targets) and norm(st.value) == 'None':
                nullers.add(fn.name)
    n = 0
    for fn in ci.methods.values():
        calls = [c for c in walk_no_nested(fn.node) if isinstance(c, ast.Call) and isinstance(c.func, ast.Attribute) and isinstance(c.func.value, ast.Name)
                 and c.func.value.id == 'self' and c.func.attr in nullers]
        if not calls or fn.name in nullers and False:
            continue
        g = cfg_of(fn, prog)
        bad = None
        checked = 0
        for p in fpaths(g, limit=200000):
            ch.paths += 1
            released_at = None
            for i, nd, lab in p.executed():
                if nd.ast is None or nd.kind not in ('stmt', 'test'):
                    continue
                a = nd.ast
                if released_at is not None:
                    if nd.kind == 'test' and norm(a) == field:
                        released_at = None if lab is True else released_at
                        continue
                    if isinstance(a, ast.Assign) and any(attr_chain(t) == field for t in a.targets) and norm(a.value) != 'None':
                        released_at = None
                        continue
                    for x in walk_no_nested(a):
                        if isinstance(x, ast.Attribute) and attr_chain(x.value) == field and isinstance(x.ctx, ast.Load):
                            bad = ('%s.%s is read after %s() was called on the same path; that call may have set %s to None (it does when the connection pool is enabled): '
                                   'AttributeError is raised out of the handler, the work is torn down at once and whatever was still queued for the client is dropped'
                                   % (field, x.attr, released_at, field), p.describe(22))
                if lab != 'exc':
                    for c in walk_no_nested(a):
                        if any(c is y for y in calls):
                            released_at = c.func.attr   # type: ignore[attr-defined]
                            checked += 1
        if checked:
            n += 1
            ch.check(bad is None, rule, fn, 'no use of %s after release' % field, '%s is not dereferenced after a releasing call on any path' % field, bad[0] if bad else '', witness=bad[1] if bad else None)
    return n


def tls_retry_check(ch: Any, rule: str) -> int:
    """A TLS record that has not arrived completely surfaces as ssl.SSLWantReadError from recv() (SSLWantWriteError from send()):
    not an error but "try again when the socket is ready".  Every try-block around a receive in the connection handlers has,
    as the FIRST handler able to catch it, one that names only the SSLWant* types and returns False; a broader handler (OSError /
    socket.error, of which SSLWantReadError is a subclass) decides on errno, and SSLWantReadError.errno is the SSL error code,
    not EAGAIN."""
    import ssl as _ssl
    prog = ch.prog
    n = 0
    for fn in prog.all_functions('proxy'):
        if fn.cls is None or fn.module.name not in ('proxy.http.handler', 'proxy.http.proxy.server', 'proxy.core.base.tcp_upstream', 'proxy.core.base.tcp_server'):
            continue
        # a base class whose overriding caller does the retry may let SSLWantReadError pass (no handler able to catch it), but must not catch it as an error itself
        may_propagate = fn.module.name == 'proxy.core.base.tcp_server'
        exc = ExcTypes(prog, fn.module)
        for t in walk_no_nested(fn.node):
            if not isinstance(t, ast.Try):
                continue
            body_calls = [c for s_ in t.body for c in walk_no_nested(s_) if isinstance(c, ast.Call) and isinstance(c.func, ast.Attribute)]
            reads = [c for c in body_calls if c.func.attr == 'recv' or (c.func.attr == 'handle_readables' and norm(c.func.value) == 'super()')]
            if not reads:
                continue
            n += 1
            first = None
            for h in t.handlers:
                if exc.handler_catches(h, _ssl.SSLWantReadError) is not False:
                    first = h
                    break
            problem = None
            if first is None and may_propagate:
                pass
            elif first is None:
                problem = 'no handler catches ssl.SSLWantReadError around %s' % norm(reads[0])[:50]
            else:
                types = exc.handler_types(first)
                only_want = bool(types) and all(isinstance(x, type) and issubclass(x, (_ssl.SSLWantReadError, _ssl.SSLWantWriteError)) for x in types)
                if not only_want:
                    problem = ('the first handler that catches ssl.SSLWantReadError is `except %s`, which also catches real errors and tells them apart by errno '
                               '(SSLWantReadError.errno is 2, not EAGAIN)' % (norm(first.type) if first.type is not None else ''))
                else:
                    last = first.body[-1] if first.body else None
                    if not (isinstance(last, ast.Return) and last.value is not None and norm(last.value) == 'False'):
                        problem = 'the SSLWantReadError handler does not end in `return False`'
            ch.check(problem is None, rule, fn, 'retry on SSLWantReadError around %s' % norm(reads[0])[:40], 'incomplete TLS record => return False (retry when readable again)' if first is not None else 'SSLWantReadError passes to the overriding caller, which retries',
                     '%s: a TLS record that arrives in two TCP segments makes recv() raise SSLWantReadError, and the connection is torn down instead of being read again when the rest arrives'
                     % (problem or ''), line=t.lineno)
    return n


def no_linger_check(ch: Any, rule: str) -> int:
    """Nobody sets SO_LINGER on a connection's socket (expected 0 sites).  With a positive linger time close() BLOCKS in the
    event-loop thread until the peer has taken the data (one slow reader stalls every connection of the worker); with linger
    0 close() discards whatever the kernel has not sent yet and resets the connection (queued output is lost)."""
    prog = ch.prog
    n = 0
    for fn in prog.all_functions('proxy'):
        if fn.module.name.startswith(('proxy.plugin', 'proxy.testing')):
            continue
        for c in walk_no_nested(fn.node):
            if isinstance(c, ast.Call) and isinstance(c.func, ast.Attribute) and c.func.attr == 'setsockopt' and any('SO_LINGER' in norm(a) for a in c.args):
                n += 1
                ch.bad(rule, fn, c, '%s sets SO_LINGER: a positive linger time makes close() block the single event-loop thread of the worker for up to that long per connection; a zero linger '
                                   'time makes close() throw away output the kernel has not delivered yet and reset the connection' % fn.qualname)
    # built-in positive example so that the matcher is exercised on every run
    probe = ast.parse("s.setsockopt(socket.SOL_SOCKET, socket.SO_LINGER, struct.pack('ii', 1, 0))", mode='eval').body
    assert isinstance(probe, ast.Call) and probe.func.attr == 'setsockopt' and any('SO_LINGER' in norm(a) for a in probe.args)   # type: ignore[attr-defined]
    if n == 0:
        ch.ok(rule, None, 'SO_LINGER', 'no setsockopt(SO_LINGER) in proxy/** (matcher verified on a built-in example)', module_rel='proxy/')
    return n


def recvbuf_tls_check(ch: Any, rule: str) -> None:
    """The event loop polls the kernel socket; a TLS socket can hold decrypted bytes the kernel no longer knows about.  Each readiness
    event is answered by ONE recv(bufsize) (nothing loops on SSLSocket.pending()), so bufsize must cover a whole TLS record (16 KiB):
    otherwise the tail of a record larger than bufsize waits inside the SSL object for a readiness event that never comes."""
    from ..consteval import ConstEval
    prog = ch.prog
    ce = ConstEval(prog)
    m = prog.module('proxy.common.constants')
    pending_loops = [fn.qualname for fn in prog.all_functions('proxy') if not fn.module.name.startswith(('proxy.plugin', 'proxy.testing'))
                     and any(isinstance(c, ast.Call) and isinstance(c.func, ast.Attribute) and c.func.attr == 'pending' for c in walk_no_nested(fn.node))]
    for name in ('DEFAULT_CLIENT_RECVBUF_SIZE', 'DEFAULT_SERVER_RECVBUF_SIZE'):
        ent = m.ns.get(name)
        v = ce.try_eval(m, ent[1]) if ent is not None and ent[0] == 'assign' else None
        ok = isinstance(v, int) and (v >= 16384 or bool(pending_loops))
        ch.check(bool(ok), rule, None, name, '%s = %s bytes >= one TLS record (16384)' % (name, v),
                 '%s evaluates to %r, less than a TLS record (16384 bytes), and no receive path drains SSLSocket.pending(): a record carrying more plaintext than that is read only in part, '
                 'the rest is never fetched and the exchange stalls until the idle timeout' % (name, v), module_rel='proxy/common/constants.py')


def lock_held_steps(path: Any, fn_node: ast.AST, lock: str) -> Dict[int, bool]:
    """For every executed step of `path`: is `lock` (dotted text, e.g. 'self.lock') held there?  Two spellings are one
    discipline: the body of `with <lock>:` and the stretch between `<lock>.acquire()` (no arguments: blocking) and the
    next `<lock>.release()` on the path (the usual acquire / try / finally: release)."""
    inside_with: Set[int] = set()
    for w in ast.walk(fn_node):
        if isinstance(w, (ast.With, ast.AsyncWith)) and any(norm(it.context_expr) == lock for it in w.items):
            for b in w.body:
                for n_ in ast.walk(b):
                    inside_with.add(id(n_))
    out: Dict[int, bool] = {}
    held = False
    for idx, nd, lab in path.executed():
        a = nd.ast
        if a is None:
            continue
        out[idx] = held or id(a) in inside_with
        if nd.kind == 'stmt':
            for c in walk_no_nested(a):
                if isinstance(c, ast.Call) and isinstance(c.func, ast.Attribute) and norm(c.func.value) == lock:
                    if c.func.attr == 'acquire' and not c.args and not c.keywords:
                        held = True
                    elif c.func.attr == 'release':
                        held = False
    return out


_MEMO = ('lru_cache', 'cache', 'cached_property', 'memoize', 'memoized')


def _memo_decorator(fn_node: ast.AST) -> Optional[str]:
    for d in getattr(fn_node, 'decorator_list', []):
        dn = attr_chain(d.func if isinstance(d, ast.Call) else d) or ''
        if dn.split('.')[-1] in _MEMO:
            return dn
    return None


def memoised_objects_check(ch: Any, rule: str, classes: Tuple[str, ...]) -> int:
    """A memoised function returns the SAME object to every caller, on every connection, for the life of the worker.  That is
    harmless for immutable values and wrong for objects that are edited after they are obtained: the instances of `classes`
    (repository classes whose fields are assigned outside __init__ / documented as mutable) and builtin containers.  Expected
    0 sites: no function whose result is such an object carries lru_cache / cache / cached_property, and none of its callers
    in the same class does the caching for it.  -> number of offending sites"""
    prog = ch.prog
    n = 0
    for fn in prog.all_functions('proxy', include_inlined=True):
        node = getattr(fn, 'orig_node', fn.node)
        dn = _memo_decorator(node)
        if dn is None:
            continue
        ann = getattr(node, 'returns', None)
        ann_t = norm(ann).strip("'\"") if ann is not None else ''
        base = ann_t.replace('Optional[', '').rstrip(']').split('[')[0].split('.')[-1]
        returns_cls = base in classes
        returns_container = base in ('List', 'Dict', 'Set', 'list', 'dict', 'set', 'bytearray', 'DefaultDict', 'OrderedDict')
        # without an annotation: a constructor call of one of the classes (or cls(...) inside one of them) in a return
        if not ann_t:
            for r in walk_no_nested(node):
                if isinstance(r, ast.Return) and r.value is not None:
                    for c_ in ast.walk(r.value):
                        if isinstance(c_, ast.Call) and ((attr_chain(c_.func) or '').split('.')[-1] in classes or (attr_chain(c_.func) == 'cls' and fn.cls is not None and fn.cls.name in classes)):
                            returns_cls = True
        if returns_cls or returns_container:
            n += 1
            ch.bad(rule, fn, '@%s' % dn, '%s is memoised (@%s) and returns a %s: every caller on every connection gets the same object, so an edit made for one request '
                   '(a rewritten path, an added header, a consumed buffer) is seen by all later ones' % (fn.qualname, dn, base or 'mutable object'))
    # built-in positive example so that the matcher is exercised on every run
    probe = ast.parse("@lru_cache(maxsize=8)\ndef f(x) -> 'Url':\n    return Url(x)\n").body[0]
    assert _memo_decorator(probe) == 'lru_cache'
    if n == 0:
        ch.ok(rule, None, 'memoised constructors', 'no memoised function in proxy/** returns an instance of %s or a builtin container (matcher verified on a built-in example)' % ' / '.join(classes), module_rel='proxy/')
    return n


def optional_field_check(ch: Any, rule: str, cls_name: str, field: str, what: str) -> int:
    """`field` (e.g. 'self.headers') of class `cls_name` is None in a perfectly valid state (`what`).  Every use of it as an object
    (subscript, `in`, method call, iteration) must sit behind a BRANCH that established it is there; an `assert` is not such a branch --
    it turns the valid state into an exception -- and an unguarded use is a TypeError.  Decided on the paths of every method of the class."""
    prog = ch.prog
    ci = prog.class_named(cls_name)
    n = 0

    def derefs(node: ast.AST) -> List[ast.AST]:
        out: List[ast.AST] = []
        for x in ast.walk(node):
            if isinstance(x, ast.Subscript) and attr_chain(x.value) == field:
                out.append(x)
            elif isinstance(x, ast.Compare) and any(isinstance(o, (ast.In, ast.NotIn)) for o in x.ops) and any(attr_chain(cmp_) == field for cmp_ in x.comparators):
                out.append(x)
            elif isinstance(x, ast.Call) and isinstance(x.func, ast.Attribute) and attr_chain(x.func.value) == field:
                out.append(x)
            elif isinstance(x, (ast.For, ast.comprehension)) and attr_chain(x.iter) == field:
                out.append(x.iter)
        return out

    def guarded_in_expr(root: ast.AST, d: ast.AST) -> bool:
        """d sits in the arm of a conditional expression / and-chain inside `root` that is only evaluated when the field is there"""
        for x in ast.walk(root):
            if isinstance(x, ast.IfExp):
                t = norm(x.test).replace(' ', '')
                in_body = any(y is d for y in ast.walk(x.body))
                in_else = any(y is d for y in ast.walk(x.orelse))
                if in_body and t in (field, field + 'isnotNone'):
                    return True
                if in_else and t in ('not' + field, field + 'isNone'):
                    return True
            if isinstance(x, ast.BoolOp) and isinstance(x.op, ast.And):
                for k, v in enumerate(x.values[1:], 1):
                    if any(y is d for y in ast.walk(v)) and any(norm(u).replace(' ', '') in (field, field + 'isnotNone') for u in x.values[:k]):
                        return True
            if isinstance(x, ast.BoolOp) and isinstance(x.op, ast.Or):
                for k, v in enumerate(x.values[1:], 1):
                    if any(y is d for y in ast.walk(v)) and any(norm(u).replace(' ', '') in ('not' + field, field + 'isNone') for u in x.values[:k]):
                        return True
        return False
    for nm, fn in sorted(list(ci.methods.items()) + list(ci.inlined_methods.items())):
        if not any(attr_chain(x) == field for x in ast.walk(fn.node) if isinstance(x, ast.Attribute)):
            continue
        g = cfg_of(fn, prog, exc_edges=False)
        bad: Optional[Tuple[str, List[str]]] = None
        uses = 0
        for p in fpaths(g, limit=50000):
            ch.paths += 1
            ex = p.executed()
            stored = False
            for i, nd, lab in ex:
                if nd.ast is None:
                    continue
                a = nd.ast
                if nd.kind == 'stmt' and isinstance(a, ast.Assert) and any(attr_chain(x) == field for x in ast.walk(a.test) if isinstance(x, ast.Attribute)) and p.exit_kind == 'raise' and i == ex[-1][0]:
                    bad = ('%s asserts on %s: %s, and then this method raises AssertionError instead of doing its job' % (fn.qualname, field, what), p.describe())
                probe = a.iter if nd.kind == 'for' else a
                if nd.kind in ('stmt', 'test', 'for'):
                    for d in derefs(probe if nd.kind != 'stmt' or not isinstance(a, ast.Assert) else ast.Pass()):
                        uses += 1
                        fd = allfacts(p, i)
                        here = fd.get(field) is True or fd.get(field + ' is None') is False or fd.get(field + ' is not None') is True or stored
                        if not here and not guarded_in_expr(probe, d):
                            bad = bad or ('%s uses %s as an object (%s) on a path that did not establish it is there: %s' % (fn.qualname, field, norm(d)[:50], what), p.describe())
                if nd.kind == 'stmt':
                    for chn, kind, node_ in attr_effects(a):
                        if chn == field and kind == 'store' and norm(getattr(node_, 'value', ast.Constant(value=None))) != 'None':
                            stored = True
        if uses == 0 and bad is None:
            continue
        n += 1
        ch.check(bad is None, rule, fn, 'uses of %s' % field, 'every use of %s as an object is behind a branch that found it present (%d use(s) on paths)' % (field, uses),
                 bad[0] if bad else '', witness=bad[1] if bad else None)
    return n


def single_recv_check(ch: Any, rule: str) -> int:
    """One readiness event pays for ONE non-blocking read.  In the connection class and in the event handlers (proxy/core/connection,
    proxy/core/base, proxy/http/handler.py, proxy/http/proxy, proxy/http/server) a receive on a connection is neither repeated on a path nor
    placed inside a loop of the function: a second read without a new readiness event raises BlockingIOError after the first piece was
    already taken from the kernel (the piece is lost with the exception), or -- on a socket left in blocking mode -- stalls the only
    thread of the worker until the peer sends again."""
    prog = ch.prog
    n = 0
    scope = ('proxy/core/connection/', 'proxy/core/base/', 'proxy/http/handler.py', 'proxy/http/proxy/', 'proxy/http/server/')

    def is_recv(c_: ast.AST) -> bool:
        if not (isinstance(c_, ast.Call) and isinstance(c_.func, ast.Attribute) and c_.func.attr == 'recv'):
            return False
        recv_on = attr_chain(c_.func.value) or ''
        return recv_on.split('.')[-1] in ('connection', 'upstream', 'work', 'client', '_conn', 'conn', 'sock')
    for fn in prog.all_functions('proxy', include_inlined=True):
        if not fn.module.relpath.startswith(scope):
            continue
        sites = [c_ for c_ in walk_no_nested(fn.node) if is_recv(c_)]
        if not sites:
            continue
        n += 1
        in_loop = [c_ for lp in walk_no_nested(fn.node) if isinstance(lp, (ast.While, ast.For, ast.AsyncFor)) for c_ in ast.walk(lp) if any(c_ is s_ for s_ in sites)]
        worst = 0
        wit: List[str] = []
        if not in_loop:
            g = cfg_of(fn, prog, exc_edges=False)
            for p in fpaths(g):
                ch.paths += 1
                k = sum(1 for i_, nd_, lab_ in p.executed() if nd_.ast is not None and nd_.kind in ('stmt', 'test') for c_ in walk_no_nested(nd_.ast) if any(c_ is s_ for s_ in sites))
                if k > worst:
                    worst, wit = k, p.describe()
        ch.check(not in_loop and worst <= 1, rule, fn, 'receives per call', 'at most one receive on a connection per call, none in a loop',
                 '%s reads from the connection %s: only the first read is covered by the readiness event -- the next one raises BlockingIOError after data was already taken '
                 '(that data is lost with the exception and the exchange is torn down) or blocks the worker\'s only thread until the peer sends more' %
                 (fn.qualname, 'inside a loop' if in_loop else '%d times on one path' % worst), witness=wit if worst > 1 else None)
    return n


_MUTATORS = ('append', 'extend', 'insert', 'remove', 'pop', 'clear', 'update', 'add', 'discard', 'sort', 'reverse', 'setdefault', 'popitem', '__setitem__', '__delitem__')


def shared_config_mutation_check(ch: Any, rule: str) -> int:
    """The flags namespace (and the module-level defaults behind it) is ONE object per worker, read by every connection.  Code that runs per
    connection (handlers, plugins, connections, parsers, utils) may read it and must not change it in place: no store / augmented assignment /
    mutator call on `<...>.flags.<name>` nor on a local that is merely another name for it (`x = self.flags.disable_headers; x += [...]`
    extends the list every later connection filters with).  Expected 0 sites."""
    prog = ch.prog
    scope = ('proxy/http/', 'proxy/core/base/', 'proxy/core/connection/', 'proxy/plugin/', 'proxy/common/utils.py', 'proxy/dashboard/')
    n = 0

    def is_flag(e: ast.AST) -> bool:
        chn = attr_chain(e)
        if chn is None:
            return False
        parts = chn.split('.')
        return 'flags' in parts[:-1] and parts[0] in ('self', 'flags', 'cls')
    for fn in prog.all_functions('proxy', include_inlined=True):
        if not fn.module.relpath.startswith(scope) or fn.name == '__init__' and False:
            continue
        aliases: Dict[str, str] = {}
        for s in walk_no_nested(fn.node):
            if isinstance(s, (ast.Assign, ast.AnnAssign)) and s.value is not None:
                tgs = s.targets if isinstance(s, ast.Assign) else [s.target]
                if len(tgs) == 1 and isinstance(tgs[0], ast.Name) and is_flag(s.value):
                    aliases[tgs[0].id] = norm(s.value)
        # a name rebound to something else elsewhere is not an alias
        for s in walk_no_nested(fn.node):
            if isinstance(s, (ast.Assign, ast.AnnAssign)) and s.value is not None:
                tgs = s.targets if isinstance(s, ast.Assign) else [s.target]
                for t in tgs:
                    if isinstance(t, ast.Name) and t.id in aliases and not is_flag(s.value):
                        aliases.pop(t.id, None)

        def target_of(e: ast.AST) -> Optional[str]:
            if is_flag(e):
                return norm(e)
            if isinstance(e, ast.Name) and e.id in aliases:
                return '%s (= %s)' % (e.id, aliases[e.id])
            return None
        for s in walk_no_nested(fn.node):
            hit = None
            if isinstance(s, ast.AugAssign):
                hit = target_of(s.target)
            elif isinstance(s, ast.Assign):
                for t in s.targets:
                    if isinstance(t, ast.Subscript):
                        hit = hit or target_of(t.value)
                    elif isinstance(t, ast.Attribute) and is_flag(t) and fn.name != '__init__':
                        hit = hit or norm(t)
            elif isinstance(s, ast.Delete):
                for t in s.targets:
                    if isinstance(t, ast.Subscript):
                        hit = hit or target_of(t.value)
            elif isinstance(s, ast.Call) and isinstance(s.func, ast.Attribute) and s.func.attr in _MUTATORS:
                hit = target_of(s.func.value)
            if hit:
                n += 1
                ch.bad(rule, fn, s, '%s changes %s in place: the flags object is shared by every connection of the worker, so what one request adds or removes here applies to all later connections '
                       '(e.g. header names taken from one request are stripped from every later one)' % (fn.qualname, hit))
    probe = ast.parse("x = self.flags.disable_headers\nx += [b'a']").body
    assert is_flag(probe[0].value)      # type: ignore[attr-defined]
    if n == 0:
        ch.ok(rule, None, 'flags mutated per connection', 'no per-connection code stores into or mutates <...>.flags.<name> (matcher verified on a built-in example)', module_rel='proxy/')
    return n


def bound_args(prog: Program, caller: FuncInfo, call: ast.Call) -> Optional[Dict[str, ast.AST]]:
    """The arguments of `call` by PARAMETER NAME of the callee, whether they were passed by position or by keyword.  The callee is resolved
    through the caller's module (a module-level function, possibly imported) or, for self.<m>(...) / cls.<m>(...), through the caller's class.
    None when the callee is not a repository function or the call uses * / ** arguments."""
    f = call.func
    callee: Optional[FuncInfo] = None
    skip_first = False
    if isinstance(f, ast.Name):
        r = prog.resolve(caller.module, f.id)
        callee = r[1] if r[0] == 'func' else None
    elif isinstance(f, ast.Attribute) and isinstance(f.value, ast.Name) and f.value.id in ('self', 'cls') and caller.cls is not None:
        callee = prog.lookup_method(caller.cls, f.attr)
        skip_first = callee is not None and not callee.is_static
    elif isinstance(f, ast.Attribute):
        r = prog.resolve_expr(caller.module, f)
        callee = r[1] if r[0] == 'func' else None
    if callee is None or any(isinstance(a, ast.Starred) for a in call.args) or any(k.arg is None for k in call.keywords):
        return None
    a = getattr(callee, 'orig_node', callee.node).args
    names = [x.arg for x in a.posonlyargs + a.args]
    if skip_first and names:
        names = names[1:]
    out: Dict[str, ast.AST] = {}
    for i, arg in enumerate(call.args):
        if i >= len(names):
            return None
        out[names[i]] = arg
    for k in call.keywords:
        out[k.arg] = k.value        # type: ignore[index]
    return out


def lock_release_check(ch: Any, rule: str) -> int:
    """A lock taken with a bare `<x>.acquire()` (no arguments: it blocks) is given back on EVERY way out of the function, exceptional ones included
    (try/finally, or `with`).  Locks here are class-level and not re-entrant: one path that leaves with the lock held -- an assertion, an OSError from a
    subprocess -- makes the next connection that needs it block for ever inside the worker's only thread.  -> number of acquire sites"""
    prog = ch.prog
    n = 0
    for fn in prog.all_functions('proxy'):
        if fn.module.name.startswith(('proxy.testing', 'proxy.common.backports')):
            continue
        acqs = [c_ for c_ in walk_no_nested(fn.node) if isinstance(c_, ast.Call) and isinstance(c_.func, ast.Attribute) and c_.func.attr == 'acquire' and not c_.args and not c_.keywords
                and (attr_chain(c_.func.value) or '').split('.')[-1] in ('lock', '_lock', 'mutex') ]
        if not acqs:
            continue
        g = cfg_of(fn, prog, unguarded_exc=True)
        for a_ in acqs:
            n += 1
            lock = norm(a_.func.value)         # type: ignore[attr-defined]
            bad = None
            npaths = 0
            for p in g.paths(limit=50000):
                ex = p.executed()
                at = [i for i, nd, lab in ex if nd.ast is not None and nd.kind in ('stmt', 'test') and lab != 'exc' and any(x is a_ for x in walk_no_nested(nd.ast))]
                if not at:
                    continue
                npaths += 1
                released = any(i > at[0] and nd.ast is not None and nd.kind in ('stmt', 'test') and any(isinstance(x, ast.Call) and isinstance(x.func, ast.Attribute) and x.func.attr == 'release' and
                               norm(x.func.value) == lock for x in walk_no_nested(nd.ast)) for i, nd, lab in ex)
                if not released and bad is None:
                    raiser = [norm(g.nodes[nid].ast)[:50] for nid, lab in p.steps if lab == 'exc' and g.nodes[nid].ast is not None]
                    bad = ('%s is taken with a bare acquire() and not given back on a way out of %s (%s): the lock is shared by every connection of the process and is not re-entrant, so the next '
                           'connection that needs it blocks inside the worker\'s only thread and nothing is served any more' % (lock, fn.qualname, 'exception in `%s`' % raiser[0] if raiser else 'normal return'), p.describe(16))
            ch.check(bad is None and npaths > 0, rule, fn, a_, 'released on all %d way(s) out, exceptional ones included' % npaths, bad[0] if bad else 'acquire never reached', witness=bad[1] if bad else None)
    if n == 0:
        ch.ok(rule, None, 'bare acquire()', 'no lock is taken with a bare acquire(): every lock is held through `with` (or a non-blocking acquire whose result is tested)', module_rel='proxy/')
    return n


def no_buffer_release_check(ch: Any, rule: str) -> int:
    """Queued output is shared, not owned: the canned replies are module-level memoryviews queued as they are, on every connection.  Nothing in the
    connection classes releases (memoryview.release()) what sits in a buffer -- a released view is dead for every other connection that queues it.
    Expected 0 sites."""
    prog = ch.prog
    n = 0
    root = prog.class_named('TcpConnection')
    for ci in [root] + prog.subclasses(root):
        for nm, fn in list(ci.methods.items()) + list(ci.inlined_methods.items()):
            for c_ in ast.walk(fn.node):
                if isinstance(c_, ast.Call) and isinstance(c_.func, ast.Attribute) and c_.func.attr == 'release' and not c_.args and not c_.keywords:
                    n += 1
                    ch.bad(rule, fn, c_, '%s releases a queued memoryview (%s): the canned replies (407, 400, tunnel established, ...) are module-level views queued as they are; once one of them is released '
                           'because some connection was torn down with it still pending, every later connection that queues the same reply gets ValueError from flush() and is closed without an answer' % (fn.qualname, norm(c_)[:40]))
    probe = ast.parse('mv.release()', mode='eval').body
    assert isinstance(probe, ast.Call) and probe.func.attr == 'release' and not probe.args       # type: ignore[attr-defined]
    if n == 0:
        ch.ok(rule, None, 'memoryview.release() on queued data', 'no connection class releases queued views (matcher verified on a built-in example)', module_rel='proxy/core/connection/')
    return n


def sweep_period_check(ch: Any, rule: str) -> None:
    """the shared loop looks for idle connections every `cleanup_inactive_timeout` seconds (the per-connection thread looks every
    select round): that period is the bound on how long after `--timeout` an idle connection survives in the shared-loop modes, so it
    is a positive constant below the default timeout it enforces"""
    from ..consteval import ConstEval
    from ..model import AnalysisError
    prog = ch.prog
    ce = ConstEval(prog)
    tl = prog.class_named('Threadless')
    init = prog.lookup_method(tl, '__init__')
    rf = prog.lookup_method(tl, '_run_forever')
    if init is None or rf is None:
        raise AnalysisError('anchor vanished: Threadless.__init__ / _run_forever')
    stores = [s_ for s_ in walk_no_nested(init.node) if isinstance(s_, (ast.Assign, ast.AnnAssign)) and attr_chain(s_.targets[0] if isinstance(s_, ast.Assign) else s_.target) == 'self.cleanup_inactive_timeout']
    used = any(isinstance(x, ast.Attribute) and attr_chain(x) == 'self.cleanup_inactive_timeout' for x in ast.walk(rf.node))
    if len(stores) != 1 or not used or stores[0].value is None:
        raise AnalysisError('anchor vanished: the idle sweep of the shared loop is no longer paced by self.cleanup_inactive_timeout')
    period = ce.try_eval(init.module, stores[0].value)
    cm = prog.modules.get('proxy.common.constants')
    timeout = ce.try_eval(cm, ast.Name(id='DEFAULT_TIMEOUT', ctx=ast.Load())) if cm is not None else None
    ok = isinstance(period, (int, float)) and not isinstance(period, bool) and isinstance(timeout, (int, float)) and 0 < period < timeout
    ch.check(ok, rule, init, 'period of the idle sweep', 'the shared loop sweeps idle connections every %r s, below the default timeout of %r s' % (period, timeout),
             'the shared loop looks for idle connections every %r s while the default timeout is %r s: a connection idle for longer than --timeout is still served for up to that long in the '
             'shared-loop modes (and closed at once by the per-connection thread, which tests is_inactive() every select round) -- the period must be a positive constant below the timeout it enforces'
             % (period, timeout))


def plugin_load_check(ch: Any, rule: str) -> None:
    """Plugins.load: every class the importer returns ends up in the list of its base class; the only reason not to append it is that this
    very class object is in the list already (`klass in <list>`), never a comparison of names -- two plugins may share a class name"""
    import re
    from ..flow import Sym
    prog = ch.prog
    pl = prog.class_named('Plugins')
    ld = prog.lookup_method(pl, 'load')
    if ld is None:
        from ..model import AnalysisError as AnalysisError_
        raise AnalysisError_('anchor vanished: Plugins.load')
    g = cfg_of(ld, prog, exc_edges=False)
    bad = None
    n_app = 0
    for p in fpaths(g, limit=100000):
        if p.exit_kind != 'return':
            continue
        sym = Sym(p)
        imp = [(i, st) for i, st in p.stmts() if isinstance(st, ast.Assign) and any(isinstance(c, ast.Call) and (attr_chain(c.func) or '').endswith('importer') for c in walk_no_nested(st))]
        if not imp:
            continue
        i0, st0 = imp[-1]
        tg = st0.targets[0]
        kname = tg.elts[0].id if isinstance(tg, ast.Tuple) and tg.elts and isinstance(tg.elts[0], ast.Name) else (tg.id if isinstance(tg, ast.Name) else None)
        if kname is None:
            continue
        appends = [(i, c) for i, st in p.stmts() if i > i0 for c in walk_no_nested(st) if isinstance(c, ast.Call) and isinstance(c.func, ast.Attribute) and c.func.attr in ('append', 'add', 'insert')
                   and c.args and isinstance(sym.value(c.args[-1], i), ast.AST) and re.search(r'\b%s\b' % re.escape(kname), norm(c.args[-1]))]
        at = appends[0][0] if appends else len(p.steps)
        facts = allfacts(p, at)
        for a, pol in facts.items():
            if not re.search(r'\b%s\b' % re.escape(kname), a):
                continue
            a2 = a.replace(' ', '')
            if a2 == kname or a2.startswith(kname + 'in'):
                continue
            if re.search(r'\b%s\.__(qual)?name__' % re.escape(kname), a) or '.__name__' in a or '.__qualname__' in a:
                bad = ('whether an imported plugin class is kept depends on `%s`: a comparison of class NAMES -- two plugin classes from different modules that share a name (acme.Routes, globex.Routes) '
                       'collapse into the first one listed, the hooks / routes of the other are never registered' % a[:90], p.describe(16))
        member = [pol for a, pol in facts.items() if a.replace(' ', '').startswith(kname + 'in')]
        if appends:
            n_app += 1
        elif not any(pol is True for pol in member):
            bad = bad or ('an imported plugin class is not entered into the table on a path where it is not known to be there already', p.describe(16))
    ch.check(bad is None and n_app > 0, rule, ld, 'every imported class is kept', 'an imported class is appended unless that very class object is already listed (%d appending path(s))' % n_app,
             bad[0] if bad else 'Plugins.load never appends the imported class', witness=bad[1] if bad else None)
