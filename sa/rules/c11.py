"""C11 -- TLS interception issues a valid per-host certificate and never trusts a bad upstream.

Decided (policy dataflow; the handshakes themselves are runtime):
  C11.1 verification towards the origin can only be switched off by the operator flag; the
        host and CA bundle handed to the connection layer are the request host / flags.ca_file;
  C11.2 the connection layer applies what it is told: default SERVER_AUTH context with the given
        CA file, verify_mode = the parameter, check_hostname False only for CERT_NONE (else
        `hostname is not None`), server_hostname = the parameter itself;
  C11.3 who may weaken verification: frozen table of sites that set CERT_NONE / check_hostname
        False / build a bare SSLContext;
  C11.4 a failed upstream handshake ends the exchange before the client side is wrapped or
        anything is relayed;
  C11.5 the leaf names the request host and is signed by the configured CA; certificate files are
        looked up and generated only while holding the lock;
  C11.6 subjectAltName type follows the host kind (IP: for address literals, DNS: otherwise);
  C11.7 a plugin's do_intercept() == False switches interception off for that request.
Not decided: handshake outcomes for given certificates, certificate contents as seen by a client."""
import ast
from typing import Any, Dict, List, Optional, Tuple

from ..cfg import cfg_of, ExcTypes
from ..consteval import ConstEval
from ..flow import Sym, fpaths, attr_effects, enclosing_handlers, allfacts
from ..model import FuncInfo, attr_chain, norm, walk_no_nested
from ..report import Checker

# (module, function qualname) -> reason        frozen who-may-weaken table
WEAKEN_TABLE = {
    ('proxy.common.utils', 'wrap_socket'): 'server side of the client connection: no client certificates are requested',
    ('proxy.core.connection.server', 'TcpServerConnection.wrap'): 'upstream side, governed by C11.2 (False only for CERT_NONE / missing hostname)',
    ('proxy.core.connection.client', 'TcpClientConnection.wrap'): 'server side towards the intercepted client: bare SSLContext with the generated certificate',
    ('proxy.http.client', 'client'): 'stand-alone HTTP client helper with an explicit verify= argument; not on the proxy path',
    ('proxy.http.proxy.server', 'HttpProxyPlugin.wrap_server'): 'CERT_NONE only under flags.insecure_tls_interception (C11.1)',
}


_PROG: Any = None
_CALLER: Any = None


def _kw(call: ast.Call, name: str, pos: Optional[int] = None) -> Optional[ast.AST]:
    """the argument bound to parameter `name`: by keyword, or -- the callee resolved through the program model -- by position"""
    for k in call.keywords:
        if k.arg == name:
            return k.value
    if _PROG is not None and _CALLER is not None:
        from .common import bound_args
        ba = bound_args(_PROG, _CALLER, call)
        if ba is not None and name in ba:
            return ba[name]
    if pos is not None and len(call.args) > pos:
        return call.args[pos]
    return None


def _bare_host(v: ast.AST, facts: Dict[str, Any], param: str = 'hostname') -> Optional[str]:
    """v denotes the host name the caller gave, as certificates carry it: the parameter itself when it is not a bracketed IPv6 literal on this path
    (or not known to be one and never stripped: reported by C11.13), or the parameter with its brackets removed.  -> 'same' | 'stripped' | None"""
    t = norm(v).replace(' ', '')
    if t == param:
        return 'same'
    if t in ('%s[1:-1]' % param, "%s.strip('[]')" % param, "%s.lstrip('[').rstrip(']')" % param, "%s.removeprefix('[').removesuffix(']')" % param):
        return 'stripped'
    return None


def run(ch: Checker) -> None:
    prog = ch.prog
    ce = ConstEval(prog)
    ch.rule('C11.11', 'the default receive buffer sizes cover a whole TLS record (16384 bytes), because every readiness event is answered by one recv() and nothing drains SSLSocket.pending()', 2)
    ch.rule('C11.1', 'HttpProxyPlugin.wrap_server: verify_mode is CERT_NONE only on paths with flags.insecure_tls_interception, CERT_REQUIRED otherwise; upstream.wrap receives '
                     'text_(self.request.host), self.flags.ca_file and that verify_mode', 1)
    ch.rule('C11.2', 'TcpServerConnection.wrap: context = ssl.create_default_context(SERVER_AUTH, cafile=<ca_file param>); ctx.verify_mode = <verify_mode param>; ctx.check_hostname is False '
                     'only under verify_mode == CERT_NONE, otherwise `hostname is not None`; wrap_socket(server_hostname=<hostname param>)', 4)
    ch.rule('C11.3', 'sites that assign CERT_NONE / check_hostname False-capable values / create a bare SSLContext or an unverified context are exactly the frozen table', 5)
    ch.rule('C11.4', 'wrap_server returns True from every ssl error handler; intercept() returns before wrap_client when wrap_server failed; on_request_complete returns intercept()\'s result', 3)
    ch.rule('C11.13', 'the name the upstream certificate is matched against is the host as certificates carry it: on every path to wrap_socket the brackets of an IPv6 literal were ruled out or removed (sibling agreement with new_socket_connection, which strips them before connecting, and get_ext_config, which strips them for the SAN)', 1)
    ch.rule('C11.12', 'the CONNECT host names the generated leaf through subjectAltName only: the subject handed to gen_public_key does not depend on request.host (commonName is capped at 64 characters, host names are not)', 1)
    ch.rule('C11.5', 'leaf generation: alt_subj_names = [text_(request.host)] reaches gen_public_key and sign_csr; sign_csr gets flags.ca_key_file / flags.ca_cert_file and puts them at -CAkey / -CA, '
                     'the extension file at -extfile; the cached-certificate test and the generation both happen inside `with self.lock`; client.wrap gets the generated path and the signing key', 5)
    ch.rule('C11.6', 'get_ext_config emits IP:<addr> when the name parses as an IP address and DNS:<name> otherwise', 1)
    ch.rule('C11.8', 'who may consult the flags-only predicate: inside HttpProxyPlugin, `tls_interception_enabled` (configuration only) is read by _tls_intercept_enabled alone; '
                     'every decision between "parse as HTTP" and "relay opaquely" uses _tls_intercept_enabled, which also honours a plugin\'s opt-out', 3)
    ch.rule('C11.9', 'a TLS record still incomplete (ssl.SSLWantReadError from a receive) means retry, not teardown: in HttpProtocolHandler.handle_readables, HttpProxyPlugin.read_from_descriptors and '
                     'TcpUpstreamConnectionHandler.read_from_descriptors the first handler able to catch it names only SSLWant* and returns False', 3)
    ch.rule('C11.10', 'scratch files handed to openssl (extension / request config) get a name that is unique per invocation (uuid / mkstemp / NamedTemporaryFile): the leaf\'s subjectAltName is read '
                      'from that file at signing time, and the lock that serialises generation is per process only', 2)
    ch.rule('C11.7', '_tls_intercept_enabled returns False as soon as a plugin\'s do_intercept() is False and only considers plugins when interception is configured', 1)

    # ---------------- C11.1
    ws = prog.own_method('HttpProxyPlugin', 'wrap_server')
    g = cfg_of(ws, prog)
    bad = None
    n = 0
    for p in fpaths(g):
        ch.paths += 1
        sym = Sym(p)
        for i, n_, lab in p.executed():
            if n_.kind != 'stmt':
                continue
            for c in walk_no_nested(n_.ast):  # type: ignore[arg-type]
                if isinstance(c, ast.Call) and attr_chain(c.func) == 'self.upstream.wrap':
                    n += 1
                    vm = _kw(c, 'verify_mode', 3)
                    hn = _kw(c, 'hostname', 0)
                    ca = _kw(c, 'ca_file', 1)
                    vmt = norm(sym.value(vm, i)) if vm is not None else 'default(CERT_REQUIRED)'
                    insecure = allfacts(p, i).get('self.flags.insecure_tls_interception')
                    if vmt.endswith('CERT_NONE') and insecure is not True:
                        bad = ('verification of the origin certificate is switched off (verify_mode=%s) on a path where --insecure-tls-interception was not established' % vmt, p.describe(20))
                    elif not vmt.endswith('CERT_NONE') and not vmt.endswith('CERT_REQUIRED'):
                        bad = ('verify_mode handed to upstream.wrap is %s (expected CERT_REQUIRED, or CERT_NONE under the insecure flag)' % vmt, p.describe(20))
                    if hn is None or norm(sym.value(hn, i)) != 'text_(self.request.host)':
                        bad = ('upstream.wrap is not given the request host as hostname (%s): the name check is skipped or done against another name' % (norm(sym.value(hn, i)) if hn is not None else 'missing'), p.describe(20))
                    if ca is None or norm(sym.value(ca, i)) != 'self.flags.ca_file':
                        bad = ('upstream.wrap is not given flags.ca_file as trust store (%s)' % (norm(sym.value(ca, i)) if ca is not None else 'missing'), p.describe(20))
    ch.check(bad is None and n > 0, 'C11.1', ws, 'upstream.wrap(...)', 'verification policy follows the operator flag on %d path(s)' % n, bad[0] if bad else 'no wrap call', witness=bad[1] if bad else None)

    # ---------------- C11.2
    wr = prog.own_method('TcpServerConnection', 'wrap')
    params = wr.params
    gw = cfg_of(wr, prog)     # with exception edges: a handler that rebuilds the context differently is a path too
    res: Dict[str, Optional[Tuple[str, List[str]]]] = {'ctx': None, 'vm': None, 'ch': None, 'sni': None}
    bad13 = None
    n13 = 0
    seen = {'ctx': 0, 'vm': 0, 'ch': 0, 'sni': 0}
    for p in fpaths(gw):
        ch.paths += 1
        if p.exit_kind != 'return':
            continue
        sym = Sym(p)
        for i, st in p.stmts():
            if isinstance(st, ast.Assign) and isinstance(st.value, ast.Call) and attr_chain(st.value.func) == 'ssl.create_default_context':
                seen['ctx'] += 1
                c = st.value
                pur = norm(c.args[0]) if c.args else norm(_kw(c, 'purpose') or ast.Constant(value=None))
                caf = _kw(c, 'cafile')
                if not pur.endswith('SERVER_AUTH') or caf is None or norm(sym.value(caf, i)) != 'ca_file':
                    res['ctx'] = ('the upstream TLS context is created as %s: it must be the default SERVER_AUTH context with cafile=<ca_file argument>' % norm(c)[:80], p.describe())
            for chn, kind, node in attr_effects(st):
                if chn.endswith('.verify_mode') and kind == 'store':
                    seen['vm'] += 1
                    v = norm(sym.value(node.value, i))  # type: ignore[attr-defined]
                    if v != 'verify_mode':
                        res['vm'] = ('ctx.verify_mode is set to %s instead of the verify_mode argument' % v, p.describe())
                if chn.endswith('.check_hostname') and kind == 'store':
                    seen['ch'] += 1
                    v = norm(sym.value(node.value, i))  # type: ignore[attr-defined]
                    facts = allfacts(p, i)
                    none_mode = [val for k, val in facts.items() if k.replace(' ', '') in ('verify_mode==ssl.VerifyMode.CERT_NONE', 'verify_mode==ssl.CERT_NONE')]
                    no_name = facts.get('hostname is None') is True or facts.get('hostname is not None') is False or facts.get('hostname') is False
                    if v == 'False' and no_name:
                        pass        # the value of `hostname is not None` on a path where no name was given
                    elif v == 'False':
                        if not (none_mode and none_mode[-1] is True):
                            res['ch'] = ('ctx.check_hostname is switched off on a path where verify_mode == CERT_NONE was not established: the certificate chain is verified but not the name', p.describe())
                    elif v.replace(' ', '') not in ('hostnameisnotNone', 'True', 'hostname[1:-1]isnotNone', "hostname.strip('[]')isnotNone"):
                        res['ch'] = ('ctx.check_hostname is %s: whether the origin certificate\'s name is checked no longer depends only on a host name having been given '
                                     '(for some hosts the name check is silently dropped while the chain is still verified)' % v[:80], p.describe())
            for c in walk_no_nested(st):
                if isinstance(c, ast.Call) and isinstance(c.func, ast.Attribute) and c.func.attr == 'wrap_socket':
                    seen['sni'] += 1
                    sn = _kw(c, 'server_hostname')
                    vv = sym.value(sn, i) if sn is not None else ast.Constant(value='missing')
                    v = norm(vv)
                    form = _bare_host(vv, allfacts(p, i))
                    if form is None:
                        res['sni'] = ('wrap_socket(server_hostname=%s): the name the certificate is matched against is not the hostname argument (bare of the brackets of an IPv6 literal)' % v[:60], p.describe())
                    # C11.13: a bracketed literal never reaches the TLS layer
                    fd13 = allfacts(p, i)
                    br = [val for k, val in fd13.items() if k.replace(' ', '') in ("hostname.startswith('[')", "hostname[0]=='['", "hostname[:1]=='['", "hostname.endswith(']')", "hostname[-1]==']'", "hostname[-1:]==']'")]
                    n13 += 1
                    if form == 'same' and not any(b_ is False for b_ in br) and fd13.get('hostname is None') is not True and fd13.get('hostname is not None') is not False:
                        bad13 = ('the host name reaches ssl as server_hostname exactly as the caller wrote it, without its brackets having been ruled out or removed: for "CONNECT [::1]:443" / an https://[::1]/ upstream the '
                                 'certificate is matched against "[::1]", which no certificate names, so every IPv6 literal host fails verification (new_socket_connection and get_ext_config do strip them)', p.describe())
    ch.check(bad13 is None and n13 > 0, 'C11.13', wr, 'server_hostname free of brackets', 'an IPv6 literal is matched against certificates as the bare address (%d path(s))' % n13,
             bad13[0] if bad13 else 'no wrap_socket call found', witness=bad13[1] if bad13 else None)
    labels = {'ctx': 'default SERVER_AUTH context with the given CA file', 'vm': 'verify_mode applied', 'ch': 'check_hostname policy', 'sni': 'server_hostname = hostname'}
    for k in ('ctx', 'vm', 'ch', 'sni'):
        ch.check(res[k] is None and seen[k] > 0, 'C11.2', wr, labels[k], labels[k], res[k][0] if res[k] else '%s: site not found' % labels[k], witness=res[k][1] if res[k] else None)

    # ---------------- C11.3 who may weaken
    found: Dict[Tuple[str, str], List[str]] = {}
    for fn in prog.all_functions('proxy'):
        if fn.module.name.startswith(('proxy.testing', 'proxy.plugin')):
            continue
        hits = []
        for n_ in walk_no_nested(fn.node):
            if isinstance(n_, ast.Attribute) and n_.attr == 'CERT_NONE':
                hits.append('CERT_NONE')
            if isinstance(n_, ast.Call) and attr_chain(n_.func) in ('ssl.SSLContext', 'ssl._create_unverified_context', 'ssl._create_stdlib_context'):
                hits.append(attr_chain(n_.func))
            if isinstance(n_, (ast.Assign,)):
                for t in n_.targets:
                    if isinstance(t, ast.Attribute) and t.attr == 'check_hostname':
                        hits.append('check_hostname=')
        if hits:
            found[(fn.module.name, fn.qualname)] = hits
    for key, hits in sorted(found.items()):
        fn = [f for f in prog.all_functions('proxy') if (f.module.name, f.qualname) == key][0]
        if key in WEAKEN_TABLE:
            ch.ok('C11.3', fn, 'weakening site', '%s: %s' % (sorted(set(hits)), WEAKEN_TABLE[key]))
        else:
            ch.bad('C11.3', fn, 'weakening site', 'a new site can weaken TLS verification (%s) outside the frozen table of reviewed sites' % sorted(set(hits)))
    for key in WEAKEN_TABLE:
        if key not in found and key[0] not in ('proxy.http.client',):
            ch.note('C11.3 table entry %s no longer matches a site' % (key,))

    # ---------------- C11.4
    exc = ExcTypes(prog, ws.module)
    bad = None
    nh = 0
    for p in fpaths(g):
        hs = [g.nodes[nid] for nid, lab in p.steps if g.nodes[nid].kind == 'handler']
        if not hs or p.exit_kind != 'return':
            continue
        nh += 1
        last = p.stmts()[-1]
        rv = Sym(p).value(last[1].value, last[0]) if isinstance(last[1], ast.Return) and last[1].value is not None else None
        if not (isinstance(rv, ast.Constant) and rv.value is True):
            bad = ('after a failed TLS handshake with the origin (%s) wrap_server does not report failure: interception continues towards an unverified origin'
                   % norm(hs[0].ast.type), p.describe(20))  # type: ignore[union-attr]
    # the handlers must include certificate verification errors
    handled = [norm(h.type) for t in walk_no_nested(ws.node) if isinstance(t, ast.Try) for h in t.handlers if h.type is not None]
    if not any('SSLCertVerificationError' in h or h in ('ssl.SSLError', 'Exception', 'OSError') for h in handled):
        bad = ('wrap_server no longer handles certificate verification errors (%s)' % handled, [])
    ch.check(bad is None and nh > 0, 'C11.4', ws, 'handshake failure => True', 'every ssl error handler path returns True (%d path(s))' % nh, bad[0] if bad else 'no handler path', witness=bad[1] if bad else None)
    ic = prog.own_method('HttpProxyPlugin', 'intercept')
    gi = cfg_of(ic, prog, exc_edges=False)
    bad = None
    n = 0
    for p in fpaths(gi):
        if p.exit_kind != 'return':
            continue
        sym = Sym(p)
        calls = [(i, attr_chain(c.func)) for i, st in p.stmts() for c in walk_no_nested(st) if isinstance(c, ast.Call) and attr_chain(c.func) in ('self.wrap_server', 'self.wrap_client')]
        names = [c[1] for c in calls]
        if 'self.wrap_client' in names:
            n += 1
            if 'self.wrap_server' not in names or names.index('self.wrap_server') > names.index('self.wrap_client'):
                bad = ('the client side is wrapped before / without the upstream handshake', p.describe())
            # fact: result of wrap_server falsy
            ok = False
            for sidx, (nid, lab) in enumerate(p.steps):
                nd = gi.nodes[nid]
                if nd.kind == 'test' and lab is False and 'self.wrap_server()' in norm(sym.value(nd.ast, sidx)):  # type: ignore[arg-type]
                    ok = True
            if not ok:
                bad = ('wrap_client is reached without the result of wrap_server having been tested: a failed origin handshake does not stop the interception', p.describe())
    ch.check(bad is None and n > 0, 'C11.4', ic, 'wrap_server gates wrap_client', 'client side wrapped only after a successful upstream handshake', bad[0] if bad else 'wrap_client not reached', witness=bad[1] if bad else None)
    orc = prog.own_method('HttpProxyPlugin', 'on_request_complete')
    rets = [norm(s.value) for s in walk_no_nested(orc.node) if isinstance(s, ast.Return) and s.value is not None and 'intercept' in norm(s.value)]
    ch.check(rets == ['self.intercept()'], 'C11.4', orc, 'return self.intercept()', 'the interception result (teardown flag or wrapped socket) is returned to the handler',
             'on_request_complete no longer returns the result of intercept(): %s' % rets)

    # ---------------- C11.5
    gen = prog.own_method('HttpProxyPlugin', 'gen_ca_signed_certificate')
    global _PROG, _CALLER
    _PROG, _CALLER = prog, gen
    gg = cfg_of(gen, prog, exc_edges=False)
    bad = None
    bad12 = None
    n12 = 0
    seen_pub = seen_sign = 0
    for p in fpaths(gg, limit=50000):
        ch.paths += 1
        if p.exit_kind != 'return':
            continue
        sym = Sym(p)
        for i, st in p.stmts():
            for c in walk_no_nested(st):
                if isinstance(c, ast.Call) and attr_chain(c.func) in ('gen_public_key', 'sign_csr'):
                    a = _kw(c, 'alt_subj_names')
                    at = norm(sym.value(a, i)) if a is not None else 'missing'
                    if at != '[text_(self.request.host)]':
                        bad = ('%s is given alt_subj_names=%s: the generated certificate does not name the host the client asked for' % (attr_chain(c.func), at[:60]), p.describe(12))
                    if attr_chain(c.func) == 'gen_public_key':
                        seen_pub += 1
                        # C11.12: the subject does not depend on the CONNECT host
                        sj = _kw(c, 'subject')
                        if sj is not None:
                            n12 += 1
                            sv = Sym(p, item_stores=True).value(sj, i)
                            if any(isinstance(x, ast.Attribute) and x.attr == 'host' and attr_chain(x) in ('self.request.host', 'request.host') for x in ast.walk(sv)):
                                bad12 = ('the subject of the generated leaf (%s) is built from the CONNECT host: a commonName holds at most 64 characters while host names run to 253, so '
                                         'certificate generation fails for long names that are perfectly valid -- the host belongs in subjectAltName, the subject comes from the upstream certificate' % norm(sv)[:90], p.describe(14))
                    else:
                        seen_sign += 1
                        for kw, want in (('ca_key_path', 'self.flags.ca_key_file'), ('ca_crt_path', 'self.flags.ca_cert_file'), ('crt_path', 'cert_file_path')):
                            v = _kw(c, kw)
                            vt = norm(sym.value(v, i)) if v is not None else 'missing'
                            if vt != want:
                                bad = ('sign_csr(%s=%s), expected %s: the leaf is not signed by / written for the configured CA and path' % (kw, vt[:50], want), p.describe(12))
    ch.check(bad12 is None and n12 > 0, 'C11.12', gen, 'subject independent of the CONNECT host', 'the subject handed to gen_public_key is built from the upstream certificate only (%d path(s))' % n12,
             bad12[0] if bad12 else 'no subject argument found', witness=bad12[1] if bad12 else None)
    ch.check(bad is None and seen_pub > 0 and seen_sign > 0, 'C11.5', gen, 'SAN and CA dataflow', 'host name and CA files reach gen_public_key / sign_csr unchanged',
             bad[0] if bad else 'generation calls not found', witness=bad[1] if bad else None)
    sc = prog.function('proxy.common.pki', 'sign_csr')
    # the argument vector handed to openssl, by value: a list display, or displays / named lists joined with +
    def _flat_list(e: ast.AST) -> Optional[List[ast.AST]]:
        if isinstance(e, (ast.List, ast.Tuple)):
            out_: List[ast.AST] = []
            for x in e.elts:
                if isinstance(x, ast.Starred):
                    sub = _flat_list(x.value)
                    if sub is None:
                        return None
                    out_.extend(sub)
                else:
                    out_.append(x)
            return out_
        if isinstance(e, ast.BinOp) and isinstance(e.op, ast.Add):
            l_, r_ = _flat_list(e.left), _flat_list(e.right)
            return None if l_ is None or r_ is None else l_ + r_
        return None
    okc = False
    n_cmd = 0
    for p in fpaths(cfg_of(sc, prog, exc_edges=False)):
        ch.paths += 1
        symc = Sym(p)
        for i_, nd_, lab_ in p.executed():
            if nd_.ast is None or nd_.kind != 'stmt':
                continue
            for c_ in walk_no_nested(nd_.ast):
                if isinstance(c_, ast.Call) and attr_chain(c_.func) == 'run_openssl_command' and c_.args:
                    n_cmd += 1
                    elts = _flat_list(symc.value(c_.args[0], i_))
                    if elts is None:
                        okc = False
                        continue
                    el = [norm(e) for e in elts]

                    def after(flag: str) -> Optional[str]:
                        f = repr(flag)
                        return el[el.index(f) + 1] if f in el and el.index(f) + 1 < len(el) else None
                    # the extension file = whatever name `with ext_file(<alt names parameter>, ...) as X` binds
                    withs = [w for w in walk_no_nested(sc.node) if isinstance(w, ast.With) and isinstance(w.items[0].context_expr, ast.Call) and attr_chain(w.items[0].context_expr.func) == 'ext_file'
                             and w.items[0].context_expr.args and norm(w.items[0].context_expr.args[0]) == 'alt_subj_names' and isinstance(w.items[0].optional_vars, ast.Name)]
                    ext_names = {w.items[0].optional_vars.id for w in withs}   # type: ignore[union-attr]
                    okc = after('-CA') == 'ca_crt_path' and after('-CAkey') == 'ca_key_path' and ((after('-extfile') or '') in ext_names or (after('-extfile') or '').replace(' ', '').startswith('__enter__(ext_file(alt_subj_names')) and after('-in') == 'csr_path' and after('-out') == 'crt_path' and bool(withs)
    okc = okc and n_cmd > 0
    ch.check(okc, 'C11.5', sc, 'openssl x509 -req arguments', '-CA/-CAkey/-extfile/-in/-out carry the CA certificate, CA key, SAN extension file, CSR and output path',
             'sign_csr no longer places the CA certificate / key / SAN extension file at -CA / -CAkey / -extfile')
    guc = prog.own_method('HttpProxyPlugin', 'generate_upstream_certificate')
    # isfile tests and the generation call must happen with self.lock held (`with self.lock:` or acquire ... release), on every path
    from .common import lock_held_steps
    outside = []
    gens = 0
    locked_any = False
    for p in fpaths(cfg_of(guc, prog, exc_edges=False)):
        ch.paths += 1
        held = lock_held_steps(p, guc.node, 'self.lock')
        for idx, nd, lab in p.executed():
            if nd.ast is None or nd.kind not in ('stmt', 'test'):
                continue
            for n_ in walk_no_nested(nd.ast):
                if isinstance(n_, ast.Call) and attr_chain(n_.func) in ('os.path.isfile', 'os.path.exists'):
                    if not held.get(idx):
                        outside.append('the cached-certificate test %s' % norm(n_))
                    else:
                        locked_any = True
                if isinstance(n_, ast.Call) and attr_chain(n_.func) == 'self.gen_ca_signed_certificate':
                    gens += 1
                    if not held.get(idx):
                        outside.append('certificate generation')
                    else:
                        locked_any = True
    outside = sorted(set(outside))
    ch.check(not outside and gens > 0 and locked_any, 'C11.5', guc, 'lookup and generation under the lock', 'cached-certificate test and generation both happen with self.lock held',
             '%s happens outside `with self.lock`: a second connection for the same host can see the half-written certificate file of a generation still in progress and hand it to its client'
             % ' and '.join(outside) if outside else 'no locked generation found')
    # the path returned (and tested / generated into) is a function of ca_cert_dir and the request host
    WANT_PATH = 'HttpProxyPlugin.generated_cert_file_path(self.flags.ca_cert_dir, text_(self.request.host))'
    gg = cfg_of(guc, prog, exc_edges=False)
    rets_p: List[str] = []
    gen_args: List[str] = []
    for p in fpaths(gg):
        ch.paths += 1
        if p.exit_kind != 'return':
            continue
        sym = Sym(p)
        for i, st in p.stmts():
            if isinstance(st, ast.Return) and st.value is not None:
                rets_p.append(norm(sym.value(st.value, i)))
            for c in walk_no_nested(st):
                if isinstance(c, ast.Call) and attr_chain(c.func) == 'self.gen_ca_signed_certificate' and c.args:
                    gen_args.append(norm(sym.value(c.args[0], i)))
    okp = bool(rets_p) and set(rets_p) == {WANT_PATH} and set(gen_args) <= {WANT_PATH}
    ch.check(okp, 'C11.5', guc, 'certificate path', 'certificate path is a function of ca_cert_dir and the request host (returned, and generated into, on every path)',
             'the certificate path is returned as %s / generated into %s' % (sorted(set(rets_p)), sorted(set(gen_args))))
    wc = prog.own_method('HttpProxyPlugin', 'wrap_client')
    gwc = cfg_of(wc, prog, exc_edges=False)
    wraps: List[Tuple[str, str]] = []
    for p in fpaths(gwc):
        ch.paths += 1
        sym = Sym(p)
        for i, st in p.stmts():
            for c in walk_no_nested(st):
                if isinstance(c, ast.Call) and attr_chain(c.func) == 'self.client.wrap' and len(c.args) == 2:
                    wraps.append((norm(sym.value(c.args[0], i)), norm(sym.value(c.args[1], i))))
    okw = bool(wraps) and all(a0 == 'self.flags.ca_signing_key_file' and a1.startswith('self.generate_upstream_certificate(cert_der_to_dict') for a0, a1 in wraps)
    ch.check(okw, 'C11.5', wc, 'client.wrap(key, generated cert)', 'client is presented the generated certificate with the signing key',
             'client.wrap is not called with (flags.ca_signing_key_file, <certificate generated for the upstream\'s certificate>): %s' % sorted(set(wraps))[:3])

    # ---------------- C11.6
    gec = prog.function('proxy.common.pki', 'get_ext_config')
    ge = cfg_of(gec, prog)
    ip_ok = dns_ok = False
    bad = None
    for p in fpaths(ge):
        sym6 = Sym(p)
        for i, n_, lab in p.executed():
            if n_.kind != 'stmt':
                continue
            for c in walk_no_nested(n_.ast):  # type: ignore[arg-type]
                if isinstance(c, ast.Call) and isinstance(c.func, ast.Attribute) and c.func.attr == 'append' and c.args:
                    t = norm(sym6.value(c.args[0], i))
                    in_handler = any(g2.kind == 'handler' and 'ValueError' in norm(g2.ast.type) for nid, l2 in p.steps[:i] for g2 in [ge.nodes[nid]] if g2.kind == 'handler' and g2.ast.type is not None)  # type: ignore[union-attr]
                    ipcall = any(isinstance(cc, ast.Call) and attr_chain(cc.func) == 'ipaddress.ip_address' for j, s2 in p.stmts() if j < i for cc in walk_no_nested(s2))
                    if t.startswith("b'IP:"):
                        if ipcall and not in_handler:
                            ip_ok = True
                        else:
                            bad = ('an IP: alternative name is emitted without the name having parsed as an address', p.describe())
                    if t.startswith("b'DNS:"):
                        if in_handler or not ipcall:
                            dns_ok = dns_ok or in_handler
                        else:
                            bad = ('a DNS: alternative name is emitted for a name that parsed as an IP address: clients reject the certificate for an IP host', p.describe())
    ch.check(bad is None and ip_ok and dns_ok, 'C11.6', gec, 'SAN type', 'IP: for address literals, DNS: otherwise', bad[0] if bad else 'the SAN type does not depend on whether the name is an IP address (IP branch %s, DNS fallback %s)' % (ip_ok, dns_ok), witness=bad[1] if bad else None)

    # ---------------- C11.11 receive buffers vs TLS records
    from .common import recvbuf_tls_check
    recvbuf_tls_check(ch, 'C11.11')

    # ---------------- C11.9
    from .common import tls_retry_check
    tls_retry_check(ch, 'C11.9')

    # ---------------- C11.10 scratch config files
    pki = prog.module('proxy.common.pki')
    UNIQUE_SRC = ('uuid.uuid4', 'uuid.uuid1', 'tempfile.mkstemp', 'tempfile.NamedTemporaryFile', 'tempfile.mkdtemp', 'tempfile.TemporaryDirectory', 'secrets.token_hex', 'os.urandom')
    n10 = 0
    for fn in prog.all_functions('proxy.common.pki'):
        opens = [c for c in walk_no_nested(fn.node) if isinstance(c, ast.Call) and attr_chain(c.func) == 'open' and len(c.args) >= 2 and isinstance(c.args[1], ast.Constant) and 'w' in str(c.args[1].value)]
        if not opens:
            continue
        gp = cfg_of(fn, prog, exc_edges=False)
        verdict: Dict[int, Tuple[ast.Call, bool, str]] = {}
        for p in fpaths(gp):
            sym = Sym(p)
            for i, nd, lab in p.executed():
                if nd.ast is None:
                    continue
                for c in walk_no_nested(nd.ast if nd.kind != 'with' else nd.ast):
                    if any(c is o for o in opens):
                        v = sym.value(c.args[0], i)   # type: ignore[attr-defined]
                        uniq = any(isinstance(x, ast.Call) and (attr_chain(x.func) or '') in UNIQUE_SRC for x in ast.walk(v))
                        verdict[id(c)] = (c, uniq, norm(v)[:80])   # type: ignore[assignment]
        for c, uniq, txt in verdict.values():
            n10 += 1
            ch.check(uniq, 'C11.10', fn, c, 'scratch file name unique per invocation',
                     'the openssl scratch file is written to %s, the same path for every invocation: two worker processes signing leaves for two new hosts at the same moment overwrite each '
                     'other\'s extension file, and host X\'s certificate is issued (and cached) with host Y\'s subjectAltName' % txt)
    if n10 == 0:
        ch.bad('C11.10', None, 'scratch files', 'no scratch config file written in proxy/common/pki.py', module_rel='proxy/common/pki.py')

    # ---------------- C11.8
    _who_reads_flags_only(ch)

    # ---------------- C11.7
    tie = prog.own_method('HttpProxyPlugin', '_tls_intercept_enabled')
    gt = cfg_of(tie, prog, exc_edges=False)
    bad = None
    n = 0
    for p in fpaths(gt):
        if p.exit_kind != 'return':
            continue
        n += 1
        sym = Sym(p)
        fd = list(allfacts(p).items())
        last = p.stmts()[-1]
        rv = norm(sym.value(last[1].value, last[0])) if isinstance(last[1], ast.Return) and last[1].value is not None else ''
        # a path on which some plugin said False must return that plugin's answer
        said_false = any(k.replace(' ', '') == 'do_interceptisFalse' and v for k, v in fd)
        if said_false and 'do_intercept(self.request)' not in rv:
            bad = ('a plugin opted out (do_intercept() is False) but _tls_intercept_enabled returns %s' % rv[:60], p.describe())
        if ('do_intercept', False) in fd[:1] and rv not in ('self.tls_interception_enabled',):
            bad = ('interception is not configured but _tls_intercept_enabled returns %s' % rv[:60], p.describe())
    brk = any(isinstance(l, ast.For) and any(isinstance(b, ast.Break) for b in walk_no_nested(l)) for l in walk_no_nested(tie.node))
    ch.check(bad is None and n > 0 and brk, 'C11.7', tie, 'opt-out', 'plugin opt-out ends the loop and is returned', bad[0] if bad else 'the plugin loop does not stop at the first opt-out', witness=bad[1] if bad else None)
    ch.import_rules('C04', {'C04.12': 'C11.14'}, 'requests decrypted out of an intercepted tunnel reach the origin only if the credentials that admitted the CONNECT are not asked for again inside the TLS session, where a client never sends them')


def _who_reads_flags_only(ch: Checker) -> None:
    prog = ch.prog
    hp = prog.class_named('HttpProxyPlugin')
    n = 0
    for fn in hp.methods.values():
        for a in walk_no_nested(fn.node):
            if isinstance(a, ast.Attribute) and isinstance(a.ctx, ast.Load) and a.attr == 'tls_interception_enabled' and isinstance(a.value, ast.Name) and a.value.id == 'self':
                if fn.name != '_tls_intercept_enabled' and not _decision_affects_traffic(fn, a):
                    # the branches it selects between do the same to the connections (only bookkeeping differs, e.g. whether relayed bytes are also shown to the
                    # response parser, whose failures no longer affect the relay): not a necessary condition of the property at this site
                    n += 1
                    ch.ok('C11.8', fn, 'self.tls_interception_enabled @%s (bookkeeping only)' % fn.name, 'selects between branches with identical effects on the connections', line=a.lineno)
                    continue
                n += 1
                ch.check(fn.name == '_tls_intercept_enabled', 'C11.8', fn, 'self.tls_interception_enabled @%s' % fn.name, 'read inside the plugin-aware predicate only',
                         '%s decides on `self.tls_interception_enabled`, which only looks at the configuration: a connection whose plugin opted out of interception (do_intercept() False) '
                         'is then treated as intercepted here -- its opaque tunnel bytes are parsed as HTTP (and dropped with the connection when they do not parse), or it is handled '
                         'differently from the other decision points' % fn.qualname, line=a.lineno)
            if isinstance(a, ast.Attribute) and isinstance(a.ctx, ast.Load) and a.attr == '_tls_intercept_enabled' and isinstance(a.value, ast.Name) and a.value.id == 'self':
                n += 1
                ch.ok('C11.8', fn, 'self._tls_intercept_enabled @%s #%d' % (fn.name, n), 'plugin-aware predicate', line=a.lineno)
            if isinstance(a, ast.Call) and attr_chain(a.func) == 'tls_interception_enabled':
                n += 1
                ch.bad('C11.8', fn, a, '%s calls tls_interception_enabled(flags) directly instead of the plugin-aware predicate' % fn.qualname, line=a.lineno)


EFFECTS = ('queue', 'intercept', 'wrap', 'wrap_client', 'wrap_server', 'connect', 'connect_upstream', 'close', 'flush', 'send', 'recv', '_close_and_release')


def _decision_affects_traffic(fn: FuncInfo, attr_node: ast.AST) -> bool:
    """does the if-statement whose test reads attr_node select between branches that act differently on the connections?"""
    for st in walk_no_nested(fn.node):
        if isinstance(st, ast.If) and any(x is attr_node for x in ast.walk(st.test)):
            def effects(body: List[ast.stmt]) -> List[str]:
                out = []
                for s_ in body:
                    for c in ast.walk(s_):
                        if isinstance(c, ast.Call) and isinstance(c.func, ast.Attribute) and c.func.attr in EFFECTS and not norm(c.func.value).startswith(('self.response', 'self.pipeline_response', 'logger')):
                            out.append(norm(c)[:80])
                    for r in ast.walk(s_):
                        if isinstance(r, (ast.Return, ast.Raise, ast.Break, ast.Continue)):
                            out.append(type(r).__name__ + ':' + (norm(r.value)[:40] if isinstance(r, ast.Return) and r.value is not None else ''))
                return out
            return effects(st.body) != effects(st.orelse)
    return True     # read somewhere else (an assignment, an argument): assume it matters
