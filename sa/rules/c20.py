"""C20 -- idle connections are reaped after the timeout and active ones never are.

Timing is runtime; decided are the predicate, its inputs and the reaper's reachability:
  C20.1 idle predicate: idle only with an empty client buffer AND inactivity > flags.timeout;
        inactivity = time.time() - last_activity;
  C20.2 activity is stamped before every client read and every client write is delegated, and
        nowhere else (upstream activity does not count);
  C20.3 the reaper closes only what the predicate names;
  C20.4 the predicate is consulted periodically in both drivers: threadless -- the tick counter
        advances on EVERY iteration of the executor loop, the reaper runs when
        ticks * (select timeout + wait timeout) reaches the cleanup period, and the counter is
        reset only then; threaded -- is_inactive() is tested on every iteration and select has
        a finite timeout;
  C20.5 --timeout feeds flags.timeout with DEFAULT_TIMEOUT as default.
Not decided: the bound on the reaping delay under load, clock behaviour, > vs >= at the threshold."""
import ast
from typing import Any, Dict, List, Optional, Tuple

from ..cfg import cfg_of
from ..consteval import ConstEval
from ..flow import Sym, fpaths, attr_effects, feasible, allfacts
from ..model import FuncInfo, attr_chain, norm, walk_no_nested, AnalysisError
from ..report import Checker
from .common import idle_predicate_check


def run(ch: Checker) -> None:
    prog = ch.prog
    ce = ConstEval(prog)
    ch.rule('C20.1', 'is_inactive(): True only with `not work.has_buffer()` and `_connection_inactive_for() > flags.timeout`; _connection_inactive_for = time.time() - self.last_activity', 3)
    ch.rule('C20.6', 'who may write to the client socket: the client connection is flushed only from BaseTcpServerHandler.handle_writables (behind the activity stamp of its override), the final flush of threaded shutdown, and TcpClientConnection.wrap (before the TLS handshake); plugins queue, they do not flush', 3)
    ch.rule('C20.2', 'HttpProtocolHandler.handle_readables / handle_writables store last_activity = time.time() before delegating the client read / flush to the base class; '
                     'last_activity is written only in __init__ and those two methods', 3)
    ch.rule('C20.3', 'Threadless._cleanup_inactive collects a work id only when its is_inactive() returned True (or raised) and cleans up exactly the collected ids', 1)
    ch.rule('C20.4', 'threadless: on every way round the `while True` of _run_forever the tick counter that feeds the elapsed-time test is incremented exactly once inside the loop itself; '
                     '_cleanup_inactive() runs exactly under `ticks * (select + wait timeout) >= cleanup_inactive_timeout`; the counter is reset only after the reaper ran; '
                     'threaded: is_inactive() is evaluated on every iteration of run() and select() has a finite timeout', 4)
    ch.rule('C20.5', '--timeout is declared with default DEFAULT_TIMEOUT; FlagParser.initialize stores the configured value in args.timeout as it is (no int()/round()/floor narrowing: '
                     'an embedding application may configure 2.5 s, and 0.5 must not become 0)', 2)

    # ---------------- C20.1
    idle_predicate_check(ch, 'C20.1')
    ia = prog.own_method('HttpProtocolHandler', 'is_inactive')
    gi = cfg_of(ia, prog, exc_edges=False)
    bad = None
    n = 0
    for p in fpaths(gi):
        if p.exit_kind != 'return':
            continue
        last = p.stmts()[-1]
        if isinstance(last[1], ast.Return) and last[1].value is not None:
            v = Sym(p).value(last[1].value, last[0])
            if isinstance(v, ast.Constant) and v.value is True:
                n += 1
                sym0 = Sym(p)
                fd = {}
                for sidx, (nid, lab) in enumerate(p.steps):
                    nd = gi.nodes[nid]
                    if nd.kind == 'test' and lab in (True, False):
                        fd[norm(sym0.value(nd.ast, sidx))] = lab  # type: ignore[arg-type]
                t = [k for k, val in fd.items() if val is True and k.replace(' ', '') == 'self._connection_inactive_for()>self.flags.timeout']
                t += [k for k, val in fd.items() if val is False and k.replace(' ', '') == 'self._connection_inactive_for()<=self.flags.timeout']
                if not t:
                    bad = ('is_inactive() reports idle on a path that did not establish `inactive for > flags.timeout` (facts %s)' % list(fd.items()), p.describe())
            elif not isinstance(v, ast.Constant):
                n += 1
                if 'self._connection_inactive_for()>self.flags.timeout' not in norm(v).replace(' ', ''):
                    bad = ('is_inactive() returns %s, which does not compare the inactivity with flags.timeout' % norm(v)[:80], p.describe())
    ch.check(bad is None and n > 0, 'C20.1', ia, 'timeout comparison', 'idle requires inactivity > flags.timeout', bad[0] if bad else 'is_inactive never returns True', witness=bad[1] if bad else None)
    cif = prog.own_method('HttpProtocolHandler', '_connection_inactive_for')
    gcif = cfg_of(cif, prog, exc_edges=False)
    rets = []
    for p in fpaths(gcif):
        if p.exit_kind == 'return' and p.stmts() and isinstance(p.stmts()[-1][1], ast.Return) and p.stmts()[-1][1].value is not None:
            rets.append(norm(Sym(p).value(p.stmts()[-1][1].value, p.stmts()[-1][0])).replace(' ', ''))
    ch.check(bool(rets) and set(rets) == {'time.time()-self.last_activity'}, 'C20.1', cif, 'inactivity', 'inactivity = now - last_activity', '_connection_inactive_for returns %s' % rets)

    # ---------------- C20.2
    hph = prog.class_named('HttpProtocolHandler')
    for name, deleg in (('handle_readables', 'handle_readables'), ('handle_writables', 'handle_writables')):
        fn = hph.methods[name]
        g = cfg_of(fn, prog)
        bad = None
        n = 0
        for p in fpaths(g):
            ch.paths += 1
            ex = p.executed()
            sym = Sym(p)
            for k, (i, nd, lab) in enumerate(ex):
                if nd.kind in ('stmt', 'test') and nd.ast is not None and any(isinstance(c, ast.Call) and norm(c.func) == 'super().%s' % deleg for c in walk_no_nested(nd.ast)):
                    n += 1
                    stamped = False
                    for j, st in p.stmts():
                        if j >= i:
                            break
                        tg = st.targets[0] if isinstance(st, ast.Assign) and len(st.targets) == 1 else st.target if isinstance(st, ast.AnnAssign) else None
                        val = st.value if isinstance(st, (ast.Assign, ast.AnnAssign)) else None
                        if tg is not None and val is not None and attr_chain(tg) == 'self.last_activity' and norm(sym.value(val, j)) == 'time.time()':
                            stamped = True
                    if not stamped:
                        bad = ('the client %s is delegated to the base class without stamping last_activity first: a connection that only %s data looks idle and is reaped after --timeout '
                               'although traffic is flowing' % ('read' if 'read' in name else 'write/flush', 'receives' if 'read' in name else 'is sent'), p.describe(16))
        ch.check(bad is None and n > 0, 'C20.2', fn, 'stamp before %s' % deleg, 'last_activity stamped before every delegated client %s (%d path(s))' % ('read' if 'read' in name else 'write', n),
                 bad[0] if bad else 'delegation to the base class not found', witness=bad[1] if bad else None)
    writers = set()
    for fn in prog.all_functions('proxy'):
        if fn.module.name.startswith(('proxy.plugin', 'proxy.testing')):
            continue
        for chn, kind, node in attr_effects(fn.node):
            if chn.endswith('.last_activity'):
                writers.add(fn.qualname)
    allowed = {'HttpProtocolHandler.__init__', 'HttpProtocolHandler.handle_readables', 'HttpProtocolHandler.handle_writables'}
    ch.check(writers == allowed, 'C20.2', hph.methods['__init__'], 'who may write last_activity', 'last_activity written only by %s' % sorted(writers),
             'last_activity is written by %s (expected exactly %s): activity that is not client-side read/write readiness moves the idle clock, or client activity no longer does' % (sorted(writers), sorted(allowed)))

    # ---------------- C20.6 who may write to the client socket
    allowed6 = {'BaseTcpServerHandler.handle_writables', 'HttpProtocolHandler._flush', 'TcpClientConnection.wrap'}
    n6 = 0
    for fn in prog.all_functions('proxy', include_inlined=True):
        if fn.module.name.startswith('proxy.testing') or fn.cls is None:
            continue
        for c_ in walk_no_nested(fn.node):
            if isinstance(c_, ast.Call) and isinstance(c_.func, ast.Attribute) and c_.func.attr == 'flush':
                recv = attr_chain(c_.func.value) or ''
                is_client = recv in ('self.client', 'self.work') or (recv == 'self' and any(b.name == 'TcpClientConnection' for b in [fn.cls] + prog.mro(fn.cls)))
                if not is_client:
                    continue
                n6 += 1
                ch.check(fn.qualname in allowed6, 'C20.6', fn, c_, 'client output leaves through the handler\'s write path',
                         '%s writes to the client socket itself: the idle clock is stamped in HttpProtocolHandler.handle_writables, only when the client is write-ready AND still has output queued; output pushed '
                         'out from here never passes that point, so a connection that is being written to all the time looks idle and is reaped after --timeout' % fn.qualname)
    if n6 == 0:
        raise AnalysisError('anchor vanished: no flush of the client connection found')
    # ---------------- C20.3
    ci = prog.own_method('Threadless', '_cleanup_inactive')
    g = cfg_of(ci, prog)
    bad = None
    n = 0
    for p in fpaths(g):
        sym = Sym(p)
        for i, nd, lab in p.executed():
            if nd.kind != 'stmt' or nd.ast is None or lab == 'exc':
                continue
            for c in walk_no_nested(nd.ast):
                if isinstance(c, ast.Call) and isinstance(c.func, ast.Attribute) and c.func.attr == 'append' and c.args:
                    n += 1
                    fd = list(allfacts(p, i).items())
                    ok = False
                    for sidx, (nid, lb) in enumerate(p.steps[:i]):
                        n2 = g.nodes[nid]
                        if n2.kind == 'test' and lb is True:
                            e = sym.value(n2.ast, sidx)  # type: ignore[arg-type]
                            t = norm(e)
                            if t.endswith('.is_inactive()') or t == 'True':
                                ok = True
                    # ... or the predicate itself raised (the exception edge out of the statement that evaluates it was taken)
                    for sidx, (nid, lb) in enumerate(p.steps[:i]):
                        n2 = g.nodes[nid]
                        if lb == 'exc' and n2.ast is not None and any(isinstance(c2, ast.Call) and isinstance(c2.func, ast.Attribute) and c2.func.attr == 'is_inactive' for c2 in walk_no_nested(n2.ast)):
                            ok = True
                    if not ok:
                        bad = ('a work id is queued for reaping on a path where its is_inactive() was not found true', p.describe())
    # the sweep visits every work: the loop over the work table is left only by exhaustion
    from .common import dict_iter
    sweeps = [l for l in walk_no_nested(ci.node) if isinstance(l, ast.For) and dict_iter(l.target, l.iter, 'self.works') is not None]
    for l in sweeps:
        for x in walk_no_nested(l):
            if isinstance(x, (ast.Break, ast.Return)) or (isinstance(x, ast.Raise)):
                inner_loops = [y for y in walk_no_nested(l) if isinstance(y, (ast.For, ast.While)) and y is not l and any(z is x for z in ast.walk(y))]
                if isinstance(x, ast.Break) and inner_loops:
                    continue
                bad = bad or ('the reaper\'s sweep over the work table stops early (%s at line %d): works after that point are not examined in this sweep, so an idle connection '
                              'that sits behind a live one is not closed within the bound' % (type(x).__name__.lower(), x.lineno), [])
    if not sweeps:
        bad = bad or ('no loop over self.works in _cleanup_inactive', [])
    cleaned = [norm(c.args[0]) for l in walk_no_nested(ci.node) if isinstance(l, ast.For) for c in walk_no_nested(l) if isinstance(c, ast.Call) and attr_chain(c.func) == 'self._cleanup' and c.args]
    ch.check(bad is None and n > 0 and len(cleaned) == 1, 'C20.3', ci, 'reap only the idle', 'only ids whose predicate held are collected and cleaned up', bad[0] if bad else 'collection / clean-up loop not found', witness=bad[1] if bad else None)

    # ---------------- C20.4 threadless
    rf = prog.own_method('Threadless', '_run_forever')
    m = rf.module
    g = cfg_of(rf, prog)
    from .common import loop_containing_call, leaves_flag_loop
    xloop = loop_containing_call(rf, 'self._run_once')
    heads = [nd for nd in g.nodes if nd.kind == 'join' and nd.ast is xloop] if xloop is not None else []
    if not heads:
        ch.bad('C20.4', rf, 'executor loop', 'no loop around self._run_once() in _run_forever')
    else:
        head = heads[0]
        # the elapsed test and its counter
        counter = None
        period = None
        for p in g.paths(start=head.id, stop=lambda nd: nd.id == head.id or nd.kind == 'exit', limit=20000):
            sym = Sym(p)
            for sidx, (nid, lab) in enumerate(p.steps):
                nd = g.nodes[nid]
                if nd.kind == 'test' and isinstance(nd.ast, ast.Compare) and 'cleanup_inactive_timeout' in norm(nd.ast):
                    e = sym.value(nd.ast, sidx)
                    l = e.left  # type: ignore[attr-defined]
                    if isinstance(l, ast.BinOp) and isinstance(l.op, ast.Mult):
                        # counter is the factor that is not the period constant expression
                        for a, b in ((l.left, l.right), (l.right, l.left)):
                            if 'DEFAULT_SELECTOR_SELECT_TIMEOUT' in norm(b) and 'wait_timeout' in norm(b):
                                counter_expr = a
                                period = norm(b)
                                # un-inlined counter name: find the variable in the original statement
                                counter = norm(a)
        # walk cyclic paths
        bad_inc = bad_reap = bad_reset = None
        n_cyc = 0
        reap_paths = 0
        cname = None
        # counter variable name (local) = the Name multiplied in the `elapsed = X * (...)` statement
        for st in walk_no_nested(rf.node):
            if isinstance(st, ast.Assign) and isinstance(st.value, ast.BinOp) and isinstance(st.value.op, ast.Mult) and 'DEFAULT_SELECTOR_SELECT_TIMEOUT' in norm(st.value):
                for side in (st.value.left, st.value.right):
                    if 'DEFAULT_SELECTOR_SELECT_TIMEOUT' not in norm(side):
                        cname = norm(side)
        if cname is None and counter is not None and counter.isidentifier():
            cname = counter          # found by value in the elapsed test (the period may be held in a named temporary)
        for p in g.paths(start=head.id, stop=lambda nd: nd.id == head.id or nd.kind == 'exit', limit=20000):
            if p.end != head.id or not feasible(p) or leaves_flag_loop(xloop, p):
                continue
            n_cyc += 1
            incs = 0
            net: Any = ('t', 0)          # the counter's value as a function of its value t on entry: ('t', k) = t + k, ('c', k) = the constant k
            resets = 0
            reaped = False
            reap_fact = None
            for sidx, (nid, lab) in enumerate(p.steps):
                nd = g.nodes[nid]
                if nd.kind == 'test' and 'cleanup_inactive_timeout' in norm(nd.ast):  # type: ignore[arg-type]
                    reap_fact = lab
                if nd.kind == 'stmt' and nd.ast is not None:
                    st = nd.ast
                    if isinstance(st, ast.AugAssign) and norm(st.target) == cname and isinstance(st.op, ast.Add) and isinstance(st.value, ast.Constant) and isinstance(st.value.value, int):
                        incs += 1
                        net = (net[0], net[1] + st.value.value)
                    if isinstance(st, ast.Assign) and norm(st.targets[0]) == cname and isinstance(st.value, ast.Constant) and isinstance(st.value.value, int) and not isinstance(st.value.value, bool):
                        resets += 1
                        net = ('c', st.value.value)
                        if not reaped:
                            bad_reset = ('the tick counter is reset on a way round the loop on which the reaper did not run', p.describe(16))
                    if any(isinstance(c, ast.Call) and attr_chain(c.func) == 'self._cleanup_inactive' for c in walk_no_nested(st)):
                        reaped = True
                        reap_paths += 1
                        if reap_fact is not True:
                            bad_reap = ('the reaper runs on a path that did not establish elapsed >= cleanup_inactive_timeout', p.describe(16))
            # one tick per way round: t + 1, or -- where the reaper ran and the count restarts -- the constant 0 or 1
            if cname is None or not (net == ('t', 1) or (reaped and net[0] == 'c' and net[1] in (0, 1))):
                bad_inc = ('on a way round the executor loop the tick counter `%s` that feeds the elapsed-time test is advanced %d time(s) inside the loop (exactly once expected): '
                           'if ticks are only counted on some iterations (e.g. only when select timed out) a busy neighbour connection keeps the reaper from ever running and idle '
                           'connections are never closed' % (cname, incs), p.describe(16))
            if reap_fact is True and not reaped:
                bad_reap = ('elapsed >= cleanup_inactive_timeout holds but the reaper is not called on that way round the loop', p.describe(16))
        ch.check(bad_inc is None and n_cyc > 0, 'C20.4', rf, 'tick advances every iteration', 'tick counter %s += 1 exactly once on each of %d way(s) round the loop' % (cname, n_cyc),
                 bad_inc[0] if bad_inc else 'no cyclic path', witness=bad_inc[1] if bad_inc else None)
        ch.check(bad_reap is None and bad_reset is None and reap_paths > 0, 'C20.4', rf, 'reaper under the elapsed test', 'reaper runs exactly under the elapsed test; counter reset only then',
                 (bad_reap or bad_reset or ('reaper never called', []))[0], witness=(bad_reap or bad_reset or ('', []))[1])
        # the period is a positive constant sum and the cleanup period finite
        sel = ce.try_eval(m, ast.parse('DEFAULT_SELECTOR_SELECT_TIMEOUT', mode='eval').body)
        wait = ce.try_eval(m, ast.parse('DEFAULT_WAIT_FOR_TASKS_TIMEOUT', mode='eval').body)
        per = ce.try_eval(m, ast.parse('DEFAULT_INACTIVE_CONN_CLEANUP_TIMEOUT', mode='eval').body)
        okp = isinstance(sel, (int, float)) and isinstance(wait, (int, float)) and isinstance(per, (int, float)) and sel + wait > 0 and per / (sel + wait) < 10000
        ch.check(bool(okp), 'C20.4', rf, 'tick period', 'select %.3fs + wait %.3fs per tick, reaper every %.0fs (at most %d ticks apart)' % (sel or 0, wait or 0, per or 0, int((per or 0) / ((sel or 0) + (wait or 0) or 1)) + 1),
                 'tick period constants are not positive finite numbers (%s, %s, %s)' % (sel, wait, per))
    # threaded
    run_ = prog.own_method('HttpProtocolHandler', 'run')
    gr = cfg_of(run_, prog)
    hr = [nd for nd in gr.nodes if nd.kind == 'join' and isinstance(nd.ast, ast.While)]
    okt = False
    if hr:
        okt = True
        ncy = 0
        for p in gr.paths(start=hr[0].id, stop=lambda nd: nd.id == hr[0].id or nd.kind == 'exit', limit=20000):
            if p.end != hr[0].id:
                continue
            ncy += 1
            # the predicate is evaluated on every way round the loop, and this way round was taken with the predicate false
            called = any(gr.nodes[nid].ast is not None and gr.nodes[nid].kind in ('stmt', 'test') and
                         any(isinstance(c, ast.Call) and attr_chain(c.func) == 'self.is_inactive' for c in walk_no_nested(gr.nodes[nid].ast)) for nid, lab in p.steps)  # type: ignore[arg-type]
            if not called or allfacts(p).get('self.is_inactive()') is not False:
                okt = False
        okt = okt and ncy > 0
    se = prog.own_method('HttpProtocolHandler', '_selected_events')
    sels = [c for c in walk_no_nested(se.node) if isinstance(c, ast.Call) and attr_chain(c.func) == 'self.selector.select']
    fin = len(sels) == 1 and any(k.arg == 'timeout' and isinstance(ce.try_eval(se.module, k.value), (int, float)) for k in sels[0].keywords)
    ch.check(okt and fin, 'C20.4', run_, 'threaded: predicate every iteration', 'is_inactive() tested on every iteration; select has a finite timeout',
             'threaded mode: is_inactive() is not evaluated on every iteration of run() or select() may block without timeout')

    # ---------------- C20.5
    ts = prog.module('proxy.core.base.tcp_server')
    okf = False
    for c in ast.walk(ts.tree):
        if isinstance(c, ast.Call) and attr_chain(c.func) == 'flags.add_argument' and c.args and isinstance(c.args[0], ast.Constant) and c.args[0].value == '--timeout':
            kw = {k.arg: norm(k.value) for k in c.keywords}
            okf = kw.get('default') == 'DEFAULT_TIMEOUT' and kw.get('type') == 'int'
    ch.check(okf, 'C20.5', None, '--timeout', '--timeout: int, default DEFAULT_TIMEOUT', '--timeout flag is no longer declared as int with default DEFAULT_TIMEOUT', module_rel=ts.relpath)
    fi = prog.method('FlagParser', 'initialize')
    # the store into <namespace>.timeout; named temporaries with a single definition are read through (locals may have any name)
    tsites = [st for st in walk_no_nested(fi.node) if isinstance(st, ast.Assign) and len(st.targets) == 1 and isinstance(st.targets[0], ast.Attribute) and st.targets[0].attr == 'timeout'
              and isinstance(st.targets[0].value, ast.Name)]
    tdefs: Dict[str, List[ast.AST]] = {}
    for st in walk_no_nested(fi.node):
        if isinstance(st, ast.Assign) and len(st.targets) == 1 and isinstance(st.targets[0], ast.Name):
            tdefs.setdefault(st.targets[0].id, []).append(st.value)
        elif isinstance(st, ast.AnnAssign) and isinstance(st.target, ast.Name) and st.value is not None:
            tdefs.setdefault(st.target.id, []).append(st.value)
    bad5 = None
    for st in tsites:
        exprs: List[ast.AST] = [st.value]
        seen_ids = set()
        k_ = 0
        while k_ < len(exprs):
            for x in ast.walk(exprs[k_]):
                if isinstance(x, ast.Name) and isinstance(x.ctx, ast.Load) and len(tdefs.get(x.id, [])) == 1 and x.id not in seen_ids:
                    seen_ids.add(x.id)
                    exprs.append(tdefs[x.id][0])
            k_ += 1
        narrowing = [attr_chain(c.func) for e_ in exprs for c in ast.walk(e_) if isinstance(c, ast.Call) and (attr_chain(c.func) or '') in ('int', 'round', 'math.floor', 'math.ceil', 'math.trunc', 'floor', 'ceil', 'trunc', 'abs', 'max', 'min')]
        reads = any(isinstance(c, ast.Call) and isinstance(c.func, ast.Attribute) and c.func.attr == 'get' and c.args and isinstance(c.args[0], ast.Constant) and c.args[0].value == 'timeout'
                    for e_ in exprs for c in ast.walk(e_))
        if narrowing or not reads:
            bad5 = 'args.timeout = %s: the configured timeout is %s' % (norm(st.value)[:70], 'passed through %s, which changes fractional values (2.5 -> 2: a connection that had traffic 2.2 s ago is reaped)' % narrowing if narrowing else 'not taken from the `timeout` option')
    ch.check(bad5 is None and len(tsites) == 1, 'C20.5', fi, 'args.timeout', 'the configured timeout reaches flags.timeout unchanged', bad5 or 'args.timeout is not assigned exactly once in FlagParser.initialize')
    ch.import_rules('C09', {'C09.2': 'C20.7'}, 'a connection whose plugin holds the response back is idle for the client only if a consumed chunk queues nothing: an empty chunk queued for the client makes it writable and stamps its activity clock although no byte moves')
    from .common import sweep_period_check
    ch.rule('C20.8', 'the idle sweep of the shared loop runs every Threadless.cleanup_inactive_timeout seconds, a positive constant below DEFAULT_TIMEOUT: the bound on how much longer than --timeout an idle connection lives in the shared-loop modes (the per-connection thread tests every select round)', 1)
    sweep_period_check(ch, 'C20.8')
