"""C08 -- with proxy authentication on, unauthenticated requests reach nothing.

Decided:
  C08.1 the accepting path of the credential check implies: header present, exactly two
        tokens, scheme equals b'basic' case-insensitively, token EQUAL to flags.auth_code
        (an equality or compare_digest of the two values themselves);
  C08.2 the auth plugin is loaded ahead of the user plugins, and is loaded whenever basic
        auth is configured; auth_code is the base64 of the configured credentials;
  C08.3 nothing is contacted before the chain has passed: the before_upstream_connection
        chain runs over every plugin before connect_upstream, an exception raised by a hook
        cannot be swallowed on the way, and only connect_upstream creates upstream connections;
  C08.4 failure is answered 407 + Proxy-Authenticate + Connection: close;
  C08.5 proxy credentials are removed at every site that forwards a rebuilt request.
Not decided: nothing value-level remains (comparison is on raw bytes by C08.1)."""
import ast
from typing import Any, Dict, List, Optional, Set, Tuple

from ..cfg import cfg_of
from ..consteval import ConstEval, Unknown, OpaqueBytes
from ..flow import Sym, fpaths
from ..model import FuncInfo, attr_chain, norm, walk_no_nested, AnalysisError
from ..report import Checker
from .forward import forward_sites_check, opaque_relay_check, eval_response_constant


def run(ch: Checker) -> None:
    prog = ch.prog
    ce = ConstEval(prog)
    ch.rule('C08.1', 'every normal return of AuthPlugin.before_upstream_connection with auth configured carries the facts: Proxy-Authorization present, '
                     'len(parts) == 2, parts[0].lower() == b"basic", parts[1] == flags.auth_code (== or compare_digest on exactly these operands), '
                     'parts = split() of the header value; every other path raises ProxyAuthenticationFailed', 1)
    ch.rule('C08.2', 'FlagParser.initialize loads auth_plugins before requested_plugins; the auth plugin is added whenever basic_auth is set; auth_code = b64encode(bytes_(basic_auth))', 3)
    ch.rule('C08.8', 'in on_request_complete no member that calls a hook of every plugin (do_intercept via _tls_intercept_enabled, ...) is evaluated before the before_upstream_connection chain -- where the auth plugin rejects -- has run over every plugin', 1)
    ch.rule('C08.3', 'before_upstream_connection chain: iterates all of self.plugins.values() with the hook called first in every iteration; an exception from the hook propagates out of '
                     'on_request_complete (no handler lets control reach connect_upstream or a normal return); connect_upstream is reached only after the loop ran to exhaustion; '
                     'only on_request_complete calls connect_upstream and only connect_upstream creates/acquires upstream connections', 4)
    ch.rule('C08.4', 'ProxyAuthenticationFailed.response returns a packet with status 407, a Proxy-Authenticate header and Connection: close', 2)
    ch.rule('C08.11', 'do_intercept() of the plugins is a request-handling hook: the decision that calls it (HttpProxyPlugin._tls_intercept_enabled) is evaluated only in read_from_descriptors, on_client_data and on_request_complete (frozen table: all three act on an admitted request), never on the close / logging path that also runs after a 407', 1)
    ch.rule('C08.6', 'outside a CONNECT tunnel client bytes reach the upstream unparsed (credentials included) only under an upgrade state that is revoked when the upstream answers anything but 101', 1)
    ch.rule('C08.5', 'at every site that queues a rebuilt request to the upstream, del_headers([proxy-authorization, proxy-connection]) ran on that parser on every path '
                     'and build() receives disable_headers=flags.disable_headers', 2)

    # ---------------- C08.1
    f = prog.method('AuthPlugin', 'before_upstream_connection')
    m = f.module
    req = f.params[1] if len(f.params) > 1 else 'request'
    g = cfg_of(f, prog)
    hdr_const = b'proxy-authorization'
    n_accept = 0
    problems: List[Tuple[str, List[str]]] = []
    for p in fpaths(g):
        ch.paths += 1
        sym = Sym(p)
        facts_ast = []
        for sidx, (nid, lab) in enumerate(p.steps):
            n = g.nodes[nid]
            if n.kind == 'test' and lab in (True, False):
                facts_ast.append((sym.value(n.ast, sidx), lab))  # type: ignore[arg-type]
        auth_on = [lab for e, lab in facts_ast if norm(e) == 'self.flags.auth_code']
        if p.exit_kind == 'raise':
            # must raise ProxyAuthenticationFailed (or an assertion); any exception keeps the request out
            continue
        if p.exit_kind != 'return':
            continue
        if not auth_on or auth_on[-1] is not True:
            continue   # auth not configured: accepting is the specified behaviour
        n_accept += 1
        have = {'present': False, 'two': False, 'scheme': False, 'token': False}
        parts_expr = None
        for e, lab in facts_ast:
            pol = lab
            # header present
            if isinstance(e, ast.Compare) and len(e.ops) == 1 and isinstance(e.ops[0], (ast.In, ast.NotIn)):
                want = pol if isinstance(e.ops[0], ast.In) else not pol
                key = ce.try_eval(m, e.left)
                if want and key == hdr_const and norm(e.comparators[0]).startswith(req + '.headers'):
                    have['present'] = True
            if isinstance(e, ast.Call) and isinstance(e.func, ast.Attribute) and e.func.attr == 'has_header' and pol and e.args:
                if isinstance(ce.try_eval(m, e.args[0]), bytes) and ce.try_eval(m, e.args[0]).lower() == hdr_const:
                    have['present'] = True
            if isinstance(e, ast.Compare) and len(e.ops) == 1 and isinstance(e.ops[0], (ast.Eq, ast.NotEq)):
                want = pol if isinstance(e.ops[0], ast.Eq) else not pol
                if not want:
                    continue
                l, r = e.left, e.comparators[0]
                for a, b in ((l, r), (r, l)):
                    # len(P) == 2
                    if isinstance(a, ast.Call) and attr_chain(a.func) == 'len' and a.args and ce.try_eval(m, b) == 2 and _is_parts(a.args[0], req, m, ce):
                        have['two'] = True
                        parts_expr = norm(a.args[0])
                    # P[0].lower() == b'basic'
                    if isinstance(a, ast.Call) and isinstance(a.func, ast.Attribute) and a.func.attr == 'lower' and not a.args \
                            and isinstance(a.func.value, ast.Subscript) and _is_parts(a.func.value.value, req, m, ce) \
                            and ce.try_eval(m, a.func.value.slice) == 0 and ce.try_eval(m, b) == b'basic':
                        have['scheme'] = True
                    # P[1] == self.flags.auth_code
                    if _is_token(a, req, m, ce) and norm(b) == 'self.flags.auth_code':
                        have['token'] = True
            # compare_digest(P[1], auth_code)
            if isinstance(e, ast.Call) and attr_chain(e.func) in ('hmac.compare_digest', 'secrets.compare_digest', 'compare_digest') and pol and len(e.args) == 2:
                a, b = e.args
                for x, y in ((a, b), (b, a)):
                    if _is_token(x, req, m, ce) and norm(y) == 'self.flags.auth_code':
                        have['token'] = True
        missing = [k for k, v in have.items() if not v]
        if missing:
            names = {'present': 'Proxy-Authorization header present', 'two': 'exactly two tokens', 'scheme': 'scheme token equals b"basic" (lower-cased)',
                     'token': 'credential token == flags.auth_code'}
            problems.append(('a request is accepted on a path that does not establish: ' + '; '.join(names[k] for k in missing)
                             + ' (facts: %s)' % '; '.join('%s%s' % ('' if lab else 'not ', norm(e)[:60]) for e, lab in facts_ast), p.describe()))
    if n_accept == 0:
        ch.bad('C08.1', f, 'accept path', 'no accepting path with auth configured was found (the credential check no longer returns the request)')
    elif problems:
        ch.bad('C08.1', f, 'accept path', problems[0][0], witness=problems[0][1])
    else:
        ch.ok('C08.1', f, 'accept path', 'all %d accepting path(s) establish header present, two tokens, basic scheme, token == flags.auth_code' % n_accept)

    # ---------------- C08.2
    init = prog.method('FlagParser', 'initialize')
    fm = init.module
    load_calls = [c for c in walk_no_nested(init.node) if isinstance(c, ast.Call) and attr_chain(c.func) == 'Plugins.load']
    if not load_calls:
        ch.bad('C08.2', init, 'Plugins.load', 'FlagParser.initialize no longer calls Plugins.load')
    # locals with a single definition in the function are read through (named temporaries)
    defs: Dict[str, List[ast.AST]] = {}
    # a named condition is split at load time (model._Desugar): `if E: t = True else: t = False` defines t as the truth value of E
    split_assigns = set()
    for st in walk_no_nested(init.node):
        if isinstance(st, ast.If) and len(st.body) == 1 and len(st.orelse) == 1 and all(
                isinstance(b, ast.Assign) and len(b.targets) == 1 and isinstance(b.targets[0], ast.Name) and isinstance(b.value, ast.Constant) for b in (st.body[0], st.orelse[0])):
            tb, fb = st.body[0], st.orelse[0]
            if tb.targets[0].id == fb.targets[0].id and tb.value.value is True and fb.value.value is False:      # type: ignore[attr-defined]
                defs.setdefault(tb.targets[0].id, []).append(st.test)                                          # type: ignore[attr-defined]
                split_assigns |= {id(tb), id(fb)}
    for st in walk_no_nested(init.node):
        if id(st) in split_assigns:
            continue
        if isinstance(st, ast.Assign) and len(st.targets) == 1 and isinstance(st.targets[0], ast.Name):
            defs.setdefault(st.targets[0].id, []).append(st.value)
        elif isinstance(st, ast.AnnAssign) and isinstance(st.target, ast.Name) and st.value is not None:
            defs.setdefault(st.target.id, []).append(st.value)
        elif isinstance(st, ast.AugAssign) and isinstance(st.target, ast.Name):
            defs.setdefault(st.target.id, []).extend([st.value, st.value])

    def through(e: ast.AST, depth: int = 4) -> ast.AST:
        while isinstance(e, ast.Name) and len(defs.get(e.id, [])) == 1 and depth > 0:
            e = defs[e.id][0]
            depth -= 1
        return e

    def tri(e: ast.AST, env: Dict[str, bool]) -> Optional[bool]:
        """three-valued evaluation of a condition under an assignment of some names"""
        while isinstance(e, ast.Name) and e.id not in env and len(defs.get(e.id, [])) == 1:
            e = defs[e.id][0]
        if isinstance(e, ast.Name):
            return env.get(e.id)
        if isinstance(e, ast.Constant):
            return bool(e.value)
        if isinstance(e, ast.UnaryOp) and isinstance(e.op, ast.Not):
            v = tri(e.operand, env)
            return None if v is None else not v
        if isinstance(e, ast.Call) and attr_chain(e.func) == 'bool' and len(e.args) == 1:
            return tri(e.args[0], env)
        if isinstance(e, ast.BoolOp):
            vals = [tri(v, env) for v in e.values]
            if isinstance(e.op, ast.Or):
                return True if any(v is True for v in vals) else (False if all(v is False for v in vals) else None)
            return False if any(v is False for v in vals) else (True if all(v is True for v in vals) else None)
        return None

    def guards_of(node: ast.AST) -> List[Tuple[ast.AST, bool]]:
        """(test, polarity) of the if-statements of the function that enclose node"""
        out: List[Tuple[ast.AST, bool]] = []

        def rec(body: List[ast.stmt], acc: List[Tuple[ast.AST, bool]]) -> bool:
            for s_ in body:
                if s_ is node or any(x is node for x in walk_no_nested(s_) if not isinstance(s_, (ast.If, ast.For, ast.While, ast.With, ast.Try))):
                    out.extend(acc)
                    return True
                if isinstance(s_, ast.If):
                    if any(x is node for x in ast.walk(s_.test)):
                        out.extend(acc)
                        return True
                    if rec(s_.body, acc + [(s_.test, True)]) or rec(s_.orelse, acc + [(s_.test, False)]):
                        return True
                elif isinstance(s_, (ast.For, ast.While, ast.With)):
                    if rec(s_.body, acc) or rec(getattr(s_, 'orelse', []) or [], acc):
                        return True
                elif isinstance(s_, ast.Try):
                    if rec(s_.body, acc) or any(rec(h.body, acc) for h in s_.handlers) or rec(s_.orelse, acc) or rec(s_.finalbody, acc):
                        return True
            return False
        rec(init.node.body, [])   # type: ignore[attr-defined]
        return out

    # roles, found by what the code does with them (the locals may have any name):
    #   option value X  = a local whose single definition reads option X  (opts.get('X', ...) / <namespace>.X)
    #   auth list       = a list local that the auth-plugin option value is put into
    #   requested list  = the result of Plugins.resolve_plugin_flag(...)
    def reads_option(e: ast.AST, opt: str) -> bool:
        for x in ast.walk(e):
            if isinstance(x, ast.Attribute) and x.attr == opt and isinstance(x.value, ast.Name):
                return True
            if isinstance(x, ast.Call) and isinstance(x.func, ast.Attribute) and x.func.attr in ('get', 'pop') and x.args and isinstance(x.args[0], ast.Constant) and x.args[0].value == opt:
                return True
        return False

    def option_locals(opt: str) -> Set[str]:
        return {nm for nm, ds in defs.items() if len(ds) == 1 and reads_option(ds[0], opt)}
    authp_names = option_locals('auth_plugin')
    basic_names = option_locals('basic_auth')

    def is_authp(e: ast.AST) -> bool:
        return (isinstance(e, ast.Name) and e.id in authp_names) or (not isinstance(e, ast.Name) and reads_option(e, 'auth_plugin'))
    auth_lists: Set[str] = set()
    include_sites: List[ast.AST] = []
    for st in walk_no_nested(init.node):
        if isinstance(st, ast.Call) and isinstance(st.func, ast.Attribute) and st.func.attr in ('append', 'insert', 'extend') and isinstance(st.func.value, ast.Name) and \
                any(is_authp(x) for a_ in st.args for x in ([a_] + (list(a_.elts) if isinstance(a_, (ast.List, ast.Tuple)) else []))):
            auth_lists.add(st.func.value.id)
            include_sites.append(st)
        if isinstance(st, (ast.Assign, ast.AnnAssign)):
            tg = st.targets[0] if isinstance(st, ast.Assign) else st.target
            if isinstance(tg, ast.Name) and st.value is not None and isinstance(st.value, (ast.List, ast.Tuple)) and any(is_authp(x) for x in st.value.elts):
                auth_lists.add(tg.id)
                include_sites.append(st)
    req_lists = {nm for nm, ds in defs.items() if any(isinstance(d, ast.Call) and attr_chain(d.func) == 'Plugins.resolve_plugin_flag' for d in ds)}

    def role(e: ast.AST) -> str:
        if isinstance(e, ast.Name) and e.id in auth_lists:
            return 'AUTH'
        if (isinstance(e, ast.Name) and e.id in req_lists) or (isinstance(e, ast.Call) and attr_chain(e.func) == 'Plugins.resolve_plugin_flag'):
            return 'REQUESTED'
        return norm(e)

    for c in load_calls:
        parts: List[str] = []
        shown: List[str] = []

        def flat(e: ast.AST) -> None:
            for _ in range(6):          # read through named temporaries one step at a time, stopping at a list whose role is known
                if isinstance(e, ast.Name) and e.id not in auth_lists and e.id not in req_lists and len(defs.get(e.id, [])) == 1:
                    e = defs[e.id][0]
                else:
                    break
            if isinstance(e, ast.BinOp) and isinstance(e.op, ast.Add):
                flat(e.left)
                flat(e.right)
            else:
                parts.append(role(e))
                shown.append(norm(e)[:50])
        if c.args:
            flat(c.args[0])
        if 'AUTH' in parts and 'REQUESTED' in parts:
            ch.check(parts.index('AUTH') < parts.index('REQUESTED'), 'C08.2', init, 'Plugins.load(...) order',
                     'load order: %s' % ' + '.join(shown), 'user plugins are loaded before the auth plugin (%s): their hooks run on unauthenticated requests' % ' + '.join(shown), line=c.lineno)
        else:
            ch.bad('C08.2', init, 'Plugins.load(...) order', 'the plugin list handed to Plugins.load is not a concatenation containing the list holding the auth plugin and the requested plugins: %s' % shown, line=c.lineno)
    # nothing else may rebuild or filter the list once the auth plugin is in it
    other_defs = []
    for st in walk_no_nested(init.node):
        if isinstance(st, (ast.Assign, ast.AnnAssign, ast.AugAssign)):
            tg = st.targets[0] if isinstance(st, ast.Assign) else st.target
            if isinstance(tg, ast.Name) and tg.id in auth_lists and st.value is not None and not any(st is x for x in include_sites):
                v = st.value
                if not (isinstance(v, (ast.List, ast.Tuple)) and not v.elts):
                    other_defs.append(norm(st)[:80])
        if isinstance(st, ast.Call) and isinstance(st.func, ast.Attribute) and isinstance(st.func.value, ast.Name) and st.func.value.id in auth_lists \
                and st.func.attr in ('remove', 'pop', 'clear'):
            other_defs.append(norm(st)[:80])
    ch.check(not other_defs, 'C08.2', init, 'auth_plugins not rebuilt', 'the list holding the auth plugin is only ever [] / [auth plugin] / append(auth plugin)',
             'the list holding the auth plugin is rebuilt or filtered after the auth plugin was put into it (%s): when the auth plugin drops out of this list its only remaining occurrence is wherever the user '
             'listed it among --plugins, i.e. behind user plugins whose hooks then run on unauthenticated requests' % other_defs)

    def holds_under_basic_auth(node: ast.AST) -> Optional[bool]:
        res: Optional[bool] = True
        for t, pol in guards_of(node):
            v = tri(t, {nm: True for nm in basic_names})
            if v is None:
                res = None if res is not False else res
            elif v != pol:
                return False
        return res
    inc = [holds_under_basic_auth(x) for x in include_sites]
    okc = bool(include_sites) and any(v is True for v in inc)
    ch.check(okc, 'C08.2', init, 'auth plugin included', 'the auth plugin is put into the auth list on a branch that is taken whenever basic_auth is set',
             'no statement puts the auth plugin into the list loaded ahead of the user plugins under a condition that holds whenever basic_auth is set (%d candidate site(s), verdicts %s): '
             'with --basic-auth configured nothing checks credentials' % (len(include_sites), inc))
    # auth_code = base64 of the configured credentials whenever basic_auth is set: the local(s) that flow into <namespace>.auth_code
    code_locals: Set[str] = set()
    for st in walk_no_nested(init.node):
        if isinstance(st, ast.Assign) and any(isinstance(t_, ast.Attribute) and t_.attr == 'auth_code' for t_ in st.targets):
            code_locals |= {x.id for x in ast.walk(st.value) if isinstance(x, ast.Name) and x.id in defs}
    for _ in range(4):                  # another local that is merely assigned from a code local (e.g. the result of an inlined helper) is one too
        for nm_, ds_ in defs.items():
            if nm_ in code_locals:
                for d_ in ds_:
                    if isinstance(d_, ast.Name) and d_.id in defs:
                        code_locals.add(d_.id)
    code_sites = [(st, (st.value)) for st in walk_no_nested(init.node) if isinstance(st, (ast.Assign, ast.AnnAssign)) and not isinstance(st.value, ast.Name)
                  and isinstance((st.targets[0] if isinstance(st, ast.Assign) else st.target), ast.Name)
                  and (st.targets[0] if isinstance(st, ast.Assign) else st.target).id in code_locals and st.value is not None and norm(st.value) != 'None']   # type: ignore[union-attr]

    def is_b64_of_basic(v: ast.AST) -> bool:
        return isinstance(v, ast.Call) and attr_chain(v.func) == 'base64.b64encode' and len(v.args) == 1 and isinstance(v.args[0], ast.Call) and attr_chain(v.args[0].func) == 'bytes_' and \
            len(v.args[0].args) == 1 and isinstance(v.args[0].args[0], ast.Name) and v.args[0].args[0].id in basic_names
    okk = bool(code_sites) and all(is_b64_of_basic(v) for st, v in code_sites) and any(holds_under_basic_auth(st) is True for st, v in code_sites)
    ch.check(bool(okk), 'C08.2', init, 'auth_code', 'auth_code = base64.b64encode(bytes_(basic_auth)) whenever basic_auth is set',
             'auth_code is not the base64 of the configured credentials whenever basic_auth is set: %s' % [(norm(v)[:60], holds_under_basic_auth(st)) for st, v in code_sites])

    # ---------------- C08.3
    orc = prog.own_method('HttpProxyPlugin', 'on_request_complete')
    hp_cls = prog.class_named('HttpProxyPlugin')
    go = cfg_of(orc, prog)
    hook = 'before_upstream_connection'
    loops = [n for n in go.nodes if n.kind == 'for' and any(isinstance(c, ast.Call) and isinstance(c.func, ast.Attribute) and c.func.attr == hook
                                                            for s in n.ast.body for c in walk_no_nested(s))]  # type: ignore[union-attr]
    if not loops:
        ch.bad('C08.3', orc, hook, 'on_request_complete has no loop calling before_upstream_connection')
    else:
        lp = loops[0]
        okit = norm(lp.ast.iter) == 'self.plugins.values()'  # type: ignore[union-attr]
        ch.check(okit, 'C08.3', orc, 'for ... in %s' % norm(lp.ast.iter), 'chain iterates self.plugins.values() unfiltered',  # type: ignore[union-attr]
                 'the before_upstream_connection chain iterates %s, not all of self.plugins.values()' % norm(lp.ast.iter))  # type: ignore[union-attr]
        # paths
        esc = None
        early = None
        skipped = None
        n_conn = 0
        for p in fpaths(go):
            ch.paths += 1
            steps = p.steps
            # exception from the hook must not be absorbed
            for i, (nid, lab) in enumerate(steps):
                n = go.nodes[nid]
                if lab == 'exc' and n.ast is not None and any(isinstance(c, ast.Call) and isinstance(c.func, ast.Attribute) and c.func.attr == hook for c in walk_no_nested(n.ast)):
                    rest = [go.nodes[x] for x, _ in steps[i + 1:]] + [p.end_node]
                    reaches_connect = any(r.ast is not None and r.kind == 'stmt' and any(isinstance(c, ast.Call) and attr_chain(c.func) == 'self.connect_upstream' for c in walk_no_nested(r.ast)) for r in rest)
                    if p.exit_kind == 'return' or reaches_connect:
                        esc = p.describe(20)
            # connect only after exhaustion; hook first in each iteration
            for i, (nid, lab) in enumerate(steps):
                n = go.nodes[nid]
                if n.kind == 'stmt' and any(isinstance(c, ast.Call) and attr_chain(c.func) == 'self.connect_upstream' for c in walk_no_nested(n.ast)):  # type: ignore[arg-type]
                    n_conn += 1
                    labs = [l for (x, l) in steps[:i] if x == lp.id]
                    if not labs or labs[-1] != 'done':
                        early = p.describe(20)
                if nid == lp.id and lab == 'iter':
                    # next executed statement-like node must contain the hook call
                    nxt = go.nodes[steps[i + 1][0]] if i + 1 < len(steps) else None
                    if nxt is None or nxt.ast is None or not any(isinstance(c, ast.Call) and isinstance(c.func, ast.Attribute) and c.func.attr == hook for c in walk_no_nested(nxt.ast)):
                        skipped = p.describe(20)
        # C08.8: no other plugin hook before the chain has run over every plugin
        hookers: Dict[str, str] = {}
        for nm8, fn8 in list(hp_cls.methods.items()) + list(hp_cls.inlined_methods.items()):
            for lp8 in walk_no_nested(fn8.node):
                if isinstance(lp8, (ast.For, ast.AsyncFor)) and any(attr_chain(x) == 'self.plugins' for x in ast.walk(lp8.iter)):
                    tv = [t.id for t in ast.walk(lp8.target) if isinstance(t, ast.Name)]
                    called = [c8.func.attr for c8 in ast.walk(lp8) if isinstance(c8, ast.Call) and isinstance(c8.func, ast.Attribute) and isinstance(c8.func.value, ast.Name) and c8.func.value.id in tv]
                    if called and nm8 != orc.name:
                        hookers[nm8] = called[0]
        early8 = None
        n8 = 0
        for p in fpaths(go):
            steps = p.steps
            inside8 = {id(x) for b8 in lp.ast.body for x in ast.walk(b8)}       # type: ignore[union-attr]   # the loop body; a for-else clause runs after the chain is exhausted
            in_chain = [i for i, (nid, lab) in enumerate(steps) if nid == lp.id or (go.nodes[nid].ast is not None and id(go.nodes[nid].ast) in inside8)]
            limit = (in_chain[-1] + 1) if in_chain else len(steps)     # the chain ends where control last leaves its loop (exhausted, or stopped by a plugin)
            n8 += 1
            for i, (nid, lab) in enumerate(steps[:limit]):
                nd8 = go.nodes[nid]
                if nd8.ast is None or nd8.kind not in ('stmt', 'test'):
                    continue
                for x in walk_no_nested(nd8.ast):
                    if isinstance(x, ast.Attribute) and attr_chain(x.value) == 'self' and x.attr in hookers:
                        early8 = ('self.%s (which calls %s() of every plugin) is evaluated before the before_upstream_connection chain has run: a request the auth plugin is about to reject '
                                  'is shown to the other plugins first' % (x.attr, hookers[x.attr]), p.describe(16))
                    if isinstance(x, ast.Call) and isinstance(x.func, ast.Attribute) and isinstance(x.func.value, ast.Name) and x.func.attr != hook and \
                            x.func.value.id in [t.id for t in ast.walk(lp.ast.target) if isinstance(t, ast.Name)] and nid != lp.id:          # type: ignore[union-attr]
                        early8 = ('plugin hook %s() is called inside / ahead of the before_upstream_connection chain' % x.func.attr, p.describe(16))
        ch.check(early8 is None and n8 > 0, 'C08.8', orc, 'no hook before the chain', 'no other plugin hook runs before the chain has passed every plugin (%d path(s); hook-calling members: %s)' % (n8, ', '.join(sorted(hookers)) or 'none'),
                 early8[0] if early8 else 'no path', witness=early8[1] if early8 else None)
        ch.check(esc is None, 'C08.3', orc, 'exception from %s' % hook, 'an exception raised by a before_upstream_connection hook always leaves on_request_complete',
                 'an exception raised by a before_upstream_connection hook (e.g. the auth failure, or any error inside the auth check) can be absorbed: control continues to '
                 'connect_upstream / a normal return, so the request is served without having passed the plugin', witness=esc)
        ch.check(early is None and skipped is None and n_conn > 0, 'C08.3', orc, 'connect after chain',
                 'connect_upstream is reached only after the chain ran over every plugin (%d path(s))' % n_conn,
                 'connect_upstream can be reached before every plugin was consulted' if n_conn else 'connect_upstream is never reached', witness=early or skipped)
    # who may call
    hp = prog.class_named('HttpProxyPlugin')
    bad_callers = []
    n_sites = 0
    for fn in hp.methods.values():
        for c in walk_no_nested(fn.node):
            if isinstance(c, ast.Call):
                nm = attr_chain(c.func)
                if nm == 'self.connect_upstream':
                    n_sites += 1
                    if fn.name != 'on_request_complete':
                        bad_callers.append('%s calls connect_upstream' % fn.qualname)
                if nm in ('TcpServerConnection', 'self.upstream_conn_pool.acquire'):
                    n_sites += 1
                    if fn.name != 'connect_upstream':
                        bad_callers.append('%s creates/acquires an upstream connection' % fn.qualname)
    ch.check(not bad_callers and n_sites >= 3, 'C08.3', prog.own_method('HttpProxyPlugin', 'connect_upstream'), 'who may connect',
             'connect_upstream <- on_request_complete only; connections created only in connect_upstream (%d sites)' % n_sites,
             'upstream connections can be made outside the authenticated path: %s' % '; '.join(bad_callers))

    # ---------------- C08.4
    paf = prog.class_named('ProxyAuthenticationFailed')
    rf = paf.methods.get('response')
    if rf is None:
        ch.bad('C08.4', None, 'ProxyAuthenticationFailed.response', 'ProxyAuthenticationFailed no longer defines response()', module_rel=paf.module.relpath)
    else:
        rets = [s for s in walk_no_nested(rf.node) if isinstance(s, ast.Return) and s.value is not None]
        names = [norm(r.value) for r in rets]
        ch.check(names == ['PROXY_AUTH_FAILED_RESPONSE_PKT'], 'C08.4', rf, 'return', 'returns PROXY_AUTH_FAILED_RESPONSE_PKT',
                 'ProxyAuthenticationFailed.response returns %s' % names)
        info = eval_response_constant(prog, ce, 'PROXY_AUTH_FAILED_RESPONSE_PKT')
        ok4 = info is not None and info['status'] == 407 and info['conn_close'] is True and any(k.lower() == b'proxy-authenticate' for k in info['headers'])
        ch.check(bool(ok4), 'C08.4', None, 'PROXY_AUTH_FAILED_RESPONSE_PKT', '407 + Proxy-Authenticate + Connection: close',
                 'the authentication failure packet is not 407 / lacks Proxy-Authenticate / is not Connection: close: %s' % (info,),
                 module_rel='proxy/http/responses.py')

    # ---------------- C08.5
    forward_sites_check(ch, 'C08.5', want_via=False)
    opaque_relay_check(ch, 'C08.6')
    ch.rule('C08.10', 'the 407 (and every other rejection response) is queued before anything that can fail on the request\'s own bytes: in the HttpProtocolException handler of handle_data no strict text_() / .decode() '
                      'of request attributes filled from the wire precedes the queue() of e.response() (a request target with non-UTF-8 octets must still get its 407)', 1)
    from .c09 import WIRE_ATTRS
    hd8 = prog.own_method('HttpProtocolHandler', 'handle_data')
    n10 = 0
    for t8 in walk_no_nested(hd8.node):
        if not isinstance(t8, ast.Try):
            continue
        for h8 in t8.handlers:
            names8 = [norm(x) for x in (h8.type.elts if isinstance(h8.type, ast.Tuple) else [h8.type])] if h8.type is not None else []
            if not any(nm.split('.')[-1] == 'HttpProtocolException' for nm in names8):
                continue
            n10 += 1
            bad8 = None
            for s8 in h8.body:
                has_queue = any(isinstance(x, ast.Call) and (attr_chain(x.func) or '').endswith('.queue') for x in ast.walk(s8))
                for c8 in ast.walk(s8):
                    if isinstance(c8, ast.Call) and (attr_chain(c8.func) == 'text_' or (isinstance(c8.func, ast.Attribute) and c8.func.attr == 'decode')):
                        arg8 = c8.args[0] if c8.args and attr_chain(c8.func) == 'text_' else (c8.func.value if isinstance(c8.func, ast.Attribute) else None)
                        wire8 = [attr_chain(n_) for n_ in ast.walk(arg8) if isinstance(n_, ast.Attribute) and (attr_chain(n_) or '').split('.')[-1] in WIRE_ATTRS and '.request.' in (attr_chain(n_) or '')] if arg8 is not None else []
                        lenient8 = any(k.arg == 'errors' and isinstance(k.value, ast.Constant) and k.value.value != 'strict' for k in c8.keywords) or (len(c8.args) >= 3 and attr_chain(c8.func) == 'text_')
                        if wire8 and not lenient8 and bad8 is None:
                            bad8 = 'a strict decode of %s (%s) runs before the rejection response is queued: for a request whose target or method carries octets that are not UTF-8 it raises UnicodeDecodeError inside the handler, ' \
                                   'the response is never queued and the client sees a bare end-of-stream instead of its 407' % (wire8[0], norm(c8)[:50])
                if has_queue:
                    break
            ch.check(bad8 is None, 'C08.10', hd8, 'rejection handler', 'nothing that can fail on the request\'s bytes precedes queue(e.response())', bad8 or '', line=h8.lineno)
    if n10 == 0:
        raise AnalysisError('anchor vanished: handle_data has no HttpProtocolException handler')
    ch.import_rules('C07', {'C07.2': 'C08.9'}, 'after the 407 nothing more of the unauthenticated client is read (and shown to the plugins) only if read interest is dropped while the final flush is pending')
    ch.import_rules('C09', {'C09.1': 'C08.7'}, 'the auth plugin is consulted before any user plugin only if the order in which plugins are listed survives loading')

    # ---------------- C08.11 who may ask the plugins whether to intercept (a request-handling hook of every later plugin)
    allowed11 = {'HttpProxyPlugin.read_from_descriptors', 'HttpProxyPlugin.on_client_data', 'HttpProxyPlugin.on_request_complete'}
    n11 = 0
    for fn11 in prog.all_functions('proxy', include_inlined='residual'):       # private helpers are judged as part of the functions they were split off from
        if fn11.name == '_tls_intercept_enabled' or fn11.module.name.startswith(('proxy.plugin', 'proxy.testing')):
            continue
        for x in walk_no_nested(fn11.node):
            hook = (isinstance(x, ast.Attribute) and x.attr == '_tls_intercept_enabled' and isinstance(x.ctx, ast.Load)) or \
                (isinstance(x, ast.Call) and isinstance(x.func, ast.Attribute) and x.func.attr == 'do_intercept')
            if not hook:
                continue
            n11 += 1
            ch.check(fn11.qualname in allowed11, 'C08.11', fn11, x, 'the interception decision is taken where a request has been admitted and an upstream exists (frozen table)',
                     '%s evaluates the interception decision (%s), which calls do_intercept() of every configured plugin with the request: this function also runs for a connection whose request was '
                     'rejected with 407 (close / logging path), so a request-handling hook of the plugins behind the auth plugin sees a request that was never admitted' % (fn11.qualname, norm(x)[:50]))
    if n11 < 1:
        raise AnalysisError('anchor vanished: nothing evaluates HttpProxyPlugin._tls_intercept_enabled')



def _is_parts(e: ast.AST, req: str, m: Any, ce: ConstEval) -> bool:
    """e is `<req>.headers[<proxy-authorization>][1].split()` (or the header() accessor)"""
    if isinstance(e, ast.Call) and isinstance(e.func, ast.Attribute) and e.func.attr == 'split' and not e.args and not e.keywords:
        v = e.func.value
        if isinstance(v, ast.Subscript) and ce.try_eval(m, v.slice) == 1 and isinstance(v.value, ast.Subscript) \
                and norm(v.value.value) == req + '.headers' and ce.try_eval(m, v.value.slice) == b'proxy-authorization':
            return True
        if isinstance(v, ast.Call) and isinstance(v.func, ast.Attribute) and v.func.attr == 'header' and norm(v.func.value) == req and v.args:
            k = ce.try_eval(m, v.args[0])
            return isinstance(k, bytes) and k.lower() == b'proxy-authorization'
    return False


def _is_token(a: ast.AST, req: str, m: Any, ce: ConstEval) -> bool:
    """a is parts[1] (or parts[-1], equivalent once len(parts) == 2 is established)"""
    return isinstance(a, ast.Subscript) and _is_parts(a.value, req, m, ce) and ce.try_eval(m, a.slice) in (1, -1)
