"""C07 -- queued output is fully delivered before the proxy closes a connection.

Decided (guarded teardown):
  C07.1  HttpProtocolHandler.handle_events returns the teardown signal only (a) with the
         fact `not self.work.has_buffer()` on the path, or (b) because the client write side
         failed / finished its final flush (value of handle_writables), or (c) because the
         protocol plugin's write_to_descriptors asked for it (upstream write failure; exempted
         with that reason); the result of handle_readables / read_from_descriptors only ever
         reaches the `reads_teared` flag;
  C07.1b BaseTcpServerHandler.handle_readables: when handle_data asks for teardown, teardown is
         signalled at once only with an empty buffer, otherwise must_flush_before_shutdown is set;
  C07.2  get_events: read interest only while no final flush is pending, write interest
         whenever output is pending;
  C07.2b BaseTcpServerHandler.handle_writables: after the flush, teardown only under
         must_flush_before_shutdown and an empty buffer, and the flag is cleared only then;
  C07.3  threaded mode: shutdown flushes (loop while has_buffer) before the socket is shut/closed;
  C07.4  the reaper's predicate requires an empty buffer; only the enumerated callers tear a work down.
Not decided: that the last byte leaves the kernel; promptness beyond the flag discipline."""
import ast
import re
from typing import Any, Dict, List, Optional, Tuple

from ..cfg import cfg_of
from ..flow import Sym, fpaths, attr_effects, allfacts
from ..model import FuncInfo, attr_chain, norm, walk_no_nested, AnalysisError
from ..report import Checker
from .common import idle_predicate_check

HASBUF = 'self.work.has_buffer()'


def _calls(e: ast.AST, suffix: str) -> bool:
    return any(isinstance(c, ast.Call) and (attr_chain(c.func) or '').endswith(suffix) for c in ast.walk(e))


def run(ch: Checker) -> None:
    prog = ch.prog
    ch.rule('C07.11', 'HttpProtocolHandler.shutdown delivers what is still queued in every execution mode: on every path on which the client buffer is not known to be empty, the pending '
                      'output is flushed before the socket is shut down / closed (teardown after an exception in a handler reaches shutdown() with output pending)', 1)
    ch.rule('C07.9', 'nobody sets SO_LINGER on a socket (expected 0 sites): close() with linger 0 discards output the kernel has not delivered yet', 1)
    ch.rule('C07.1', 'HttpProtocolHandler.handle_events: every `return True` is justified by an empty client buffer on the path, by the value of handle_writables '
                     '(client write failure / final flush done), or by plugin.write_to_descriptors (exempt: upstream write failure); results of handle_readables and '
                     'plugin.read_from_descriptors are only stored in self.reads_teared', 3)
    ch.rule('C07.1b', 'BaseTcpServerHandler.handle_readables: on the branch where handle_data returned True, `teardown = True` only with an empty buffer and '
                      '`must_flush_before_shutdown = True` exactly when output is pending', 2)
    ch.rule('C07.2', 'BaseTcpServerHandler.get_events: EVENT_READ for the client only under `must_flush_before_shutdown is False`; EVENT_WRITE on every path where has_buffer() holds', 2)
    ch.rule('C07.2b', 'BaseTcpServerHandler.handle_writables: `teardown = True` and clearing must_flush_before_shutdown only after the flush, under must_flush_before_shutdown and an empty buffer', 2)
    ch.rule('C07.3', 'HttpProtocolHandler.shutdown (threaded mode): with a selector and pending output, _flush() runs before the client socket is shut down or closed; '
                     '_flush loops `while has_buffer()` around flush()', 2)
    ch.rule('C07.7', 'output queued for the UPSTREAM is written when its descriptor is writable: every method that tests `upstream fd in writables` calls upstream.flush() on the paths where that holds '
                     '(HttpProxyPlugin.write_to_descriptors, TcpUpstreamConnectionHandler.write_to_descriptors, BaseTcpTunnelHandler.handle_events)', 3)
    ch.rule('C07.8', 'typestate: inside HttpProxyPlugin self.upstream is not dereferenced after a call that may have set it to None (_close_and_release and the like) unless it was re-tested: '
                     'the AttributeError would end the work without the drain wait that delivers what is already queued for the client', 2)
    ch.rule('C07.4', 'is_inactive returns True only with an empty client buffer; Threadless._cleanup is called only from the enumerated sites', 2)

    # ---------------- C07.1
    he = prog.own_method('HttpProtocolHandler', 'handle_events')
    g = cfg_of(he, prog)
    n_true = 0
    causes: Dict[str, int] = {}
    for p in fpaths(g):
        ch.paths += 1
        if p.exit_kind != 'return':
            continue
        sym = Sym(p)
        last = p.stmts()[-1] if p.stmts() else None
        if last is None or not isinstance(last[1], ast.Return):
            continue
        ridx, ret = last
        rv = sym.value(ret.value, ridx) if ret.value is not None else ast.Constant(value=None)
        if isinstance(rv, ast.Constant) and not rv.value:
            continue
        n_true += 1
        facts = list(allfacts(p, ridx).items())
        # (a) buffer empty established after the last queue/flush on the path
        last_buf_test = max([i for i, (nid, lab) in enumerate(p.steps[:ridx]) if g.nodes[nid].kind == 'test' and norm(g.nodes[nid].ast) == HASBUF and lab is False] or [-1])
        cause = None
        if last_buf_test >= 0:
            later_output = [i for i, st in p.stmts() if last_buf_test < i < ridx and (_calls(st, '.queue') or _calls(st, 'handle_data'))]
            if not later_output:
                cause = 'buffer-empty'
        if cause is None:
            # (b)/(c): the deciding fact is a truthy test of a flag whose value is the result of an allowed call
            true_tests = [(i, g.nodes[nid]) for i, (nid, lab) in enumerate(p.steps[:ridx]) if g.nodes[nid].kind == 'test' and lab is True]
            if true_tests:
                ti, tn = true_tests[-1]
                e = sym.value(tn.ast, ti)  # type: ignore[arg-type]
                src = e
                chn = attr_chain(e)
                if chn is not None and chn.startswith('self.'):
                    st = sym.attr_store(chn, ti)
                    if st is not None:
                        src = st[1]
                txt = norm(src)
                if 'self.handle_writables(' in txt and 'handle_readables' not in txt:
                    cause = 'handle_writables'
                elif 'self.plugin.write_to_descriptors(' in txt:
                    cause = 'plugin.write_to_descriptors (exempt: upstream write failure)'
                else:
                    cause = None
                    detail = txt
            else:
                detail = '(no deciding test)'
        if cause is None:
            ch.bad('C07.1', he, ret, 'the teardown signal is returned while the client buffer may still hold output: the deciding condition is `%s`, '
                                     'not an empty buffer nor a client write-side result; a client that half-closes or errors on read loses the queued reply' % detail[:120],
                   witness=p.describe(24))
        else:
            causes[cause] = causes.get(cause, 0) + 1
    for cse, n in sorted(causes.items()):
        ch.ok('C07.1', he, 'teardown cause: %s' % cse, '%d path(s)' % n)
    if n_true == 0:
        ch.bad('C07.1', he, 'teardown', 'handle_events never returns the teardown signal')
    # results of the read side reach only reads_teared
    for st in walk_no_nested(he.node):
        for c in walk_no_nested(st) if isinstance(st, (ast.Return, ast.If, ast.Assign, ast.Expr, ast.AugAssign, ast.AnnAssign, ast.While)) else []:
            pass
    read_calls = [c for c in walk_no_nested(he.node) if isinstance(c, ast.Call) and ((attr_chain(c.func) or '').endswith('handle_readables') or (attr_chain(c.func) or '').endswith('read_from_descriptors'))]
    parents = _parents(he.node)
    okr = True
    why = ''
    for c in read_calls:
        node: ast.AST = c
        while id(node) in parents and isinstance(parents[id(node)], (ast.Await,)):
            node = parents[id(node)]
        par = parents.get(id(node))
        if not (isinstance(par, ast.Assign) and len(par.targets) == 1 and attr_chain(par.targets[0]) == 'self.reads_teared' and par.value is node):
            okr = False
            why = 'the result of %s is used as `%s` instead of being stored in self.reads_teared' % (norm(c)[:50], norm(par)[:70] if par is not None else '?')
    ch.check(okr and len(read_calls) >= 2, 'C07.1', he, 'read-side results', 'results of handle_readables / read_from_descriptors are only stored in self.reads_teared (%d call(s))' % len(read_calls),
             why or 'read-side calls not found')

    # ---------------- C07.1b
    hr = prog.own_method('BaseTcpServerHandler', 'handle_readables')
    gr = cfg_of(hr, prog)
    seen_set = seen_td = 0
    bad1b = None
    for p in fpaths(gr):
        ch.paths += 1
        if p.exit_kind != 'return':
            continue
        sym = Sym(p)
        fd = allfacts(p)
        last = p.stmts()[-1] if p.stmts() else None
        rv = sym.value(last[1].value, last[0]) if last is not None and isinstance(last[1], ast.Return) and last[1].value is not None else None
        returns_true = isinstance(rv, ast.Constant) and rv.value is True
        sets_flag = [i for i, st in p.stmts() for chn, kind, node in attr_effects(st) if chn == 'self.must_flush_before_shutdown' and kind == 'store' and norm(node.value) == 'True']  # type: ignore[attr-defined]
        # what handle_data answered, by value (the local holding it may have any name): facts about `self.handle_data(...)`
        hd = {k: v for k, v in fd.items() if k.startswith('self.handle_data(') or k.startswith('isinstance(self.handle_data(')}
        hd_true = [v for k, v in hd.items() if k.startswith('self.handle_data(') and (k.endswith(') is True') or k.endswith(')'))]
        asked_true = bool(hd_true) and hd_true[-1] is True
        asked = asked_true or (any(v is True for v in hd.values()) and not (hd_true and hd_true[-1] is False))
        eof = any(v is True and re.fullmatch(r'self\.work\.recv\(.*\) is None', k) for k, v in fd.items())
        in_handler = any(gr.nodes[nid].kind == 'handler' for nid, lab in p.steps)
        if sets_flag:
            seen_set += 1
            if fd.get(HASBUF) is not True:
                bad1b = ('must_flush_before_shutdown is set on a path where pending output was not established', p.describe(20))
        if returns_true and not in_handler and not eof:
            seen_td += 1
            if fd.get(HASBUF) is not False:
                bad1b = ('teardown is signalled right after handle_data asked for it although the client buffer may hold the reply just queued '
                         '(no `not has_buffer()` on the path)', p.describe(20))
        if asked_true and fd.get(HASBUF) is True and not sets_flag:
            bad1b = ('handle_data asked for teardown with output pending but must_flush_before_shutdown is not set: the connection is never closed', p.describe(20))
    ch.check(bad1b is None and seen_set >= 1, 'C07.1b', hr, 'must_flush_before_shutdown = True', 'flag set exactly when output is pending (%d path(s))' % seen_set,
             bad1b[0] if bad1b else 'the flush-before-shutdown flag is never set', witness=bad1b[1] if bad1b else None)
    ch.check(bad1b is None and seen_td >= 1, 'C07.1b', hr, 'immediate teardown', 'immediate teardown only with an empty buffer (%d path(s))' % seen_td,
             bad1b[0] if bad1b else 'no immediate teardown path found', witness=bad1b[1] if bad1b else None)

    # ---------------- C07.2 get_events
    ge = prog.own_method('BaseTcpServerHandler', 'get_events')
    gg = cfg_of(ge, prog)
    bad_r = bad_w = bad_rr = None
    n_r = n_w = n_rr = 0
    for p in fpaths(gg):
        ch.paths += 1
        if p.exit_kind != 'return':
            continue
        facts_all = allfacts(p)
        wrote_w = False
        for idx, st in p.stmts():
            if isinstance(st, (ast.Assign, ast.AugAssign)):
                val = norm(st.value)
                facts = allfacts(p, idx)
                if 'EVENT_READ' in val:
                    n_r += 1
                    if facts.get('self.must_flush_before_shutdown is False') is not True:
                        bad_r = ('read interest is registered without `must_flush_before_shutdown is False`: during the final flush new requests would be read', p.describe())
                if 'EVENT_WRITE' in val:
                    n_w += 1
                    wrote_w = True
        if facts_all.get(HASBUF) is True and not wrote_w:
            bad_w = ('a path with pending output does not register write interest: the buffer is never flushed', p.describe())
        # the other direction: while no final flush is pending the client IS polled for reading
        if facts_all.get('self.must_flush_before_shutdown is False') is True:
            n_rr += 1
            if not any(isinstance(st, (ast.Assign, ast.AugAssign)) and 'EVENT_READ' in norm(st.value) for idx, st in p.stmts()):
                bad_rr = ('on a path where no final flush is pending the client descriptor is not registered for reading: nothing the client sends (the next request, the rest of a body, '
                          'its FIN) is ever noticed', p.describe())
    ch.check(bad_r is None and n_r >= 1, 'C07.2', ge, 'EVENT_READ', 'read interest only while no final flush is pending', bad_r[0] if bad_r else 'no EVENT_READ registration', witness=bad_r[1] if bad_r else None)
    ch.check(bad_rr is None and n_rr >= 1, 'C07.2', ge, 'EVENT_READ whenever not draining', 'client polled for reading on all %d path(s) without a pending final flush' % n_rr,
             bad_rr[0] if bad_rr else 'no path without a pending final flush', witness=bad_rr[1] if bad_rr else None)
    ch.check(bad_w is None and n_w >= 1, 'C07.2', ge, 'EVENT_WRITE', 'write interest whenever output is pending', bad_w[0] if bad_w else 'no EVENT_WRITE registration', witness=bad_w[1] if bad_w else None)

    # ---------------- C07.2b handle_writables (base)
    hw = prog.own_method('BaseTcpServerHandler', 'handle_writables')
    gw = cfg_of(hw, prog)
    bad_t = bad_c = None
    n_t = n_c = 0
    from ..cfg import atom_key
    for p in fpaths(gw):
        ch.paths += 1
        if p.exit_kind != 'return':
            continue
        sym = Sym(p)
        flush_idx = [i for i, st in p.stmts() if _calls(st, 'self.work.flush')]

        def facts_after_flush(upto: int) -> Dict[str, bool]:
            out: Dict[str, bool] = {}
            for i, (nid, lab) in enumerate(p.steps[:upto]):
                nd = gw.nodes[nid]
                if nd.kind == 'test' and lab in (True, False) and flush_idx and i > flush_idx[-1]:
                    k, pol = atom_key(nd.ast, lab)  # type: ignore[arg-type]
                    out[k] = pol
            return out
        last = p.stmts()[-1] if p.stmts() else None
        rv = sym.value(last[1].value, last[0]) if last is not None and isinstance(last[1], ast.Return) and last[1].value is not None else None
        if rv is not None and not (isinstance(rv, ast.Constant) and not rv.value):
            n_t += 1
            facts = facts_after_flush(last[0])  # type: ignore[index]
            if isinstance(rv, ast.Constant) and rv.value is True:
                if not (facts.get('self.must_flush_before_shutdown is True') is True and facts.get(HASBUF) is False):
                    bad_t = ('teardown is signalled from handle_writables without `must_flush_before_shutdown is True and not has_buffer()` evaluated after the flush', p.describe())
            elif norm(rv).replace(' ', '') == 'notself.work.has_buffer()':
                if facts.get('self.must_flush_before_shutdown is True') is not True:
                    bad_t = ('teardown derived from the buffer state outside the final-flush mode', p.describe())
            else:
                bad_t = ('handle_writables returns %s: not decidable as "final flush finished"' % norm(rv)[:60], p.describe())
        for idx, st in p.stmts():
            for chn, kind, node in attr_effects(st):
                if chn == 'self.must_flush_before_shutdown' and kind == 'store':
                    n_c += 1
                    if norm(node.value) != 'False':  # type: ignore[attr-defined]
                        continue
                    if facts_after_flush(idx).get(HASBUF) is not False:
                        bad_c = ('must_flush_before_shutdown is cleared while output may still be pending (no `not has_buffer()` after the flush): when the reply needs more than one '
                                 'flush the teardown is never signalled and the connection lingers until the idle reaper', p.describe())
    ch.check(bad_t is None and n_t >= 1, 'C07.2b', hw, 'teardown after final flush', 'teardown only when the final flush emptied the buffer', bad_t[0] if bad_t else 'handle_writables never signals teardown', witness=bad_t[1] if bad_t else None)
    ch.check(bad_c is None and n_c >= 1, 'C07.2b', hw, 'flag cleared', 'flag cleared only when the buffer is empty', bad_c[0] if bad_c else 'flag never cleared', witness=bad_c[1] if bad_c else None)

    # ---------------- C07.3 threaded shutdown
    sd = prog.own_method('HttpProtocolHandler', 'shutdown')
    gs = cfg_of(sd, prog, exc_edges=False)
    bad3 = None
    n3 = 0
    for p in fpaths(gs):
        ch.paths += 1
        if p.exit_kind != 'return':
            continue
        facts = allfacts(p)
        if facts.get('self.selector') is True and facts.get(HASBUF) is True:
            n3 += 1
            order = []
            for idx, st in p.stmts():
                if _calls(st, 'self._flush'):
                    order.append('flush')
                if _calls(st, '.shutdown') and 'SHUT_WR' in norm(st):
                    order.append('shut')
                if _calls(st, 'connection.close'):
                    order.append('close')
            if 'flush' not in order or ('shut' in order and order.index('flush') > order.index('shut')) or ('close' in order and order.index('flush') > order.index('close')):
                bad3 = ('in threaded mode the client socket is shut down / closed before the pending output is flushed (order: %s)' % order, p.describe(20))
    ch.check(bad3 is None and n3 >= 1, 'C07.3', sd, 'flush before close', 'flush precedes shutdown/close on %d path(s) with pending output' % n3,
             bad3[0] if bad3 else 'no path with selector and pending output found', witness=bad3[1] if bad3 else None)
    fl = prog.own_method('HttpProtocolHandler', '_flush')
    okf = False
    for w in walk_no_nested(fl.node):
        if isinstance(w, ast.While) and norm(w.test) == HASBUF and any(_calls(s, 'self.work.flush') for s in w.body):
            okf = True
    ch.check(okf, 'C07.3', fl, 'while has_buffer: flush', '_flush loops until the buffer is empty', '_flush no longer loops `while self.work.has_buffer()` around self.work.flush()')
    # the drain loop can only make progress if the client socket is registered for write readiness before it starts,
    # and every iteration in which select() reported readiness writes
    gfl = cfg_of(fl, prog, exc_edges=False)
    badf = None
    nf = 0
    for p in fpaths(gfl):
        ch.paths += 1
        fd = allfacts(p)
        if not any(gfl.nodes[nid].kind == 'test' and lab is True and norm(gfl.nodes[nid].ast) == HASBUF for nid, lab in p.steps):   # type: ignore[arg-type]
            continue
        nf += 1
        sym = Sym(p)
        first_test = min([i for i, (nid, lab) in enumerate(p.steps) if gfl.nodes[nid].kind == 'test' and norm(gfl.nodes[nid].ast) == HASBUF] or [0])   # type: ignore[arg-type]
        reg = any(isinstance(c, ast.Call) and attr_chain(c.func) == 'self.selector.register' and len(c.args) >= 2 and 'EVENT_WRITE' in norm(sym.value(c.args[1], i))
                  and norm(sym.value(c.args[0], i)) in ('self.work.connection', 'self.work.connection.fileno()')
                  for i, st in p.stmts() if i < first_test for c in walk_no_nested(st))
        if not reg:
            badf = ('the drain loop of _flush is entered without the client socket having been registered for EVENT_WRITE: select() then never reports it ready and pending output is '
                    'never written before the socket is closed', p.describe(16))
        ready = any(v is False and k.replace(' ', '') in ('len(self.selector.select(timeout=DEFAULT_SELECTOR_SELECT_TIMEOUT))==0',) for k, v in fd.items()) or \
            any(v is False and k.replace(' ', '').startswith('len(') and k.replace(' ', '').endswith('==0') for k, v in fd.items())
        if ready and not any(_calls(st, 'self.work.flush') for i, st in p.stmts()):
            badf = ('select() reported the client writable but this iteration of the drain loop does not call self.work.flush()', p.describe(16))
    ch.check(badf is None and nf > 0, 'C07.3', fl, 'drain loop can progress', 'registered for EVENT_WRITE before the loop; flush on every ready iteration (%d path(s))' % nf,
             badf[0] if badf else 'no path enters the drain loop', witness=badf[1] if badf else None)

    # ---------------- C07.11 pending output at shutdown, whatever the mode
    n11 = 0
    per_mode: Dict[str, Tuple[bool, List[str]]] = {}
    for p in fpaths(gs):
        if p.exit_kind != 'return' or p.coarse:
            continue
        fd = allfacts(p)
        if fd.get(HASBUF) is False:
            continue
        n11 += 1
        flushed = any(_calls(st, 'self._flush') or _calls(st, 'self.work.flush') for i, st in p.stmts())
        label = 'with a per-connection selector (threaded mode)' if fd.get('self.selector') is True else 'without a per-connection selector (threadless mode)' if fd.get('self.selector') is False else 'selector not tested'
        prev = per_mode.get(label, (True, []))
        per_mode[label] = (prev[0] and flushed, prev[1] if prev[0] is False else (p.describe(16) if not flushed else []))
    for label, (okm, wit) in sorted(per_mode.items()):
        ch.check(okm, 'C07.11', sd, 'pending output at shutdown ' + label, 'flushed before the socket is closed',
                 'shutdown() closes the client socket %s without flushing what is still queued for the client: when a handler raises while output is pending (e.g. a malformed follow-up request '
                 'arriving while a large response is still being delivered) the work is torn down at once and the client sees end-of-stream in the middle of the response' % label, witness=wit)
    if not per_mode:
        ch.bad('C07.11', sd, 'pending output at shutdown', 'no path of shutdown() with possibly pending output found')

    # ---------------- C07.4
    idle_predicate_check(ch, 'C07.4')
    allowed = {'Threadless._run_once', 'Threadless._cleanup_inactive', 'ThreadlessFdExecutor.work', 'Threadless._update_selector'}
    callers = set()
    thr = prog.class_named('Threadless')
    for c in [thr] + prog.subclasses(thr):
        for fn in c.methods.values():
            for call in walk_no_nested(fn.node):
                if isinstance(call, ast.Call) and attr_chain(call.func) == 'self._cleanup':
                    callers.add(fn.qualname)
    extra = callers - allowed
    ch.check(not extra and callers, 'C07.4', prog.own_method('Threadless', '_cleanup'), 'who may tear a work down',
             '_cleanup called from %s' % sorted(callers), 'a new caller tears works down outside the enumerated reasons (task teardown, idle reaping, init failure, broken event refresh): %s' % sorted(extra))
    # ---------------- C07.9 no SO_LINGER
    from .common import no_linger_check
    no_linger_check(ch, 'C07.9')

    # ---------------- C07.8 use after release
    from .common import use_after_release_check
    use_after_release_check(ch, 'C07.8')

    # ---------------- C07.7 upstream side
    from .common import upstream_flush_check
    upstream_flush_check(ch, 'C07.7')

    # ---------------- C07.10 (shared)
    ch.rule('C07.13', 'a protocol plugin\'s write_to_descriptors asks for teardown only on an I/O failure of its own side (inside an exception handler) or because a plugin it delegates to asked: '
                      'HttpProtocolHandler.handle_events closes at once on True from this hook, without waiting for the client buffer to drain, so it cannot be used to say "finished, please close"', 3)
    n13 = 0
    for ci13 in [prog.class_named('HttpProtocolHandlerPlugin')] + prog.subclasses(prog.class_named('HttpProtocolHandlerPlugin')) + [prog.class_named('TcpUpstreamConnectionHandler')]:
        wt = ci13.methods.get('write_to_descriptors')
        if wt is None or ci13.name == 'HttpProtocolHandlerPlugin':
            continue
        g13 = cfg_of(wt, prog)
        bad13 = None
        np13 = 0
        for p in fpaths(g13):
            ch.paths += 1
            if p.exit_kind != 'return' or p.coarse:
                continue
            np13 += 1
            last = p.stmts()[-1] if p.stmts() else None
            v = Sym(p).value(last[1].value, last[0]) if last is not None and isinstance(last[1], ast.Return) and last[1].value is not None else ast.Constant(value=None)
            if isinstance(v, ast.Constant) and v.value in (False, None):
                continue
            in_handler = any(g13.nodes[nid].kind == 'handler' for nid, lab in p.steps)
            fd13 = allfacts(p)
            delegated = any('.write_to_descriptors(' in k and val is True for k, val in fd13.items()) or any(isinstance(x, ast.Call) and isinstance(x.func, ast.Attribute) and x.func.attr == 'write_to_descriptors' for x in ast.walk(v))
            if not in_handler and not delegated:
                bad13 = ('%s.write_to_descriptors returns %s outside any I/O failure handling and not because a delegate asked: handle_events then closes the connection immediately, '
                         'and whatever is still queued for the client beyond one flush is lost' % (ci13.name, norm(v)[:60]), p.describe(16))
        n13 += 1
        ch.check(bad13 is None and np13 > 0, 'C07.13', wt, 'teardown from the write hook', 'True only from failure handlers / delegates (%d path(s))' % np13, bad13[0] if bad13 else 'no return path', witness=bad13[1] if bad13 else None)
    if n13 == 0:
        raise AnalysisError('anchor vanished: no write_to_descriptors implementation found')
    ch.rule('C07.15', 'an upstream that ends its TLS stream without close_notify is an end-of-stream, not an exception: nothing switches suppress_ragged_eofs off on a wrapped socket (expected 0 sites) -- the read handlers of the '
                      'reverse proxy and of the tunnel expect recv() to return nothing at EOF; an SSLEOFError escapes handle_events and the teardown that follows drops what is still queued for the client', 1)
    n15 = 0
    for fn15 in prog.all_functions('proxy', include_inlined=True):
        if fn15.module.name.startswith('proxy.testing'):
            continue
        for x15 in walk_no_nested(fn15.node):
            hit15 = None
            if isinstance(x15, ast.Assign) and any(isinstance(t_, ast.Attribute) and t_.attr == 'suppress_ragged_eofs' for t_ in x15.targets) and not (isinstance(x15.value, ast.Constant) and x15.value.value is True):
                hit15 = x15
            if isinstance(x15, ast.Call) and any(k_.arg == 'suppress_ragged_eofs' and not (isinstance(k_.value, ast.Constant) and k_.value.value is True) for k_ in x15.keywords):
                hit15 = x15
            if hit15 is not None:
                n15 += 1
                ch.bad('C07.15', fn15, hit15, '%s switches suppress_ragged_eofs off: a peer that closes TCP without a TLS close_notify now makes recv() raise ssl.SSLEOFError instead of returning end-of-stream; '
                       'the reverse-proxy / tunnel read handlers do not expect it, it escapes handle_events, and the output still queued for the client is discarded with the connection' % fn15.qualname)
    probe15 = ast.parse('s.suppress_ragged_eofs = False').body[0]
    assert isinstance(probe15, ast.Assign) and probe15.targets[0].attr == 'suppress_ragged_eofs'      # type: ignore[attr-defined]
    if n15 == 0:
        ch.ok('C07.15', None, 'suppress_ragged_eofs', 'no TLS socket has its end-of-stream handling changed (matcher verified on a built-in example)', module_rel='proxy/')
    ch.import_rules('C05', {'C05.17': 'C07.16'}, 'a canned reply queued for one client is the same object for every client of the worker: whoever releases a queued memoryview destroys the output still owed to the others')
    ch.import_rules('C17', {'C17.3': 'C07.14'}, 'queued output is flushed only if write readiness reaches the handler whenever the socket is writable, also while it is readable')
    ch.import_rules('C10', {'C10.2': 'C07.10'}, 'threaded mode flushes pending output in shutdown() through the per-connection selector; descriptors left registered by an exceptional exit of _run_once make that flush fail before it wrote anything')

    # ---------------- C07.5 / C07.6 (shared)
    ch.import_rules('C01', {'C01.2': 'C07.5', 'C01.3': 'C07.6'}, 'output is delivered once and completely only if flush removes exactly what was sent and the counter that has_buffer() reads agrees with the queue')
    ch.import_rules('C05', {'C05.8': 'C07.12'}, 'output still queued when the upstream is done is delivered only if no socket the handler still reports is closed before teardown')


def _parents(root: ast.AST) -> Dict[int, ast.AST]:
    out: Dict[int, ast.AST] = {}
    for n in ast.walk(root):
        for c in ast.iter_child_nodes(n):
            out[id(c)] = n
    return out
