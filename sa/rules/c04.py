"""C04 -- each request on a persistent connection is answered in order by the right origin.

Mostly a property of histories.  The static part is three must-read (dependence) rules --
a decision can only depend on an input that is read on the way to it -- and a typestate
rule on the follow-up parser:
  C04.1 the first parser's unconsumed remainder is read by the code that continues the
        connection (otherwise bytes that follow the first request in the same segment are lost);
  C04.2 forward proxy: the follow-up request's own authority is read before it is queued to
        the upstream chosen for the first request;
  C04.3 web server: the follow-up request is routed by its own path;
  C04.4 the follow-up parser is fresh per request: once complete it is reset on every way
        out of the function (except protocol upgrade / raising), and it is never reset
        while incomplete; same for the follow-up response parser.
Not decided: one response per request in order under every packing and interleaving."""
import ast
from typing import Any, Dict, List, Optional, Tuple

from ..cfg import cfg_of
from ..flow import Sym, fpaths, attr_effects, allfacts
from ..model import FuncInfo, attr_chain, norm, walk_no_nested, AnalysisError
from ..report import Checker
from .c02 import pipeline_reset_check


def run(ch: Checker) -> None:
    prog = ch.prog
    ch.rule('C04.1', 'must-read: HttpParser.buffer (unconsumed bytes after the first request) is read by HttpProtocolHandler on the path that continues the connection', 1)
    ch.rule('C04.2', 'must-read: in HttpProxyPlugin.on_client_data the completed follow-up request\'s host/port/_url is read between completion and upstream.queue()', 1)
    ch.rule('C04.3', 'must-read: in HttpWebServerPlugin.on_client_data the route used for a follow-up request is selected from that request\'s path', 1)
    ch.rule('C04.10', 'what is handed to the follow-up request / response parsers is the data parameter itself: nothing is trimmed, skipped or rewritten per delivery before parse() sees it', 3)
    ch.rule('C04.4', 'typestate: once the follow-up request parser is complete every normal way out of on_client_data resets it to None (unless the request was a protocol upgrade); '
                     'it is reset only when complete; handle_pipeline_response resets the follow-up response parser exactly when it is complete', 4)

    ch.rule('C04.5', 'connection-management tokens (keep-alive, close, upgrade, websocket, chunked) are compared with a header value only after .lower(): '
                     'RFC 7230 tokens are case-insensitive and clients do send `Keep-Alive`; a case-sensitive test silently ends persistence for those clients', 3)
    token_case_check(ch, 'C04.5')

    # ---------------- C04.1
    hp = prog.class_named('HttpParser')
    readers = []
    for fn in prog.all_functions('proxy'):
        if fn.cls is hp or fn.module.name.startswith(('proxy.plugin', 'proxy.testing')):
            continue
        for n in walk_no_nested(fn.node):
            if isinstance(n, ast.Attribute) and n.attr == 'buffer' and isinstance(n.ctx, ast.Load):
                base = attr_chain(n.value) or ''
                if base.endswith('request') or base.endswith('pipeline_request') or base.endswith('response') or base.endswith('parser'):
                    readers.append((fn, n))
    handler_readers = [r for r in readers if r[0].module.name in ('proxy.http.handler', 'proxy.http.proxy.server', 'proxy.http.server.web')]
    pfr = prog.own_method('HttpProtocolHandler', '_parse_first_request')
    ch.check(bool(handler_readers), 'C04.1', pfr, 'self.request.buffer is never read',
             'the first parser\'s remainder is read by %s' % [r[0].qualname for r in handler_readers],
             'nothing outside HttpParser reads the parser\'s unconsumed remainder: bytes that follow the first request in the same segment (a pipelined second request, or the start of it) '
             'are kept in request.buffer / swallowed as body and never served')

    # ---------------- C04.2
    ocd = prog.own_method('HttpProxyPlugin', 'on_client_data')
    g = cfg_of(ocd, prog, exc_edges=False)
    n_paths = 0
    reads_authority = True
    wit: List[str] = []
    for p in fpaths(g):
        ch.paths += 1
        sym = Sym(p)
        q = None
        comp = None
        for sidx, (nid, lab) in enumerate(p.steps):
            nd = g.nodes[nid]
            if nd.kind == 'test' and lab is True and norm(nd.ast).endswith('pipeline_request.is_complete'):  # type: ignore[arg-type]
                comp = sidx
        if comp is None:
            continue
        for i, st in p.stmts():
            if i > comp and any(isinstance(c, ast.Call) and attr_chain(c.func) == 'self.upstream.queue' for c in walk_no_nested(st)):
                q = i
        if q is None:
            continue
        n_paths += 1
        read = False
        for sidx, (nid, lab) in enumerate(p.steps):
            if comp < sidx <= q:
                nd = g.nodes[nid]
                if nd.ast is None:
                    continue
                for a in ast.walk(nd.ast if nd.kind != 'for' else nd.ast.iter):  # type: ignore[union-attr]
                    if isinstance(a, ast.Attribute) and a.attr in ('host', 'port', '_url') and 'pipeline_request' in (attr_chain(a.value) or ''):
                        read = True
        if not read:
            reads_authority = False
            wit = p.describe(22)
    ch.check(reads_authority and n_paths > 0, 'C04.2', ocd, 'follow-up authority is never read',
             'the follow-up request\'s authority is consulted before forwarding',
             'a follow-up request is queued to the upstream of the FIRST request without its own host/port ever being read: a request naming a different origin is sent to the wrong server', witness=wit)

    # ---------------- C04.3
    wcd = prog.own_method('HttpWebServerPlugin', 'on_client_data')
    gw = cfg_of(wcd, prog, exc_edges=False)
    routed_by_path = True
    n3 = 0
    wit = []
    for p in fpaths(gw):
        ch.paths += 1
        for i, st in p.stmts():
            for c in walk_no_nested(st):
                if isinstance(c, ast.Call) and isinstance(c.func, ast.Attribute) and c.func.attr == 'handle_request' and c.args and 'pipeline_request' in norm(c.args[0]):
                    n3 += 1
                    # the receiver must derive from a route lookup on pipeline_request.path between completion and the call
                    recv = norm(c.func.value)
                    lookup = False
                    for j, s2 in p.stmts():
                        if j < i:
                            for a in ast.walk(s2):
                                if isinstance(a, ast.Attribute) and a.attr == 'path' and 'pipeline_request' in (attr_chain(a.value) or ''):
                                    lookup = True
                    if not lookup:
                        routed_by_path = False
                        wit = p.describe(22)
    ch.check(routed_by_path and n3 > 0, 'C04.3', wcd, 'follow-up route is never re-selected',
             'follow-up requests are routed by their own path',
             'a follow-up request is handed to the route plugin chosen for the FIRST request (self.route) without its own path being matched: a request for another route is answered by the wrong plugin', witness=wit)

    # ---------------- C04.4
    pipeline_reset_check(ch, 'C04.4')
    for cls, fname in (('HttpProxyPlugin', 'on_client_data'), ('HttpWebServerPlugin', 'on_client_data')):
        f = prog.own_method(cls, fname)
        gg = cfg_of(f, prog, exc_edges=False)
        bad = None
        n = 0
        for p in fpaths(gg):
            ch.paths += 1
            if p.exit_kind != 'return':
                continue
            comp = None
            for sidx, (nid, lab) in enumerate(p.steps):
                nd = gg.nodes[nid]
                if nd.kind == 'test' and lab is True and norm(Sym(p).value(nd.ast, sidx)).endswith('self.pipeline_request.is_complete'):  # type: ignore[arg-type]
                    comp = sidx
            if comp is None:
                continue
            n += 1
            fd = allfacts(p)
            upgrade = any(k.endswith('is_connection_upgrade') and v is True for k, v in fd.items())
            resets = [i for i, st in p.stmts() if i > comp and isinstance(st, ast.Assign) and attr_chain(st.targets[0]) == 'self.pipeline_request' and norm(st.value) == 'None']
            if not resets and not upgrade:
                bad = ('on_client_data can return with a completed follow-up request parser still in place: parse() on a completed parser is a no-op, so the next request on the connection '
                       'is answered/forwarded as the previous one again and never handled itself', p.describe(24))
        ch.check(bad is None and n > 0, 'C04.4', f, 'completed parser always reset', 'every normal exit after completion resets the follow-up parser (%d path(s))' % n,
                 bad[0] if bad else 'no completion path found', witness=bad[1] if bad else None)
    hpr = prog.own_method('HttpProxyPlugin', 'handle_pipeline_response')
    gh = cfg_of(hpr, prog, exc_edges=False)
    bad = None
    n = 0
    for p in fpaths(gh):
        if p.exit_kind != 'return':
            continue
        n += 1
        fd = allfacts(p)
        comp = fd.get('self.pipeline_response.is_complete')
        resets = [i for i, st in p.stmts() if isinstance(st, ast.Assign) and attr_chain(st.targets[0]) == 'self.pipeline_response' and norm(st.value) == 'None']
        if bool(resets) != bool(comp):
            bad = ('the follow-up response parser is %s' % ('kept after it completed' if comp else 'discarded before the response completed'), p.describe())
        # nothing else may be reset here (e.g. the request parser: its life ends when the request was forwarded)
        other = [norm(st) for i, st in p.stmts() if isinstance(st, ast.Assign) and attr_chain(st.targets[0]) == 'self.pipeline_request']
        # one exception: a retained upgrade request whose response was not 101 (the upgrade was declined) is dropped so that parsing continues
        declined = fd.get('self.pipeline_request.is_connection_upgrade') is True and fd.get("self.pipeline_response.code == b'101'") is False and bool(comp)
        if other and not declined:
            bad = ('handle_pipeline_response edits the follow-up REQUEST parser (%s) on a path that is not "upgrade offered and answered with something other than 101": its lifetime must end when the request is forwarded, not when some response completes' % other[0], p.describe())
    ch.check(bad is None and n > 0, 'C04.4', hpr, 'response parser reset', 'follow-up response parser reset exactly when complete', bad[0] if bad else '', witness=bad[1] if bad else None)

    # ---------------- C04.10 the follow-up parsers are fed what arrived
    n10 = 0
    for fn in prog.all_functions('proxy.http', include_inlined=True):
        feeds = [c_ for c_ in walk_no_nested(fn.node) if isinstance(c_, ast.Call) and attr_chain(c_.func) in ('self.pipeline_request.parse', 'self.pipeline_response.parse') and c_.args]
        if not feeds or len(fn.params) < 2:
            continue
        g10 = cfg_of(fn, prog, exc_edges=False)
        verdict10: Dict[int, Tuple[ast.Call, Optional[str]]] = {}
        for p in fpaths(g10):
            ch.paths += 1
            sym10 = Sym(p)
            for i_, nd_, lab_ in p.executed():
                if nd_.ast is None or nd_.kind != 'stmt':
                    continue
                for c_ in walk_no_nested(nd_.ast):
                    if any(c_ is f_ for f_ in feeds):
                        v = sym10.value(c_.args[0], i_)       # type: ignore[attr-defined]
                        while isinstance(v, ast.Call) and attr_chain(v.func) in ('memoryview', 'bytes') and len(v.args) == 1:
                            v = v.args[0]
                        ok_ = isinstance(v, ast.Name) and v.id in fn.params[1:]
                        prev = verdict10.get(id(c_), (c_, None))[1]
                        verdict10[id(c_)] = (c_, prev or (None if ok_ else norm(v)[:70]))     # type: ignore[assignment]
        for c_, why in verdict10.values():
            n10 += 1
            ch.check(why is None, 'C04.10', fn, c_, 'the parser is fed the data as it arrived',
                     'the follow-up parser is fed %s instead of the data that arrived: bytes are dropped or altered per delivery, so whether a later request completes depends on where the client\'s '
                     'segments happen to be cut (an empty line arriving on its own, a body piece that starts with CRLF)' % why)
    if n10 == 0:
        raise AnalysisError('anchor vanished: no self.pipeline_request.parse(...) / self.pipeline_response.parse(...) found')

    # ---------------- C04.8/9 (shared)
    ch.rule('C04.12', 'credentials are asked for once per connection, where the connection is admitted: the proxy-auth plugin reaches its credential check from before_upstream_connection only -- not from a hook that runs for every '
                      'later request (requests decrypted out of an authenticated, intercepted tunnel carry no Proxy-Authorization by design and would all be answered 407)', 1)
    auth = prog.class_named('AuthPlugin')
    methods12 = dict(list(auth.methods.items()) + list(auth.inlined_methods.items()))

    def checks_credentials(fn_: FuncInfo, seen: Optional[set] = None) -> bool:
        seen = seen if seen is not None else set()
        if fn_.key in seen:
            return False
        seen.add(fn_.key)
        for x in ast.walk(fn_.node):
            if isinstance(x, ast.Attribute) and x.attr == 'auth_code':
                return True
            if isinstance(x, ast.Call) and (attr_chain(x.func) or '').split('.')[-1] == 'ProxyAuthenticationFailed':
                return True
            if isinstance(x, ast.Call) and isinstance(x.func, ast.Attribute) and attr_chain(x.func.value) == 'self' and x.func.attr in methods12:
                if checks_credentials(methods12[x.func.attr], seen):
                    return True
        return False
    PER_REQUEST_HOOKS = ('handle_client_request', 'handle_client_data', 'handle_upstream_chunk', 'on_client_data', 'on_access_log', 'on_upstream_connection_close')
    entry12 = [nm for nm, f_ in auth.methods.items() if checks_credentials(f_) and (nm == 'before_upstream_connection' or nm in PER_REQUEST_HOOKS)]
    ch.check(entry12 == ['before_upstream_connection'], 'C04.12', auth.methods.get('before_upstream_connection') or next(iter(auth.methods.values())), 'hooks that check credentials',
             'the credential check is reached from before_upstream_connection only',
             'the proxy-auth plugin checks credentials from %s: a hook that runs for every later request of a connection -- including each request decrypted out of an intercepted tunnel, which carries no '
             'Proxy-Authorization header -- answers 407 into an already authenticated connection and closes it' % sorted(entry12))
    ch.import_rules('C11', {'C11.11': 'C04.13'}, 'a request on a persistent TLS client connection is answered however it is packed into records only if one receive takes a whole TLS record (the rest of a partly read record is never announced again)')
    ch.import_rules('C11', {'C11.9': 'C04.11'}, 'a later request on a TLS client connection is answered only if an incomplete TLS record does not tear the connection down')
    ch.import_rules('C07', {'C07.2b': 'C04.8'}, 'the last response on a persistent connection is complete only if the close waits for an empty buffer')
    ch.import_rules('C20', {'C20.2': 'C04.9'}, 'the connection stays usable while a response is being relayed only if writes to the client count as activity')

    # ---------------- C04.7 (shared)
    ch.import_rules('C01', {'C01.10': 'C04.7'}, 'responses to earlier requests must keep flowing while a follow-up request is still queued for the upstream')

    # ---------------- C04.6 (shared)
    ch.import_rules('C10', {'C10.2': 'C04.6'}, 'a follow-up request queued for the upstream is only sent if the write interest reaches the selector, which depends on the registry recording what was registered')


TOKENS = {b'keep-alive', b'close', b'upgrade', b'websocket', b'chunked'}
def _token_side(e: ast.AST) -> bool:
    if isinstance(e, ast.Constant) and isinstance(e.value, bytes):
        return e.value in TOKENS
    if isinstance(e, (ast.Tuple, ast.List, ast.Set)) and e.elts:
        return all(isinstance(x, ast.Constant) and isinstance(x.value, bytes) for x in e.elts) and any(x.value in TOKENS for x in e.elts)  # type: ignore[attr-defined]
    return False


def token_case_check(ch: Checker, rule: str) -> None:
    prog = ch.prog
    hp = prog.class_named('HttpParser')
    n = 0
    for fn in hp.methods.values():
        cmps = [c for c in walk_no_nested(fn.node) if isinstance(c, ast.Compare) and len(c.ops) == 1 and isinstance(c.ops[0], (ast.Eq, ast.NotEq, ast.In, ast.NotIn))
                and (_token_side(c.left) != _token_side(c.comparators[0]))]
        if not cmps:
            continue
        g = cfg_of(fn, prog, exc_edges=False)
        verdict: Dict[int, Tuple[ast.Compare, bool, str]] = {}
        for p in fpaths(g):
            ch.paths += 1
            sym = Sym(p)
            for i, nd, lab in p.executed():
                if nd.ast is None:
                    continue
                for c in walk_no_nested(nd.ast if nd.kind != 'for' else nd.ast.iter):  # type: ignore[union-attr]
                    if not any(c is x for x in cmps):
                        continue
                    other = c.comparators[0] if _token_side(c.left) else c.left  # type: ignore[attr-defined]
                    v = sym.value(other, i)
                    lowered = any(isinstance(x, ast.Call) and isinstance(x.func, ast.Attribute) and x.func.attr in ('lower', 'casefold') for x in ast.walk(v))
                    prev = verdict.get(id(c))
                    verdict[id(c)] = (c, (prev[1] if prev else True) and lowered, norm(v)[:90])  # type: ignore[arg-type]
        for c, ok, txt in verdict.values():
            n += 1
            ch.check(ok, rule, fn, c, 'token compared after .lower()',
                     'the header value (%s) is compared with a lower-case token without being lower-cased: `Connection: Keep-Alive` / `Upgrade: WebSocket` / `Transfer-Encoding: Chunked` '
                     'are not recognised, so e.g. a client announcing Keep-Alive never gets its follow-up requests answered' % txt)
    if n == 0:
        ch.bad(rule, None, 'token comparisons', 'no comparison of a header value with a connection-management token found in HttpParser', module_rel='proxy/http/parser/parser.py')
