"""C05 -- one connection cannot take down or stall the executor serving the others.

Decided (shape of the isolation boundary):
  C05.1 exception containment: every call, reachable from the executor loop, of a Work
        lifecycle method on a work object or of a selector operation in a per-work function
        is enclosed -- in its own function or in every caller up to the loop -- by a handler
        that covers what it can raise and does not re-raise;
  C05.2 the covering handlers do not leave the loop nor touch other works;
  C05.3 the works table is not resized while it is being iterated;
  C05.6 _cleanup(id) is only called for ids known to be in the works table (its subscripts
        and `del` are otherwise KeyErrors outside any handler);
  C05.7 integers taken from the wire and used as slice bounds in the parser loops are
        range-checked (a negative length makes the parse loop spin forever: a stall).
Not decided: stalls caused by blocking calls (connect/TLS handshakes are blocking by
design), equality of a canary's outcome with its solo outcome."""
import ast
from typing import Any, Dict, List, Optional, Set, Tuple

from ..cfg import cfg_of, ExcTypes
from ..flow import Sym, fpaths, enclosing_handlers, attr_effects, allfacts
from ..model import ClassInfo, FuncInfo, Program, attr_chain, norm, walk_no_nested, AnalysisError
from ..report import Checker
from .common import (hierarchy_functions, self_calls, implementations, is_awaited, contained_locally,
                     handler_reraises, iteration_mutations)

SELECTOR_OPS = ('register', 'modify', 'unregister')
SELECTOR_RAISES = (KeyError, ValueError, OSError)   # documented failure modes of selectors.BaseSelector


def _loop_of(fn: FuncInfo) -> Optional[ast.While]:
    from .common import loop_containing_call
    return loop_containing_call(fn, 'self._run_once')


def _inside(node: ast.AST, container: ast.AST) -> bool:
    return any(x is node for x in ast.walk(container))


def _work_receiver(fn: FuncInfo, recv: ast.AST, table: str = 'self.works') -> bool:
    """receiver expression denotes an element of the works table"""
    if isinstance(recv, ast.Subscript) and attr_chain(recv.value) == table:
        return True
    if isinstance(recv, ast.Call) and attr_chain(recv.func) in (table + '.pop', table + '.get'):
        return True
    if isinstance(recv, ast.Name):
        for n in walk_no_nested(fn.node):
            if isinstance(n, ast.Assign) and any(isinstance(t, ast.Name) and t.id == recv.id for t in n.targets):
                v = n.value
                if isinstance(v, ast.Subscript) and attr_chain(v.value) == table:
                    return True
                # taken out of the table: self.works.pop(id) / self.works.get(id)
                if isinstance(v, ast.Call) and attr_chain(v.func) in (table + '.pop', table + '.get'):
                    return True
                # the executor's own factory of work objects
                if isinstance(v, ast.Call) and attr_chain(v.func) == 'self.create':
                    return True
            if isinstance(n, (ast.For, ast.AsyncFor, ast.comprehension)):
                from .common import dict_iter
                di = dict_iter(n.target, n.iter, table)
                if di is not None and di.get('value') == recv.id:
                    return True
    return False


def _per_work_function(fn: FuncInfo) -> bool:
    """function that handles one work: subscripts self.works / registered_events_by_work_ids with one of its parameters"""
    params = set(fn.params)
    for n in walk_no_nested(fn.node):
        if isinstance(n, ast.Subscript) and attr_chain(n.value) in ('self.works', 'self.registered_events_by_work_ids'):
            if isinstance(n.slice, ast.Name) and n.slice.id in params:
                return True
    return False


def run(ch: Checker) -> None:
    prog = ch.prog
    ch.rule('C05.12', 'nobody sets SO_LINGER on a socket (expected 0 sites): close() with a linger time blocks the worker\'s only thread', 1)
    ch.rule('C05.1', 'containment: every Work lifecycle call on a work object (overridable methods of Work called from the executor) and every selector '
                     'register/modify/unregister in a per-work function is enclosed, in its own function or in every caller chain up to the '
                     '`while True` of Threadless._run_forever, by handlers that cover what it can raise (Exception for work code; KeyError/ValueError/OSError '
                     'for selector operations) and do not re-raise', 8)
    ch.rule('C05.2', 'covering handlers (and their finally blocks) neither leave the executor loop (break / return of a truthy value) nor clear the works table / stop the loop', 4)
    ch.rule('C05.3', 'no loop that iterates self.works directly has a body that can resize it (del / insertion / _cleanup), directly or through self-calls', 2)
    ch.rule('C05.6', 'every call of _cleanup(id) passes an id known to be in self.works: inserted on every path before the call, or taken from iteration over self.works, '
                     'or the id stamped on a task created from self.works', 4)
    ch.rule('C05.8', 'who may close: a socket owned by a work (upstream / client / work connection) is closed only from the teardown callbacks (shutdown, on_client_connection_close), '
                     'i.e. after the executor unregistered the work\'s descriptors', 3)
    ch.rule('C05.10', 'admission is not starved: every way through Threadless._run_once either established that no new work is available or calls receive_from_work_queue() -- '
                      'a connection that keeps its descriptors ready on every tick must not keep the work queue from being read', 1)
    ch.rule('C05.11', 'the parse loop cannot spin: the flag that sends HttpParser._process_body into its Content-Length branch (_content_expected) is (re)computed from EVERY Content-Length header '
                      'stored, so it always agrees with the size that branch reads back from the header map (a flag left over from an earlier, replaced header makes the branch consume 0 bytes and '
                      'report more input, forever -- the worker then serves nobody)', 1)
    ch.rule('C05.7', 'an integer parsed from wire bytes and used as a slice bound in ChunkParser/HttpParser is range-checked (a comparison with 0 that raises or leaves) '
                     'between the conversion and the use', 1)

    thr = prog.class_named('Threadless')
    work = prog.class_named('Work')
    funcs = hierarchy_functions(prog, thr)
    byname: Dict[str, List[FuncInfo]] = {}
    for f in funcs:
        byname.setdefault(f.name, []).append(f)
    run_forever = prog.own_method('Threadless', '_run_forever')
    loop = _loop_of(run_forever)
    if loop is None:
        raise AnalysisError('anchor: no loop around self._run_once() in Threadless._run_forever')
    exc = ExcTypes(prog, thr.module)

    # lifecycle methods = methods of Work overridden somewhere below it and called from the executor hierarchy
    overridden = set()
    for sub in prog.subclasses(work):
        overridden.update(n for n in sub.methods if n in work.methods and not n.startswith('__'))
    lifecycle = set()
    for f in funcs:
        for n in walk_no_nested(f.node):
            if isinstance(n, ast.Call) and isinstance(n.func, ast.Attribute) and n.func.attr in overridden \
                    and _work_receiver(f, n.func.value):
                lifecycle.add(n.func.attr)
    if not {'get_events', 'shutdown', 'is_inactive', 'initialize'} <= lifecycle:
        raise AnalysisError('anchor: lifecycle calls on works not found in the executor (found %s)' % sorted(lifecycle))

    # reachability from the loop body through self-calls
    reach: Set[str] = set()
    todo = [name for c, name in self_calls(run_forever) if _inside(c, loop)]
    while todo:
        nm = todo.pop()
        if nm in reach:
            continue
        reach.add(nm)
        for f in byname.get(nm, []):
            for c, name in self_calls(f):
                todo.append(name)

    # callers index: method name -> [(caller function, call node)]
    callers: Dict[str, List[Tuple[FuncInfo, ast.Call]]] = {}
    for f in funcs:
        if f.name in reach or f is run_forever:
            for c, name in self_calls(f):
                callers.setdefault(name, []).append((f, c))

    covering_handlers: List[Tuple[FuncInfo, ast.ExceptHandler]] = []

    def contained(f: FuncInfo, node: ast.AST, needed: Tuple[type, ...], chain: List[str], depth: int = 0) -> Optional[List[str]]:
        """None if contained on every caller chain, else the offending chain"""
        h = contained_locally(f, node, exc, needed)
        here = '%s: %s' % (f.qualname, norm(node)[:70])
        if h is not None:
            covering_handlers.append((f, h))
            return None
        if f is run_forever:
            if _inside(node, loop):
                return chain + [here, 'escapes the `while True` of Threadless._run_forever']
            return None
        if depth > 12:
            return chain + [here, 'call chain too deep']
        cs = callers.get(f.name, [])
        for cf, cnode in cs:
            bad = contained(cf, cnode, needed, chain + [here], depth + 1)
            if bad:
                return bad
        return None

    # ---- C05.1 sites
    sites: List[Tuple[FuncInfo, ast.Call, Tuple[type, ...], str]] = []
    for f in funcs:
        if f.name not in reach:
            continue
        per_work = _per_work_function(f)
        for n in walk_no_nested(f.node):
            if not isinstance(n, ast.Call) or not isinstance(n.func, ast.Attribute):
                continue
            if n.func.attr in lifecycle and _work_receiver(f, n.func.value):
                impl = prog.lookup_method(work, n.func.attr)
                is_async = impl is not None and isinstance(impl.node, ast.AsyncFunctionDef)
                if is_async and not is_awaited(f, n):
                    # creating the coroutine does not run it: the exception surfaces at task.result()
                    continue
                sites.append((f, n, (Exception,), 'work.%s()' % n.func.attr))
            elif n.func.attr == 'result' and not n.args and isinstance(n.func.value, ast.Name):
                sites.append((f, n, (Exception,), 'task.result() (stands for handle_events of the work)'))
            elif per_work and n.func.attr in SELECTOR_OPS and attr_chain(n.func.value) == 'self.selector':
                sites.append((f, n, SELECTOR_RAISES, 'selector.%s of a work descriptor' % n.func.attr))
    for f, n, needed, what in sites:
        bad = contained(f, n, needed, [])
        if bad is None:
            ch.ok('C05.1', f, n, '%s is contained before it can leave the executor loop' % what)
        else:
            ch.bad('C05.1', f, n, '%s can raise out of the executor loop: no enclosing handler for %s on this call chain; the worker stops serving every other connection'
                   % (what, '/'.join(t.__name__ for t in needed)), witness=bad)

    # ---- C05.2 handlers
    seen = set()
    for f, h in covering_handlers:
        if id(h) in seen:
            continue
        seen.add(id(h))
        problems = []
        # the try statement owning h
        owner = None
        for t, _ in [(t, b) for t in walk_no_nested(f.node) if isinstance(t, ast.Try) for b in [0]]:
            if h in t.handlers:
                owner = t
        bodies = list(h.body) + (list(owner.finalbody) if owner is not None else [])
        for s in bodies:
            for n in walk_no_nested(s):
                if isinstance(n, ast.Break) and f is run_forever:
                    problems.append('break leaves the executor loop')
                if isinstance(n, ast.Return) and f.name in ('_run_once', '_run_forever') and n.value is not None \
                        and not (isinstance(n.value, ast.Constant) and not n.value.value):
                    problems.append('return %s from %s ends the executor loop' % (norm(n.value), f.name))
                if isinstance(n, ast.Call) and attr_chain(n.func) in ('self.works.clear', 'self.loop.stop', 'self.selector.close', 'self.running.set', 'sys.exit', 'os._exit'):
                    problems.append('%s affects every work' % attr_chain(n.func))
        ch.check(not problems, 'C05.2', f, 'except %s' % (norm(h.type) if h.type is not None else ''),
                 'handler handles the failure locally', 'covering handler is not local to the failing work: ' + '; '.join(problems), line=h.lineno)

    # ---- C05.3 iteration
    n3 = 0
    for f, lp, node, reason in iteration_mutations(prog, funcs, thr, 'self.works'):
        n3 += 1
        if reason:
            ch.bad('C05.3', f, node, 'RuntimeError("dictionary changed size during iteration") escapes the per-work handler: ' + reason,
                   line=getattr(node, 'lineno', None))
        else:
            ch.ok('C05.3', f, 'for %s in %s' % (norm(lp.target), norm(lp.iter)), 'body does not resize self.works', line=lp.lineno)

    # ---- C05.6 cleanup precondition
    for f in funcs:
        for c, name in self_calls(f):
            if name != '_cleanup' or not c.args:
                continue
            g = cfg_of(f, prog)
            verdicts = []
            for p in fpaths(g):
                ch.paths += 1
                for idx, n, lab in p.executed():
                    if n.ast is None or not any(x is c for x in walk_no_nested(n.ast if n.kind != 'for' else n.ast.iter)):  # type: ignore[union-attr]
                        continue
                    if n.kind not in ('stmt', 'test'):
                        continue
                    sym = Sym(p)
                    verdicts.append(_known_id(p, sym, idx, c.args[0]))
            if not verdicts:
                ch.skip('C05.6', f, c, 'call site not reached on an enumerated path')
                continue
            badv = [v for v in verdicts if v[0] is False]
            if badv:
                ch.bad('C05.6', f, c, '_cleanup is called with an id that is not known to be in self.works (%s): `del self.works[id]` / `self.works[id]` raise KeyError '
                                     'outside any handler and the worker stops' % badv[0][1], witness=badv[0][2])
            else:
                ch.ok('C05.6', f, c, 'id is known to be in self.works: %s' % verdicts[0][1])

    # ---- C05.10 admission on every tick
    ro = prog.own_method('Threadless', '_run_once')
    gro = cfg_of(ro, prog, exc_edges=False)
    bad10 = None
    n10 = 0
    for p in fpaths(gro):
        ch.paths += 1
        if p.exit_kind != 'return':
            continue
        n10 += 1
        fdp = allfacts(p)
        called = any(isinstance(c, ast.Call) and attr_chain(c.func) == 'self.receive_from_work_queue' for i, nd, lab in p.executed() if nd.ast is not None and nd.kind in ('stmt', 'test')
                     for c in walk_no_nested(nd.ast))
        none_avail = any(v is False and k.startswith('new_work_available') or (v is False and '_selected_events()' in k and k.endswith('[1]')) for k, v in fdp.items())
        if not called and not none_avail:
            bad10 = ('a way through _run_once neither checks that no new work is available nor reads the work queue: while some connection is ready on every tick (an upstream at EOF whose '
                     'client does not read, a busy tunnel) newly accepted connections are never admitted and the shutdown signal is never seen', p.describe(18))
    ch.check(bad10 is None and n10 > 0, 'C05.10', ro, 'admission on every tick', 'work queue read, or known empty, on all %d path(s)' % n10, bad10[0] if bad10 else 'no path', witness=bad10[1] if bad10 else None)

    # ---- C05.11 flag and stored header in step
    content_length_flag_check(ch, 'C05.11')

    # ---- C05.13 (shared)
    ch.rule('C05.14', 'one readiness event pays for one non-blocking read: in the connection class and the event handlers a receive on a connection is not repeated on a path and not placed in a loop (no handler blocks the shared loop in a read that no readiness event covers)', 4)
    from .common import single_recv_check
    single_recv_check(ch, 'C05.14')
    ch.rule('C05.15', 'configuration is shared by every connection of a worker: per-connection code never stores into or mutates <...>.flags.<name>, directly or through a local that names the same object (expected 0 sites)', 1)
    from .common import shared_config_mutation_check
    shared_config_mutation_check(ch, 'C05.15')
    ch.rule('C05.16', 'a lock taken with a bare acquire() is released on every way out of the function, exceptional ones included (expected: no bare acquire at all, locks are held through `with`)', 1)
    ch.rule('C05.18', 'sockets served by the shared loop stay non-blocking (or keep a finite timeout): setblocking(True) / settimeout(None) appear only in TcpClientConnection.wrap and TcpServerConnection.wrap, around the TLS handshake (frozen table)', 2)
    ch.rule('C05.17', 'queued output is shared between connections (module-level canned replies): no connection class releases a queued memoryview (expected 0 sites)', 1)
    from .common import lock_release_check, no_buffer_release_check
    lock_release_check(ch, 'C05.16')
    no_buffer_release_check(ch, 'C05.17')
    ch.import_rules('C16', {'C16.3': 'C05.13'}, 'the web server feeds frame.parse() its own remainder until it is empty: a parse that can return its input unconsumed spins the worker forever')

    # ---- C05.9 (shared)
    ch.import_rules('C10', {'C10.2': 'C05.9'}, 'descriptors of a torn-down work that stay registered make the next connection with the same numbers unpollable')

    # ---- C05.12 no SO_LINGER
    from .common import no_linger_check
    no_linger_check(ch, 'C05.12')

    # ---- C05.8 who may close
    from .common import who_may_close_check
    who_may_close_check(ch, 'C05.8')

    # ---- C05.7 wire integers as slice bounds
    _wire_ints(ch, prog)

    # ---------------- C05.18 who may put a socket of the worker into blocking mode
    allowed18 = {'TcpClientConnection.wrap', 'TcpServerConnection.wrap'}
    n18 = 0
    seen18 = set()
    for fn18 in prog.all_functions('proxy', include_inlined=True):
        if fn18.module.name.startswith(('proxy.plugin', 'proxy.testing', 'proxy.http.client', 'proxy.http.websocket.client', 'proxy.common.pki', 'proxy.dashboard')):
            continue
        for c in walk_no_nested(fn18.node):
            if isinstance(c, ast.Call) and isinstance(c.func, ast.Attribute) and c.func.attr in ('setblocking', 'settimeout') and len(c.args) == 1 and not c.keywords:
                a = c.args[0]
                blocking = isinstance(a, ast.Constant) and ((c.func.attr == 'setblocking' and a.value is True) or (c.func.attr == 'settimeout' and a.value is None))
                unknown = not isinstance(a, ast.Constant) and c.func.attr == 'setblocking'
                if not (blocking or unknown):
                    continue
                n18 += 1
                seen18.add(fn18.qualname)
                ch.check(fn18.qualname in allowed18, 'C05.18', fn18, c, 'blocking mode for the duration of a TLS handshake (the frozen table)',
                         '%s puts a socket into blocking mode (%s): every send()/recv() on it then waits for the peer instead of returning what is possible -- a peer that stops reading (tiny window, '
                         'never drains) makes one flush() of the shared loop wait forever, and with it every other connection of the worker. Only the two TLS wrap() methods may do this, around the handshake'
                         % (fn18.qualname, norm(c)[:60]))
    if n18 < 2:
        raise AnalysisError('anchor vanished: the TLS wrap() methods no longer switch to blocking mode around the handshake')



def _known_id(p: Any, sym: Sym, idx: int, arg: ast.AST) -> Tuple[bool, str, List[str]]:
    v = sym.value(arg, idx)
    txt = norm(v)
    raw = norm(arg)
    # (b) id stamped on a task created from self.works keys
    if txt.endswith('._work_id'):
        return True, 'id stamped on the task when it was created from self.works', []
    # (a) iteration variable over self.works (directly) or over a list filled from such an iteration
    if isinstance(v, ast.Call) and txt.startswith('__iter__('):
        it = v.args[0]  # type: ignore[attr-defined]
        if attr_chain(it) == 'self.works' or (isinstance(it, ast.Call) and isinstance(it.func, ast.Attribute) and attr_chain(it.func.value) == 'self.works'):
            return True, 'iteration variable over self.works', []
        if isinstance(it, ast.Name) or (isinstance(it, ast.List)):
            # a local list: every append into it must append an iteration variable of self.works
            lname = norm(arg_iter_name(p, idx, arg))
            ok = _list_filled_from_works(p.cfg.func, lname)
            if ok:
                return True, 'id collected from an iteration over self.works (%s)' % lname, []
        return False, 'iterates %s' % norm(it)[:50], p.describe()
    # (b) id stamped on a task created from self.works keys
    if txt.endswith('._work_id'):
        return True, 'id stamped on the task when it was created from self.works', []
    # (c) inserted on this path before the call and not deleted since
    inserted = False
    for j, st in p.stmts():
        if j >= idx:
            break
        for chn, kind, node in attr_effects(st):
            if chn == 'self.works' and kind == 'item':
                tgt = [t for t in node.targets if isinstance(t, ast.Subscript)]  # type: ignore[attr-defined]
                if tgt and norm(sym.value(tgt[0].slice, j)) == txt or (tgt and norm(tgt[0].slice) == raw):
                    inserted = True
            if chn == 'self.works' and kind in ('delitem', 'call:pop', 'call:clear'):
                inserted = False
    if inserted:
        return True, 'inserted into self.works on this path before the call', []
    # membership fact
    if ('%s in self.works' % raw, True) in list(allfacts(p, idx).items()):
        return True, 'membership test', []
    return False, 'argument %s' % txt[:60], p.describe()


def arg_iter_name(p: Any, idx: int, arg: ast.AST) -> ast.AST:
    """the iterable expression of the for-loop that binds `arg` (un-inlined)"""
    if isinstance(arg, ast.Name):
        for j in range(idx - 1, -1, -1):
            nid, lab = p.steps[j]
            n = p.cfg.nodes[nid]
            if n.kind == 'for' and lab == 'iter' and isinstance(n.ast.target, ast.Name) and n.ast.target.id == arg.id:
                return n.ast.iter
    return arg


def _list_filled_from_works(fn: FuncInfo, lname: str) -> bool:
    appends = 0
    for loop in walk_no_nested(fn.node):
        if isinstance(loop, (ast.For, ast.AsyncFor)):
            for n in walk_no_nested(loop):
                if isinstance(n, ast.Call) and isinstance(n.func, ast.Attribute) and n.func.attr == 'append' and norm(n.func.value) == lname:
                    from .common import dict_iter
                    di = dict_iter(loop.target, loop.iter, 'self.works')
                    if di is not None and di.get('key') is not None and n.args and norm(n.args[0]) == di['key']:
                        appends += 1
                    else:
                        return False
    # appends outside any loop over self.works
    total = sum(1 for n in walk_no_nested(fn.node) if isinstance(n, ast.Call) and isinstance(n.func, ast.Attribute)
                and n.func.attr in ('append', 'extend', 'insert') and norm(n.func.value) == lname)
    return appends > 0 and total == appends


def _wire_ints(ch: Checker, prog: Program) -> None:
    """int(<bytes from the wire>, ...) stored in a parser field and later used as a slice bound"""
    found = 0
    for cname in ('ChunkParser', 'HttpParser'):
        ci = prog.class_named(cname)
        for f in ci.methods.values():
            for st in walk_no_nested(f.node):
                if isinstance(st, ast.Assign) and isinstance(st.value, ast.Call) and attr_chain(st.value.func) == 'int' and st.value.args:
                    src = st.value.args[0]
                    if isinstance(src, ast.Call) and attr_chain(src.func) == 'len':
                        continue
                    tgt = st.targets[0]
                    tname = attr_chain(tgt)
                    if tname is None:
                        continue
                    # is the target (or a difference involving it) used as a slice bound anywhere in the class?
                    used = _used_as_slice_bound(ci, tname)
                    if not used:
                        continue
                    found += 1
                    # range check: on every path from the assignment to a normal continuation a test comparing the target with 0
                    g = cfg_of(f, prog)
                    ok = True
                    wit: List[str] = []
                    for p in fpaths(g):
                        ch.paths += 1
                        pos = [i for i, s in p.stmts() if s is st]
                        if not pos or p.exit_kind != 'return':
                            continue
                        facts = [(a, b) for (a, b) in list(allfacts(p).items()) if a.replace(' ', '') in ('%s<0' % tname, '%s>=0' % tname, '0<=%s' % tname, '0>%s' % tname)]
                        # an equivalent guard: the token handed to int() was established to consist of digits / letters only (no sign)
                        src_txt = norm(Sym(p).value(src, pos[0])).replace(' ', '')
                        for a, b in allfacts(p, pos[0]).items():
                            a2 = a.replace(' ', '')
                            if b is True and any(a2 == '%s.%s()' % (src_txt, m_) or a2 == '%s.%s()' % (norm(src).replace(' ', ''), m_) for m_ in ('isalnum', 'isdigit', 'isxdigit', 'isdecimal')):
                                facts.append((a, b))
                        if not facts:
                            ok = False
                            wit = p.describe()
                    if tname.startswith('self.') or True:
                        if ok:
                            ch.ok('C05.7', f, st, '%s is compared with 0 before any normal continuation' % tname)
                        else:
                            # content-length style: guarded elsewhere by `int(value) > 0` ?
                            if _guarded_positive_elsewhere(ci, src):
                                ch.ok('C05.7', f, st, 'the same wire value is only used when a `> 0` test on it held (%s)' % norm(src)[:50])
                            else:
                                ch.bad('C05.7', f, st, '%s comes from int() of wire bytes (a sign is accepted) and is used as a slice bound (%s) without a range check: '
                                                        'a negative value makes the incremental parse loop consume nothing and spin forever' % (tname, used), witness=wit)
    if found == 0:
        ch.skip('C05.7', None, 'wire integers', 'no wire integer used as a slice bound found', module_rel='proxy/http/parser/chunk.py')


def _used_as_slice_bound(ci: ClassInfo, tname: str) -> Optional[str]:
    for f in ci.methods.values():
        # names derived from tname by subtraction
        derived = {tname}
        for st in walk_no_nested(f.node):
            if isinstance(st, ast.Assign) and isinstance(st.targets[0], ast.Name):
                if any(attr_chain(n) in derived for n in ast.walk(st.value) if isinstance(n, (ast.Attribute, ast.Name))):
                    derived.add(st.targets[0].id)
        for n in walk_no_nested(f.node):
            if isinstance(n, ast.Subscript) and isinstance(n.slice, ast.Slice):
                for b in (n.slice.lower, n.slice.upper):
                    if b is not None and any(attr_chain(x) in derived for x in ast.walk(b) if isinstance(x, (ast.Attribute, ast.Name))):
                        return '%s in %s' % (norm(n)[:50], f.qualname)
    return None


def _guarded_positive_elsewhere(ci: ClassInfo, src: ast.AST) -> bool:
    """`int(<same header>) > 0` is what arms the code path that uses the value"""
    want = norm(src)
    key = None
    if isinstance(src, ast.Call) and src.args and isinstance(src.args[0], ast.Constant):
        key = src.args[0].value
    for f in ci.methods.values():
        for n in walk_no_nested(f.node):
            if isinstance(n, ast.Compare) and len(n.ops) == 1 and isinstance(n.ops[0], ast.Gt) \
                    and isinstance(n.left, ast.Call) and attr_chain(n.left.func) == 'int' \
                    and isinstance(n.comparators[0], ast.Constant) and n.comparators[0].value == 0:
                # and k == b'content-length'
                return True
    return False


def content_length_flag_check(ch: Checker, rule: str) -> None:
    prog = ch.prog
    ph = prog.own_method('HttpParser', '_process_header')
    g = cfg_of(ph, prog, exc_edges=False)
    n = 0
    bad = None
    for p in fpaths(g):
        ch.paths += 1
        if p.exit_kind != 'return':
            continue
        fd = allfacts(p)
        is_cl = any(v is True and kk.replace(' ', '').endswith("==b'content-length'") for kk, v in fd.items())
        if not is_cl:
            continue
        n += 1
        stores = [st for i, st in p.stmts() for chn, kind, node in attr_effects(st) if chn == 'self._content_expected' and kind == 'store']
        if not stores:
            bad = ('a Content-Length header is stored on a path that leaves _content_expected as an earlier header set it: with `Content-Length: 5` followed by `Content-Length: 0` the body '
                   'branch is entered with a size of 0, consumes nothing and asks to be called again -- HttpParser.parse() never returns', p.describe(16))
    ch.check(bad is None and n > 0, rule, ph, '_content_expected follows every Content-Length', 'the flag is assigned on all %d path(s) that store a Content-Length header' % n,
             bad[0] if bad else 'no path stores a Content-Length header', witness=bad[1] if bad else None)
