"""C06 -- any input yields service, a well-formed error response, or a clean close.

Decided:
  C06.1 framing consistency of every response the proxy builds itself, at each call site of
        build_http_response (constant evaluation of the arguments) and inside the builder
        (Content-Length written on every path that has neither a transfer-encoding header
        nor no_cl, from the very body passed on); gzip header and gzip body go together;
  C06.2 every exception out of the first-request parse becomes 400 + teardown;
  C06.3 reject => close: a `Connection: close` packet queued to the client is followed on every
        path by the teardown signal, with no further client output;
  C06.4 at most one self-made response per rejection: exceptions that can be raised from inside
        HttpParser.parse (the handler has already queued 400 for them) carry no response;
  C06.5 canned packets carry the status they are named after.
Not decided: acceptance by an independent parser for every builder argument; totality over
all byte strings after a successful parse."""
import ast
from typing import Any, Dict, List, Optional, Tuple

from ..cfg import cfg_of, ExcTypes
from ..consteval import ConstEval, Unknown
from ..flow import Sym, fpaths, attr_effects, allfacts
from ..model import FuncInfo, attr_chain, norm, walk_no_nested
from ..report import Checker
from .forward import eval_response_call, eval_response_constant
from .c15 import content_length_check

CLOSE_PACKETS = ('BAD_REQUEST_RESPONSE_PKT', 'NOT_FOUND_RESPONSE_PKT', 'PROXY_AUTH_FAILED_RESPONSE_PKT', 'BAD_GATEWAY_RESPONSE_PKT',
                 'NOT_IMPLEMENTED_RESPONSE_PKT', 'PROXY_TUNNEL_UNSUPPORTED_SCHEME')
EXPECT_STATUS = {'PROXY_TUNNEL_ESTABLISHED_RESPONSE_PKT': 200, 'PROXY_TUNNEL_UNSUPPORTED_SCHEME': 400, 'PROXY_AUTH_FAILED_RESPONSE_PKT': 407,
                 'BAD_REQUEST_RESPONSE_PKT': 400, 'NOT_FOUND_RESPONSE_PKT': 404, 'NOT_IMPLEMENTED_RESPONSE_PKT': 501, 'BAD_GATEWAY_RESPONSE_PKT': 502}


def run(ch: Checker) -> None:
    prog = ch.prog
    ce = ConstEval(prog)
    ch.rule('C06.1', 'every build_http_response call site in proxy/**: no_cl=True with a body that is not provably empty requires conn_close=True (close-delimited); a literal Content-Length '
                     'header equals the literal body length; the builder writes Content-Length = len(body passed on) on EVERY path without transfer-encoding header and no_cl; '
                     'okResponse adds Content-Encoding: gzip exactly when it compresses', 12)
    ch.rule('C06.2', '_parse_first_request: request.parse() is inside a try whose handlers cover Exception; every handler queues BAD_REQUEST_RESPONSE_PKT and leaves by raising an '
                     'HttpProtocolException; handle_data answers HttpProtocolException with teardown on every path', 3)
    ch.rule('C06.3', 'after a Connection: close packet is queued to the client in handler.py / web.py every path reaches teardown (return True / raise HttpProtocolException) '
                     'without another client queue', 5)
    ch.rule('C06.4', 'no HttpProtocolException subclass that overrides response() is raised from the modules HttpParser.parse runs (parser, chunk, protocol, url): '
                     'the handler has already queued 400 for parse failures', 3)
    ch.rule('C06.6', 'every header map handed to a response/request builder that writes into it (okResponse, build_http_response, ...) is created for that one message, '
                     'never a module-level or class-level map: otherwise headers computed for one response (Content-Encoding, Content-Length, Connection) leak into later ones', 3)
    ch.rule('C06.9', 'HttpProtocolHandler.handle_events: on every path where neither write side tore down and reading has not been torn down, handle_readables() is called, and '
                     'after it (unless it tore down) the plugin\'s read_from_descriptors(): a request that arrives is read and an upstream answer is fetched', 1)
    ch.rule('C06.10', 'every input is answered, rejected or waited for -- never spun on: _content_expected is recomputed from every Content-Length header stored (shared with C05.11)', 1)
    ch.rule('C06.5', 'canned packets in responses.py carry the status code they are named after and a non-empty reason', 7)

    # ---------------- C06.1 call sites
    n_sites = 0
    for fn_mod in prog.modules.values():
        if not fn_mod.name.startswith('proxy') or fn_mod.name.startswith(('proxy.plugin', 'proxy.testing', 'proxy.dashboard')):
            continue
        for c in ast.walk(fn_mod.tree):
            if isinstance(c, ast.Call) and (attr_chain(c.func) or '').split('.')[-1] == 'build_http_response':
                n_sites += 1
                info = eval_response_call(prog, ce, fn_mod, c)
                owner = _owner(prog, fn_mod, c)
                problems = []
                if info is None:
                    continue
                body = info['body']
                body_empty = body is None or body == b''
                body_known = isinstance(body, (bytes, type(None)))
                if info['no_cl'] is True and not body_empty and info['conn_close'] is not True:
                    problems.append('no Content-Length (no_cl=True) with a body and without Connection: close: the client cannot tell where the response ends')
                hdrs = info['headers']
                for k, v in hdrs.items():
                    if isinstance(k, bytes) and k.lower() == b'content-length' and isinstance(v, bytes):
                        if body_known:
                            want = len(body or b'')
                            if int(v) != want:
                                problems.append('literal Content-Length %s but the body has %d byte(s)' % (v.decode(), want))
                        elif int(v) == 0:
                            problems.append('literal Content-Length 0 with a body that is not provably empty')
                if problems:
                    ch.bad('C06.1', owner, c, '; '.join(problems), module_rel=fn_mod.relpath)
                else:
                    ch.ok('C06.1', owner, c, 'framing arguments consistent (status %s, no_cl=%s, conn_close=%s)' % (info['status'], info['no_cl'], info['conn_close']), module_rel=fn_mod.relpath)
    # inside the builder: shared rule + completeness of the Content-Length store
    content_length_check(ch, 'C06.1')
    bhr = prog.function('proxy.common.utils', 'build_http_response')
    g = cfg_of(bhr, prog, exc_edges=False)
    from .c15 import _te_flags, _is_te_scan_text
    te_flags = _te_flags(bhr)
    bad = None
    n = 0
    for p in fpaths(g):
        ch.paths += 1
        if p.exit_kind != 'return':
            continue
        fd = allfacts(p)
        te_seen = any(pol is True and (_is_te_scan_text(a) or a in te_flags) for a, pol in fd.items())    # the scan for a Transfer-Encoding header, whatever its flag is called
        if fd.get('no_cl') is not True and not te_seen:
            n += 1
            from .c15 import cl_store_at, _cl_key_locals
            sym_b = Sym(p)
            cl_keys = _cl_key_locals(bhr, bhr.module, ce)
            stores = [st for i, st in p.stmts() if cl_store_at(p, i, st, sym_b, bhr, ce, cl_keys) is not None]
            if not stores:
                bad = ('a response without transfer-encoding header and without no_cl is built WITHOUT the builder computing Content-Length (extra condition: %s): a length supplied '
                       'by the caller survives even when the body was replaced (e.g. gzip-compressed by okResponse)' % [k for k, v in fd.items() if k not in ('no_cl', 'reason', 'body', 'conn_close') and k not in te_flags], p.describe(20))
    ch.check(bad is None and n > 0, 'C06.1', bhr, 'Content-Length always computed', 'Content-Length computed on all %d path(s) without TE / no_cl' % n, bad[0] if bad else '', witness=bad[1] if bad else None)
    # okResponse gzip agreement
    okr = prog.function('proxy.http.responses', 'okResponse')
    go = cfg_of(okr, prog, exc_edges=False)
    bad = None
    n = 0
    for p in fpaths(go):
        if p.exit_kind != 'return':
            continue
        n += 1
        sym = Sym(p)
        hdr = any("b'Content-Encoding': b'gzip'" in norm(st) for i, st in p.stmts())
        last = p.stmts()[-1]
        call = [c for c in walk_no_nested(last[1]) if isinstance(c, ast.Call) and (attr_chain(c.func) or '').endswith('build_http_response')]
        if not call:
            continue
        b = [k.value for k in call[0].keywords if k.arg == 'body']
        bv = sym.value(b[0], last[0]) if b else None
        gz = False
        if isinstance(bv, ast.IfExp):
            t = bv.test
            conj = t.values if isinstance(t, ast.BoolOp) and isinstance(t.op, ast.And) else [t]
            dead = any(isinstance(x, ast.Constant) and not x.value for x in conj)
            gz = norm(bv.body).startswith('gzip.compress(') and not dead
        elif bv is not None:
            gz = norm(bv).startswith('gzip.compress(')
        if hdr != gz:
            bad = ('okResponse %s the Content-Encoding: gzip header but %s the body' % ('adds' if hdr else 'omits', 'compresses' if gz else 'does not compress'), p.describe(20))
    ch.check(bad is None and n > 0, 'C06.1', okr, 'gzip header <-> gzip body', 'header and compression go together on %d path(s)' % n, bad[0] if bad else '', witness=bad[1] if bad else None)

    # ---------------- C06.2
    pfr = prog.own_method('HttpProtocolHandler', '_parse_first_request')
    exc = ExcTypes(prog, pfr.module)
    hpe = prog.class_named('HttpProtocolException')
    tries = [t for t in walk_no_nested(pfr.node) if isinstance(t, ast.Try) and any(isinstance(c, ast.Call) and attr_chain(c.func) == 'self.request.parse' for s in t.body for c in walk_no_nested(s))]
    if not tries:
        ch.bad('C06.2', pfr, 'self.request.parse(...)', 'the first-request parse is not inside a try block: any parser exception (ValueError, IndexError, UnicodeError ...) tears the task down without a 400')
    else:
        t = tries[0]
        covers = any(exc.handler_covers_exception(h) for h in t.handlers)
        ch.check(covers, 'C06.2', pfr, 'handlers cover Exception', 'every exception of parse() is handled', 'the handlers around request.parse() do not cover Exception: %s' % [norm(h.type) if h.type else 'bare' for h in t.handlers])
        okh = True
        why = ''
        for h in t.handlers:
            queued = any(isinstance(c, ast.Call) and attr_chain(c.func) == 'self.work.queue' and c.args and norm(c.args[0]) == 'BAD_REQUEST_RESPONSE_PKT' for s in h.body for c in walk_no_nested(s))
            last = h.body[-1]
            raises = isinstance(last, ast.Raise)
            rclass = None
            if raises:
                r = last.exc
                if r is None or (isinstance(r, ast.Name) and r.id == h.name):
                    types = exc.handler_types(h)
                    rclass = types[0] if len(types) == 1 else None
                else:
                    rclass = exc.resolve(r)
            good_cls = rclass is not None and not isinstance(rclass, type) and prog.is_subclass(rclass, hpe)
            if not (queued and raises and good_cls):
                okh = False
                why = 'handler `except %s` %s' % (norm(h.type) if h.type else '', 'does not queue the 400 packet' if not queued else 'does not leave by raising an HttpProtocolException')
        ch.check(okh, 'C06.2', pfr, 'handlers answer 400 and raise', 'each handler queues BAD_REQUEST_RESPONSE_PKT and raises an HttpProtocolException', why)
    hd = prog.own_method('HttpProtocolHandler', 'handle_data')
    gh = cfg_of(hd, prog)
    bad = None
    n = 0
    for p in fpaths(gh):
        if any(gh.nodes[nid].kind == 'handler' and 'HttpProtocolException' in norm(gh.nodes[nid].ast.type) for nid, lab in p.steps if gh.nodes[nid].kind == 'handler' and gh.nodes[nid].ast.type is not None):  # type: ignore[union-attr]
            n += 1
            last = p.stmts()[-1] if p.stmts() else None
            if p.exit_kind != 'return' or last is None or not (isinstance(last[1], ast.Return) and norm(last[1].value) == 'True'):
                bad = ('a protocol exception is handled without signalling teardown (connection stays open after a rejection)', p.describe(20))
    ch.check(bad is None and n > 0, 'C06.2', hd, 'protocol exception => teardown', 'HttpProtocolException handler returns True on %d path(s)' % n, bad[0] if bad else 'no handler path', witness=bad[1] if bad else None)

    # ---------------- C06.3 reject => close
    n3 = 0
    for cls in ('HttpProtocolHandler', 'HttpWebServerPlugin'):
        ci = prog.class_named(cls)
        for fn in ci.methods.values():
            sites = [c for c in walk_no_nested(fn.node) if isinstance(c, ast.Call) and attr_chain(c.func) in ('self.work.queue', 'self.client.queue') and c.args and _is_close_packet(prog, ce, fn, c.args[0])]
            if not sites:
                continue
            g3 = cfg_of(fn, prog)
            for c in sites:
                n3 += 1
                bad = None
                np_ = 0
                for p in fpaths(g3):
                    ch.paths += 1
                    idxs = [i for i, st in p.stmts() if any(x is c for x in walk_no_nested(st))]
                    if not idxs:
                        continue
                    np_ += 1
                    i0 = idxs[0]
                    later = [cc for i, st in p.stmts() if i > i0 for cc in walk_no_nested(st) if isinstance(cc, ast.Call) and attr_chain(cc.func) in ('self.work.queue', 'self.client.queue')]
                    if later:
                        bad = ('more client output is queued after a Connection: close packet (%s)' % norm(later[0])[:60], p.describe(20))
                    last = p.stmts()[-1]
                    if p.exit_kind == 'raise':
                        continue   # raising an HttpProtocolException tears down (C06.2)
                    rv = last[1].value if isinstance(last[1], ast.Return) else None
                    if fn.name == '_try_static_or_404':
                        continue   # caller returns True right after (checked under on_request_complete)
                    if rv is None or norm(Sym(p).value(rv, last[0])) != 'True':
                        bad = ('after queueing a Connection: close packet the function returns %s instead of the teardown signal: the connection is kept open after the rejection'
                               % (norm(rv) if rv is not None else 'None'), p.describe(20))
                ch.check(bad is None and np_ > 0, 'C06.3', fn, c, 'teardown follows on %d path(s)' % np_, bad[0] if bad else 'site unreachable', witness=bad[1] if bad else None)
    # the static fallback: caller returns True unconditionally after it
    orc = prog.own_method('HttpWebServerPlugin', 'on_request_complete')
    go2 = cfg_of(orc, prog, exc_edges=False)
    bad = None
    n = 0
    for p in fpaths(go2):
        idx = [i for i, st in p.stmts() if any(isinstance(c, ast.Call) and attr_chain(c.func) == 'self._try_static_or_404' for c in walk_no_nested(st))]
        if idx:
            n += 1
            last = p.stmts()[-1]
            if not (isinstance(last[1], ast.Return) and norm(last[1].value) == 'True'):
                bad = ('the static-file reply (Connection: close) is not followed by teardown', p.describe())
    ch.check(bad is None and n > 0, 'C06.3', orc, 'static reply => teardown', 'teardown after the static reply', bad[0] if bad else 'static fallback not reached', witness=bad[1] if bad else None)

    # ---------------- C06.4
    parse_modules = ('proxy.http.parser.parser', 'proxy.http.parser.chunk', 'proxy.http.parser.protocol', 'proxy.http.url')
    for mn in parse_modules:
        mod = prog.module(mn)
        ex = ExcTypes(prog, mod)
        offenders = []
        nr = 0
        for r in ast.walk(mod.tree):
            if isinstance(r, ast.Raise) and r.exc is not None:
                nr += 1
                cls = ex.resolve(r.exc)
                if cls is not None and not isinstance(cls, type) and prog.is_subclass(cls, hpe):
                    impl = prog.lookup_method(cls, 'response')
                    if impl is not None and impl.cls is not hpe:
                        offenders.append((r, cls.name))
        if offenders:
            for r, cn in offenders:
                ch.bad('C06.4', None, r, 'the parser raises %s, which carries its own response: the protocol handler has already queued 400 Bad Request for parse failures and then queues '
                                         'e.response() as well, so the client receives two responses on one connection' % cn, module_rel=mod.relpath, line=r.lineno)
        else:
            ch.ok('C06.4', None, 'raises in %s' % mn, '%d raise site(s), none carries a response' % nr, module_rel=mod.relpath)

    # ---------------- C06.5
    for name, want in EXPECT_STATUS.items():
        info = eval_response_constant(prog, ce, name)
        ok5 = info is not None and info['status'] == want and bool(info['reason'])
        ch.check(bool(ok5), 'C06.5', None, name, 'status %d with a reason' % want,
                 '%s evaluates to status %s reason %r (expected %d)' % (name, info['status'] if info else None, info['reason'] if info else None, want), module_rel='proxy/http/responses.py')

    # ---------------- C06.9 the read side runs
    he9 = prog.own_method('HttpProtocolHandler', 'handle_events')
    g9 = cfg_of(he9, prog, exc_edges=False)
    from ..cfg import atom_key
    bad9 = None
    n9 = 0
    for p in fpaths(g9):
        ch.paths += 1
        if p.exit_kind != 'return':
            continue
        # state of reads_teared as last tested before any read call; write side results
        first_rt = None
        wrote_teared = False
        calls_hr = calls_pr = False
        rt_after_hr = None
        plugin = None
        for i, nd, lab in p.executed():
            if nd.ast is None:
                continue
            if nd.kind == 'test' and lab in (True, False):
                k, pol = atom_key(nd.ast, lab)   # type: ignore[arg-type]
                if k == 'self.writes_teared' and pol:
                    wrote_teared = True
                if k == 'self.reads_teared':
                    if first_rt is None and not calls_hr:
                        first_rt = pol
                    elif calls_hr and rt_after_hr is None:
                        rt_after_hr = pol
                if k == 'self.plugin' and calls_hr:
                    plugin = pol
            for c in walk_no_nested(nd.ast):
                if isinstance(c, ast.Call) and attr_chain(c.func) == 'self.handle_readables':
                    calls_hr = True
                if isinstance(c, ast.Call) and attr_chain(c.func) == 'self.plugin.read_from_descriptors':
                    calls_pr = True
        if wrote_teared:
            continue
        n9 += 1
        if first_rt is not True and not calls_hr:
            bad9 = ('handle_events returns without calling handle_readables() although neither write side tore down and reads were not torn down: data the client sent is never read', p.describe(18))
        if calls_hr and rt_after_hr is False and plugin is True and not calls_pr:
            bad9 = ('the plugin\'s read_from_descriptors() is skipped after a successful client read: the upstream\'s answer is never fetched', p.describe(18))
    ch.check(bad9 is None and n9 > 0, 'C06.9', he9, 'read side runs', 'client and plugin descriptors are read on all %d path(s) where nothing tore down' % n9, bad9[0] if bad9 else 'no such path', witness=bad9[1] if bad9 else None)

    # ---------------- C06.10 (shared with C05.11)
    from .c05 import content_length_flag_check
    content_length_flag_check(ch, 'C06.10')

    # ---------------- C06.6 per-message header maps
    from .common import fresh_headers_check
    fresh_headers_check(ch, 'C06.6')
    # ---------------- C06.11-13 (shared)
    ch.import_rules('C11', {'C11.11': 'C06.18'}, 'a complete request that arrives in one TLS record is answered only if one receive takes the whole record; otherwise its tail stays inside the SSL object and the connection is dropped silently by the idle reaper')
    ch.import_rules('C09', {'C09.3b': 'C06.17'}, 'a rejected tunnel request gets exactly one response only if nothing is queued for the client before the plugin chain has had its say')
    ch.import_rules('C11', {'C11.9': 'C06.16'}, 'a valid request gets its answer only if an incomplete TLS record is waited for instead of being treated as an error')
    ch.import_rules('C01', {'C01.2': 'C06.11', 'C01.3': 'C06.12'}, 'a reply is complete on the wire only if flush() removes exactly what send() accepted')
    ch.import_rules('C07', {'C07.2b': 'C06.13'}, 'a closing reply is followed by the close only if the flush-before-shutdown flag survives until the buffer is empty')

    # ---------------- C06.7 / C06.8 (shared)
    ch.import_rules('C03', {'C03.1': 'C06.7', 'C03.2': 'C06.8'}, 'a request whose terminator is split across reads is only recognised (and answered) if the parser carries the unconsumed bytes over')
    ch.import_rules('C07', {'C07.1': 'C06.14'}, 'a reply of the proxy\'s own making is delivered whole only if teardown waits for the client buffer to drain')
    ch.import_rules('C05', {'C05.7': 'C06.15'}, 'every request gets an answer or a close only if no length taken from the wire can make the parser loop without consuming')


def _owner(prog: Any, mod: Any, node: ast.AST) -> Optional[FuncInfo]:
    for f in prog.functions.values():
        if f.module is mod and any(x is node for x in ast.walk(f.node)):
            return f
    return None


def _is_close_packet(prog: Any, ce: ConstEval, fn: FuncInfo, e: ast.AST) -> bool:
    t = norm(e)
    if t in CLOSE_PACKETS:
        info = eval_response_constant(prog, ce, t)
        return info is not None and info['conn_close'] is True
    return False
