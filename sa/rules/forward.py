"""Shared by C02 / C08: the sites that forward a rebuilt request to the upstream, and
constant evaluation of the canned response packets."""
import ast
from typing import Any, Dict, List, Optional, Tuple

from ..cfg import cfg_of
from ..consteval import ConstEval, Unknown
from ..flow import Sym, fpaths, attr_effects, allfacts
from ..model import FuncInfo, Program, attr_chain, norm, walk_no_nested
from ..report import Checker

HOP_HEADERS = {b'proxy-authorization', b'proxy-connection'}


def _build_call_in(e: ast.AST) -> Optional[ast.Call]:
    for n in ast.walk(e):
        if isinstance(n, ast.Call) and isinstance(n.func, ast.Attribute) and n.func.attr == 'build':
            return n
    return None


def forward_sites(prog: Program) -> List[Tuple[FuncInfo, ast.Call]]:
    """(function, queue call) for every `self.upstream.queue(<... P.build(...) ...>)` in HttpProxyPlugin"""
    out = []
    hp = prog.class_named('HttpProxyPlugin')
    for fn in hp.methods.values():
        g = None
        for c in walk_no_nested(fn.node):
            if isinstance(c, ast.Call) and attr_chain(c.func) == 'self.upstream.queue' and c.args:
                out.append((fn, c))
    return out


def forward_sites_check(ch: Checker, rule: str, want_via: bool, via_rule: Optional[str] = None) -> None:
    prog = ch.prog
    ce = ConstEval(prog)
    n_sites = 0
    for fn, qcall in forward_sites(prog):
        g = cfg_of(fn, prog)
        per_site: Dict[str, Any] = {'paths': 0, 'problems': [], 'via_missing': {}}
        is_forward = False
        for p in fpaths(g):
            ch.paths += 1
            sym = Sym(p)
            for idx, st in p.stmts():
                if not any(x is qcall for x in walk_no_nested(st)):
                    continue
                arg = sym.value(qcall.args[0], idx)
                b = _build_call_in(arg)
                if b is None:
                    continue   # opaque relay of raw bytes, not a rebuilt request
                is_forward = True
                per_site['paths'] += 1
                per_site.setdefault('text', '%s(%s)' % (norm(qcall.func), norm(arg)))      # the site by value: a named temporary for the built request is read through
                P = norm(b.func.value)  # type: ignore[attr-defined]
                # scan the path prefix
                deleted: set = set()
                via = False
                for j, s2 in p.stmts():
                    if j >= idx:
                        break
                    for c in walk_no_nested(s2):
                        if isinstance(c, ast.Call) and isinstance(c.func, ast.Attribute) and norm(sym.value(c.func.value, j)) == P:
                            if c.func.attr in ('del_headers', 'del_header') and c.args:
                                v = ce.try_eval(fn.module, sym.value(c.args[0], j))
                                if isinstance(v, bytes):
                                    v = [v]
                                if isinstance(v, (list, tuple)):
                                    deleted |= {x.lower() for x in v if isinstance(x, bytes)}
                            if c.func.attr in ('add_headers', 'add_header') and c.args:
                                txt = norm(sym.value(c.args[0], j)).lower()
                                if "b'via'" in txt:
                                    via = 'PROXY_AGENT_HEADER_VALUE' in norm(c) or 'proxy_agent' in txt
                                for h in HOP_HEADERS:
                                    if repr(h) in txt:
                                        deleted.discard(h)
                    # reassignment of P invalidates what was done to the old object
                    for chn, kind, node in attr_effects(s2):
                        if chn == P and kind == 'store':
                            deleted.clear()
                            via = False
                kw = {k.arg: norm(k.value) for k in b.keywords}
                if not HOP_HEADERS <= deleted:
                    per_site['problems'].append(('a rebuilt request is queued to the upstream without removing %s from it first: the client\'s proxy credentials reach the origin'
                                                 % sorted(x.decode() for x in HOP_HEADERS - deleted), p.describe(22)))
                if kw.get('disable_headers') != 'self.flags.disable_headers':
                    per_site['problems'].append(('build() is called without disable_headers=self.flags.disable_headers: operator-disabled headers are forwarded', p.describe(22)))
                if kw.get('for_proxy') not in (None, 'False'):
                    per_site['problems'].append(('build(for_proxy=%s): the origin receives an absolute-form target' % kw.get('for_proxy'), p.describe(22)))
                if want_via and not via:
                    tunnel = allfacts(p, idx).get('self.request.is_https_tunnel')
                    per_site['via_missing'].setdefault(tunnel, p.describe(22))
        if not is_forward:
            continue
        n_sites += 1
        if per_site['problems']:
            ch.bad(rule, fn, qcall, per_site['problems'][0][0], witness=per_site['problems'][0][1])
        else:
            ch.ok(rule, fn, qcall, 'hop-by-hop headers removed and disable_headers applied on all %d path(s) to this forward site' % per_site['paths'])
        if want_via and via_rule:
            if not per_site['via_missing']:
                ch.ok(via_rule, fn, qcall, 'Via naming the proxy is added on every path to this forward site')
            for tunnel, wit in per_site['via_missing'].items():
                what = {True: ' [requests decrypted out of an intercepted CONNECT tunnel]', False: ' [plain HTTP]', None: ''}[tunnel]
                ch.bad(via_rule, fn, 'Via%s @ %s' % (what, per_site.get('text', norm(qcall))[:80]),
                       'a rebuilt request is forwarded without a Via field naming the proxy%s' % what, witness=wit, line=qcall.lineno)
    if n_sites == 0:
        ch.bad(rule, None, 'forward sites', 'no site forwarding a rebuilt request was found in HttpProxyPlugin', module_rel='proxy/http/proxy/server.py')


def _expand_helper_calls(prog: Program, m: Any, e: ast.AST, depth: int = 3) -> ast.AST:
    """a canned packet may be built through a small module-level helper (`X = _error_pkt(400, b'BAD REQUEST')`): when the helper's
    body is a single `return <expr>` the call is replaced by that expression with the arguments substituted for the parameters"""
    import copy as _copy
    if depth <= 0:
        return e

    class _Exp(ast.NodeTransformer):
        def visit_Call(self, c: ast.Call) -> ast.AST:
            self.generic_visit(c)
            if not isinstance(c.func, (ast.Name, ast.Attribute)) or (attr_chain(c.func) or '').split('.')[-1] in ('build_http_response', 'memoryview', 'bytes_', 'text_'):
                return c
            r = prog.resolve_expr(m, c.func)
            if r[0] != 'func' or r[1].cls is not None:
                return c
            fn = r[1]
            node = getattr(fn, 'orig_node', fn.node)
            body = [s_ for i, s_ in enumerate(node.body) if not (i == 0 and isinstance(s_, ast.Expr) and isinstance(s_.value, ast.Constant) and isinstance(s_.value.value, str))]
            if len(body) != 1 or not isinstance(body[0], ast.Return) or body[0].value is None or node.args.vararg or node.args.kwarg:
                return c
            if not any(isinstance(x, ast.Call) and (attr_chain(x.func) or '').split('.')[-1] == 'build_http_response' for x in ast.walk(body[0].value)):
                return c
            params = [a.arg for a in node.args.args]
            defaults = node.args.defaults
            bind = {params[len(params) - len(defaults) + i]: d for i, d in enumerate(defaults)}
            for pn, a in zip(params, c.args):
                bind[pn] = a
            for k in c.keywords:
                if k.arg is not None:
                    bind[k.arg] = k.value
            if any(pn not in bind for pn in params):
                return c

            class _Sub(ast.NodeTransformer):
                def visit_Name(self, n: ast.Name) -> ast.AST:
                    return _copy.deepcopy(bind[n.id]) if isinstance(n.ctx, ast.Load) and n.id in bind else n
            return _expand_helper_calls(prog, fn.module, _Sub().visit(_copy.deepcopy(body[0].value)), depth - 1)
    return ast.fix_missing_locations(_Exp().visit(_copy.deepcopy(e)))


def eval_response_constant(prog: Program, ce: ConstEval, name: str, module: str = 'proxy.http.responses') -> Optional[Dict[str, Any]]:
    m = prog.module(module)
    ent = m.ns.get(name)
    if ent is None or ent[0] != 'assign':
        return None
    return eval_response_call(prog, ce, m, ent[1])


def eval_response_call(prog: Program, ce: ConstEval, m: Any, e: ast.AST, env: Optional[Dict[str, Any]] = None) -> Optional[Dict[str, Any]]:
    """evaluate memoryview(build_http_response(...)) / build_http_response(...) arguments"""
    e = _expand_helper_calls(prog, m, e)
    call = None
    for n in ast.walk(e):
        if isinstance(n, ast.Call) and (attr_chain(n.func) or '').split('.')[-1] == 'build_http_response':
            call = n
            break
    if call is None:
        return None
    sig = ['status_code', 'protocol_version', 'reason', 'headers', 'body', 'conn_close', 'no_cl']
    vals: Dict[str, Any] = {'status_code': None, 'protocol_version': b'HTTP/1.1', 'reason': None, 'headers': {}, 'body': None, 'conn_close': False, 'no_cl': False}
    raw: Dict[str, ast.AST] = {}
    for i, a in enumerate(call.args):
        raw[sig[i]] = a
    for k in call.keywords:
        if k.arg is None:
            vals['**'] = norm(k.value)
        else:
            raw[k.arg] = k.value
    for k, a in raw.items():
        try:
            vals[k] = ce.eval(m, a, env)
        except Unknown:
            if k == 'headers' and isinstance(a, ast.Dict):
                hd = {}
                for kk, vv in zip(a.keys, a.values):
                    try:
                        key = ce.eval(m, kk, env) if kk is not None else None
                    except Unknown:
                        key = None
                    if isinstance(key, bytes):
                        hd[key] = ce.try_eval(m, vv, env, default=('?', norm(vv)))
                    else:
                        hd[('?', norm(kk) if kk is not None else '**')] = ('?', norm(vv))
                vals[k] = hd
            else:
                vals[k] = ('?', norm(a))
    hdrs = vals['headers'] if isinstance(vals['headers'], dict) else {}
    return {'status': vals['status_code'], 'reason': vals['reason'], 'headers': hdrs, 'headers_raw': vals['headers'], 'body': vals['body'],
            'conn_close': vals['conn_close'], 'no_cl': vals['no_cl'], 'call': call, 'star': vals.get('**')}


def opaque_relay_check(ch: Checker, rule: str) -> None:
    """Outside a CONNECT tunnel, client bytes may go to the upstream unparsed only while a protocol upgrade is in effect.
    An upgrade is merely OFFERED by request headers; it is in effect once the upstream answered 101.  So every state that
    enables opaque relay must be revocable: some store in HttpProxyPlugin resets it on a path where a completed response
    is known not to be 101.  (A state derived from the first request's headers can never be revoked.)"""
    prog = ch.prog
    hp = prog.class_named('HttpProxyPlugin')
    ocd = prog.own_method('HttpProxyPlugin', 'on_client_data')
    g = cfg_of(ocd, prog, exc_edges=False)
    # receivers R for which `R = None` happens somewhere under "response code is not 101"
    revocable: Dict[str, str] = {}
    for fn in hp.methods.values():
        if not any(isinstance(x, ast.Constant) and x.value == b'101' for x in ast.walk(fn.node)):
            continue
        gg = cfg_of(fn, prog, exc_edges=False)
        for p in fpaths(gg):
            for i, st in p.stmts():
                if isinstance(st, ast.Assign) and len(st.targets) == 1 and attr_chain(st.targets[0]) and norm(st.value) == 'None':
                    fd = allfacts(p, i)
                    if any(v is False and k.replace(' ', '').endswith(".code==b'101'") for k, v in fd.items()):
                        revocable[attr_chain(st.targets[0])] = fn.qualname  # type: ignore[index]
    sites: Dict[str, Tuple[bool, str, List[str], int]] = {}
    raw = ocd.params[1]
    for p in fpaths(g):
        ch.paths += 1
        sym = Sym(p)
        for i, st in p.stmts():
            for c in walk_no_nested(st):
                if not (isinstance(c, ast.Call) and attr_chain(c.func) == 'self.upstream.queue' and c.args):
                    continue
                if _build_call_in(sym.value(c.args[0], i)) is not None:
                    continue
                fd = allfacts(p, i)
                tunnel_opaque = fd.get('self.request.is_https_tunnel') is True and fd.get('self._tls_intercept_enabled') is False
                if tunnel_opaque or fd.get('self.request.is_complete') is not True:
                    continue       # CONNECT tunnel without interception: opaque by definition
                ups = sorted(k for k, v in fd.items() if v is True and k.endswith('.is_connection_upgrade'))
                label = 'opaque relay of client bytes outside a tunnel under [%s]' % (', '.join(ups) or 'no upgrade state')
                ok = bool(ups) and all(k.rsplit('.', 1)[0] in revocable for k in ups)
                prev = sites.get(label)
                sites[label] = ((prev[0] if prev else True) and ok, label, p.describe(18), c.lineno)
    for ok, label, wit, line in sites.values():
        ch.check(ok, rule, ocd, label, 'the enabling state is dropped when a response other than 101 completes (%s)' % sorted(revocable.items()),
                 'client bytes are queued to the upstream unparsed outside a CONNECT tunnel on the strength of request headers alone, and nothing revokes that when the upstream declines the '
                 'upgrade (answers anything but 101): every later request on the connection then reaches the origin as sent -- absolute-form target, Proxy-Authorization and '
                 'disabled headers included', witness=wit, line=line)
    if not sites:
        ch.ok(rule, ocd, 'opaque relay outside a tunnel', 'client bytes are never relayed unparsed outside a CONNECT tunnel')
