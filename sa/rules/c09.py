"""C09 -- plugins run in configured order with the documented chaining semantics.

Decided:
  C09.1 order preservation from the configured list to every iteration over the plugins;
  C09.2 chain shape of every plugin chain loop (carried value passed in, reassigned from the
        result, loop left on None before any further hook);
  C09.3 None suppresses the upstream connection / the forwarding of that request;
  C09.4 HttpRequestRejected.response passes status/reason/headers/body through, Connection: close;
  C09.5 lifecycle hooks are attempted on every exit of the shutdown path, exceptional exits
        included (nothing that can raise precedes them inside a swallowing try);
  C09.6 no strict decode of wire bytes before the lifecycle hooks (taint).
Not decided: semantics of arbitrary plugin programs; exactly-once under exceptions raised by
plugins themselves."""
import ast
from typing import Any, Dict, List, Optional, Tuple

from ..cfg import cfg_of
from ..flow import Sym, fpaths, attr_effects, allfacts
from ..model import FuncInfo, attr_chain, norm, walk_no_nested, AnalysisError
from ..report import Checker
from .common import must_attempt, shutdown_hook_check

CHAIN_HOOKS = ('before_upstream_connection', 'handle_client_request', 'handle_upstream_chunk', 'handle_client_data', 'on_access_log')
WIRE_ATTRS = ('method', 'path', 'version', 'code', 'reason', 'host')


def _hook_call(node: ast.AST, hooks: Tuple[str, ...]) -> Optional[ast.Call]:
    for c in walk_no_nested(node):
        if isinstance(c, ast.Call) and isinstance(c.func, ast.Attribute) and c.func.attr in hooks:
            return c
    return None


def run(ch: Checker) -> None:
    prog = ch.prog
    ch.rule('C09.1', 'order preservation: Plugins.load appends classes in the order of its argument (no sorted/reversed/set/insert(0)); HttpProxyPlugin.__init__ inserts instances in that order; '
                     'every loop over the plugins iterates self.plugins.values() directly', 8)
    ch.rule('C09.2', 'chain loops (before_upstream_connection, handle_client_request x2, handle_upstream_chunk, handle_client_data, on_access_log): the hook receives the carried value, '
                     'the carried value is reassigned from the hook result before the next iteration, and on None the loop is left before any further hook', 6)
    ch.rule('C09.2b', 'hand-over between chains: the request given to the handle_client_request chain (and whatever reads self.request later) is the LAST non-None value the '
                      'before_upstream_connection chain produced -- also when a later plugin of that chain returned None (two-iteration paths)', 1)
    ch.rule('C09.3', 'None suppresses: after before_upstream_connection returned None no path reaches connect_upstream; after handle_client_request returned None no path queues to upstream or client', 3)
    ch.rule('C09.3b', 'on_request_complete queues nothing to the client before both request chains have run: every self.client.queue(...) comes after the last before_upstream_connection / '
                      'handle_client_request call on its path (a plugin that rejects or answers itself decides alone what the client sees)', 1)
    ch.rule('C09.2c', 'read_from_descriptors: every chunk received from the upstream passes the handle_upstream_chunk chain before it is queued for the client -- the loop over the plugins lies on '
                      'every path from recv() to client.queue(), whatever kind of connection it is', 1)
    ch.rule('C09.4', 'HttpRequestRejected.response hands status_code, reason, headers, body to build_http_response unchanged with conn_close=True', 1)
    ch.rule('C09.5', 'lifecycle hooks are attempted on every path of the shutdown sequence, exception edges included: HttpProtocolHandler.shutdown -> plugin.on_client_connection_close (when a plugin exists); '
                     'HttpProxyPlugin.on_client_connection_close -> on_access_log chain and on_upstream_connection_close loop; HttpWebServerPlugin.on_client_connection_close -> route hooks', 4)
    ch.rule('C09.5b', 'a loop over the plugins that delivers a lifecycle callback (on_upstream_connection_close / on_client_connection_close) has no break / return: every plugin gets it exactly once', 1)
    ch.rule('C09.6', 'no strict (errors-less) text_()/decode() of request/response attributes filled from the wire on the path to the lifecycle hooks', 8)

    hp = prog.class_named('HttpProxyPlugin')

    # ---------------- C09.1
    load = prog.method('Plugins', 'load')
    bad_calls = []
    for c in walk_no_nested(load.node):
        if isinstance(c, ast.Call):
            fn = attr_chain(c.func) or ''
            if fn in ('sorted', 'reversed', 'set', 'frozenset') or fn.endswith('.sort') or fn.endswith('.reverse') or (fn.endswith('.insert')):
                bad_calls.append(norm(c)[:60])
        if isinstance(c, ast.Subscript) and isinstance(c.slice, ast.Slice) and c.slice.step is not None:
            bad_calls.append(norm(c)[:60])
    loops = [l for l in walk_no_nested(load.node) if isinstance(l, ast.For) and isinstance(l.iter, ast.Name) and l.iter.id == load.params[0]]
    appends = [c for l in loops for c in walk_no_nested(l) if isinstance(c, ast.Call) and isinstance(c.func, ast.Attribute) and c.func.attr == 'append']
    ch.check(not bad_calls and len(loops) == 1 and len(appends) == 1, 'C09.1', load, 'load order',
             'classes appended in argument order', 'Plugins.load does not keep the configured order: %s' % (bad_calls or 'no single in-order loop with one append'))
    rpf = prog.method('Plugins', 'resolve_plugin_flag')
    bad_calls = [norm(c)[:60] for c in walk_no_nested(rpf.node) if isinstance(c, ast.Call) and (attr_chain(c.func) or '') in ('sorted', 'reversed', 'set', 'frozenset')]
    ch.check(not bad_calls, 'C09.1', rpf, 'flag order', 'requested plugins keep the order given on the command line', 'resolve_plugin_flag reorders the requested plugins: %s' % bad_calls)
    init = hp.methods['__init__']
    ok_init = False
    def _configured_in_order(e: ast.AST, depth: int = 0) -> bool:
        """e denotes the configured list flags.plugins[<key>] itself, element by element and in its order"""
        while isinstance(e, ast.Call) and attr_chain(e.func) in ('list', 'tuple', 'iter') and len(e.args) == 1 and not e.keywords:
            e = e.args[0]
        if isinstance(e, ast.Subscript) and attr_chain(e.value) == 'self.flags.plugins' and not isinstance(e.slice, ast.Slice):
            return True
        if isinstance(e, ast.Call) and attr_chain(e.func) == 'self.flags.plugins.get' and 1 <= len(e.args) <= 2 and \
                (len(e.args) == 1 or (isinstance(e.args[1], (ast.List, ast.Tuple)) and not e.args[1].elts)):
            return True         # missing key = nothing configured = empty iteration
        if isinstance(e, ast.Name) and depth < 3:
            defs = [a for a in walk_no_nested(init.node) if isinstance(a, (ast.Assign, ast.AnnAssign)) and
                    any(isinstance(t, ast.Name) and t.id == e.id for t in (a.targets if isinstance(a, ast.Assign) else [a.target]))]
            return len(defs) == 1 and defs[0].value is not None and _configured_in_order(defs[0].value, depth + 1)
        return False

    for l in walk_no_nested(init.node):
        if isinstance(l, ast.For) and _configured_in_order(l.iter):
            for chn, kind, node in attr_effects(ast.Module(body=l.body, type_ignores=[])):
                if chn == 'self.plugins' and kind == 'item':
                    ok_init = True
    ch.check(ok_init, 'C09.1', init, 'instances', 'plugin instances inserted into self.plugins in configured order',
             'HttpProxyPlugin.__init__ does not insert the plugin instances in the order of flags.plugins[...] (iteration wrapped or reordered)')
    n_loops = 0
    for fn in hp.methods.values():
        for l in walk_no_nested(fn.node):
            if isinstance(l, (ast.For, ast.AsyncFor, ast.comprehension)) and any(attr_chain(n) == 'self.plugins' for n in ast.walk(l.iter)):
                n_loops += 1
                it = norm(l.iter)
                ch.check(it in ('self.plugins.values()', 'self.plugins.items()', 'self.plugins'), 'C09.1', fn, 'for %s in %s' % (norm(l.target), it),
                         'iterates the ordered plugin map directly', 'plugins are iterated through %s, which does not preserve the configured order or skips plugins' % it,
                         line=getattr(l, 'lineno', None))

    # ---------------- C09.2 / C09.3 chain loops
    n_chain = 0
    for fn in hp.methods.values():
        g = None
        for l in walk_no_nested(fn.node):
            if not isinstance(l, (ast.For, ast.AsyncFor)):
                continue
            hook = _hook_call(ast.Module(body=l.body, type_ignores=[]), CHAIN_HOOKS)
            if hook is None or not any(attr_chain(n) == 'self.plugins' for n in ast.walk(l.iter)):
                continue
            n_chain += 1
            g = cfg_of(fn, prog)
            loop_nodes = [n for n in g.nodes if n.kind == 'for' and n.ast is l]
            if not loop_nodes:
                continue
            problems: List[Tuple[str, List[str]]] = []
            n_paths = 0
            carried = norm(hook.args[0]) if hook.args else None
            for p in fpaths(g):
                ch.paths += 1
                sym = Sym(p)
                steps = p.steps
                its = [i for i, (nid, lab) in enumerate(steps) if g.nodes[nid].ast is l and lab == 'iter']
                for i in its:
                    # the hook call of this iteration
                    j = None
                    for k in range(i + 1, len(steps)):
                        nk = g.nodes[steps[k][0]]
                        if nk.ast is l:
                            break
                        if nk.kind in ('stmt', 'test') and nk.ast is not None and any(x is hook for x in walk_no_nested(nk.ast)):
                            j = k
                            break
                    if j is None:
                        if p.exit_kind == 'raise' and not any(g.nodes[steps[k][0]].ast is l for k in range(i + 1, len(steps))):
                            continue   # the iteration ended in an exception (failed assertion) before the hook
                        problems.append(('an iteration of the chain does not call %s (plugin skipped)' % hook.func.attr, p.describe(20)))  # type: ignore[attr-defined]
                        continue
                    if steps[j][1] == 'exc':
                        continue
                    n_paths += 1
                    # result variable
                    stj = g.nodes[steps[j][0]].ast
                    res_name = None
                    if isinstance(stj, ast.Assign) and len(stj.targets) == 1 and stj.value is hook or (isinstance(stj, ast.Assign) and isinstance(stj.value, ast.Await) and stj.value.value is hook):
                        res_name = norm(stj.targets[0])
                    # where does this iteration end?  next visit of the loop head, or exit
                    end = len(steps)
                    back = False
                    for k in range(j + 1, len(steps)):
                        if g.nodes[steps[k][0]].ast is l:
                            end = k
                            back = True
                            break
                    facts_after = {}
                    from ..cfg import atom_key
                    for k in range(j + 1, end):
                        nk = g.nodes[steps[k][0]]
                        if nk.kind == 'test' and steps[k][1] in (True, False):
                            a, pol = atom_key(nk.ast, steps[k][1])  # type: ignore[arg-type]
                            facts_after[a] = pol
                    none_fact = facts_after.get('%s is None' % res_name) if res_name else None
                    if res_name is None:
                        # result assigned straight into the carried value:  raw = plugin.hook(raw)
                        if isinstance(stj, ast.Assign) and norm(stj.targets[0]) == carried:
                            # then a None test on the carried value must leave the loop
                            none_fact = facts_after.get('%s is None' % carried)
                            if none_fact is True and back:
                                problems.append(('after %s returned None the chain continues with the next plugin' % hook.func.attr, p.describe(20)))  # type: ignore[attr-defined]
                            continue
                        problems.append(('the result of %s is not kept (statement `%s`)' % (hook.func.attr, norm(stj)[:60]), p.describe(20)))  # type: ignore[attr-defined]
                        continue
                    if none_fact is True:
                        if back:
                            problems.append(('after %s returned None the chain continues with the next plugin' % hook.func.attr, p.describe(20)))  # type: ignore[attr-defined]
                        # C09.3
                        rest = [g.nodes[nid] for nid, lab in steps[j + 1:]]
                        for r in rest:
                            if r.kind != 'stmt' or r.ast is None:
                                continue
                            for c in walk_no_nested(r.ast):
                                nm = attr_chain(c.func) if isinstance(c, ast.Call) else None
                                if hook.func.attr == 'before_upstream_connection' and nm == 'self.connect_upstream':  # type: ignore[attr-defined]
                                    problems.append(('C09.3: connect_upstream is reached although a plugin returned None from before_upstream_connection', p.describe(20)))
                                if hook.func.attr == 'handle_client_request' and nm in ('self.upstream.queue', 'self.client.queue'):  # type: ignore[attr-defined]
                                    problems.append(('C09.3: data is queued (%s) although a plugin returned None from handle_client_request' % nm, p.describe(20)))
                    elif none_fact is False or none_fact is None:
                        if back:
                            # carried value must be reassigned from the result before the next iteration
                            reassigned = res_name == carried
                            for k in range(j + 1, end):
                                nk = g.nodes[steps[k][0]]
                                if nk.kind == 'stmt' and isinstance(nk.ast, ast.Assign) and norm(nk.ast.targets[0]) == carried and norm(nk.ast.value) == res_name:
                                    reassigned = True
                            if not reassigned:
                                problems.append(('the value carried through the chain (%s) is not replaced by the result of %s before the next plugin runs: later plugins '
                                                 'do not see what earlier plugins returned' % (carried, hook.func.attr), p.describe(20)))  # type: ignore[attr-defined]
            # the hook argument must be the carried value itself, re-read every iteration (attribute or the reassigned local)
            key = 'chain %s in %s' % (hook.func.attr, fn.name)  # type: ignore[attr-defined]
            c3 = [x for x in problems if x[0].startswith('C09.3')]
            c2 = [x for x in problems if not x[0].startswith('C09.3')]
            ch.check(not c2 and n_paths > 0, 'C09.2', fn, key, 'chain passes %s and honours None on %d iteration path(s)' % (carried, n_paths),
                     c2[0][0] if c2 else 'no iteration path found', witness=c2[0][1] if c2 else None, line=l.lineno)
            if hook.func.attr in ('before_upstream_connection', 'handle_client_request'):  # type: ignore[attr-defined]
                ch.check(not c3, 'C09.3', fn, key, 'None from %s suppresses connect/forward' % hook.func.attr, c3[0][0] if c3 else '', witness=c3[0][1] if c3 else None, line=l.lineno)  # type: ignore[attr-defined]

    # ---------------- C09.2b hand-over between the two request chains of on_request_complete
    orc2 = prog.own_method('HttpProxyPlugin', 'on_request_complete')
    g2 = cfg_of(orc2, prog, exc_edges=False)
    bad2b = None
    n2b = 0
    for p in fpaths(g2, max_edge_visits=2, limit=200000):
        ch.paths += 1
        sym = Sym(p)
        seen_second = False
        last_good = None       # inlined text of the last before_upstream_connection call whose result was not None
        calls = []
        for i, nd, lab in p.executed():
            if nd.kind != 'stmt' or nd.ast is None:
                continue
            for c in walk_no_nested(nd.ast):
                if isinstance(c, ast.Call) and isinstance(c.func, ast.Attribute) and c.func.attr in ('before_upstream_connection', 'handle_client_request') and c.args:
                    calls.append((i, nd.ast, c))
        for (i, st, c) in calls:
            if c.func.attr == 'before_upstream_connection':   # type: ignore[attr-defined]
                res = norm(st.targets[0]) if isinstance(st, ast.Assign) and len(st.targets) == 1 else None
                # outcome of the None test on the result, between this call and the next visit of a hook / end
                nxt = min([j for (j, _, _) in calls if j > i] + [len(p.steps)])
                outcome = None
                for k in range(i + 1, nxt):
                    nk = g2.nodes[p.steps[k][0]]
                    if nk.kind == 'test' and p.steps[k][1] in (True, False) and res is not None:
                        from ..cfg import atom_key
                        a, pol = atom_key(nk.ast, p.steps[k][1])  # type: ignore[arg-type]
                        if a == '%s is None' % res:
                            outcome = pol
                            break
                if outcome is False:
                    last_good = norm(sym.value(c, i))
            else:
                if last_good is None or seen_second:
                    continue
                seen_second = True
                n2b += 1
                arg = c.args[0]
                if attr_chain(arg) and not isinstance(arg, ast.Name):
                    stv = sym.attr_store(attr_chain(arg), i)     # type: ignore[arg-type]
                    got = norm(stv[1]) if stv is not None else norm(arg) + ' (never updated on this path)'
                else:
                    got = norm(sym.value(arg, i))
                if got != last_good:
                    bad2b = ('handle_client_request receives %s, but the last value a before_upstream_connection plugin returned on this path is %s: when an earlier plugin rewrites the '
                             'request and a later one returns None (serve locally), the rewrite is lost for every hook that follows' % (got[:90], last_good[:90]), p.describe(26))
    ch.check(bad2b is None and n2b > 0, 'C09.2b', orc2, 'hand-over before_upstream_connection -> handle_client_request',
             'the second chain starts from the last non-None result of the first on all %d two-iteration path(s)' % n2b, bad2b[0] if bad2b else 'no path runs both chains', witness=bad2b[1] if bad2b else None)

    # ---------------- C09.3b no client output before the chains
    bad3b = None
    n3b = 0
    for p in fpaths(g2):
        ch.paths += 1
        qs = [i for i, st in p.stmts() for c in walk_no_nested(st) if isinstance(c, ast.Call) and attr_chain(c.func) == 'self.client.queue']
        hooks_i = [i for i, nd, lab in p.executed() if nd.ast is not None and nd.kind in ('stmt', 'test') for c in walk_no_nested(nd.ast)
                   if isinstance(c, ast.Call) and isinstance(c.func, ast.Attribute) and c.func.attr in ('before_upstream_connection', 'handle_client_request')]
        if not qs:
            continue
        n3b += 1
        if hooks_i and min(qs) < max(hooks_i):
            bad3b = ('something is queued to the client before a request hook runs (a plugin rejecting or serving the request from handle_client_request cannot take it back: the client sees '
                     'e.g. `200 Connection established` followed by the plugin\'s 403)', p.describe(24))
    ch.check(bad3b is None and n3b > 0, 'C09.3b', orc2, 'client output only after the chains', 'no client.queue() before the last hook call on %d path(s)' % n3b,
             bad3b[0] if bad3b else 'on_request_complete never queues to the client', witness=bad3b[1] if bad3b else None)

    # ---------------- C09.2c the upstream chunk chain runs for every chunk
    rfd = prog.own_method('HttpProxyPlugin', 'read_from_descriptors')
    g2c = cfg_of(rfd, prog, exc_edges=False)
    bad2c = None
    n2c = 0
    for p in fpaths(g2c):
        ch.paths += 1
        recv_i = [i for i, st in p.stmts() for c in walk_no_nested(st) if isinstance(c, ast.Call) and attr_chain(c.func) == 'self.upstream.recv']
        q_i = [i for i, st in p.stmts() for c in walk_no_nested(st) if isinstance(c, ast.Call) and attr_chain(c.func) == 'self.client.queue']
        if not recv_i or not q_i:
            continue
        n2c += 1
        loop_passed = False
        for i, (nid, lab) in enumerate(p.steps):
            nd = g2c.nodes[nid]
            if recv_i[0] < i < q_i[0] and nd.kind == 'for' and any((attr_chain(x) or '').endswith('plugins') for x in ast.walk(nd.ast.iter)) \
                    and _hook_call(ast.Module(body=nd.ast.body, type_ignores=[]), ('handle_upstream_chunk',)) is not None:   # type: ignore[union-attr]
                loop_passed = True
        if not loop_passed:
            bad2c = ('a chunk received from the upstream is queued for the client without having been offered to the plugins\' handle_upstream_chunk hooks: on such connections no plugin '
                     'sees (or can withhold) upstream data', p.describe(24))
    ch.check(bad2c is None and n2c > 0, 'C09.2c', rfd, 'chunk chain on every data path', 'the plugin loop lies between recv() and client.queue() on all %d path(s)' % n2c,
             bad2c[0] if bad2c else 'no relaying path found', witness=bad2c[1] if bad2c else None)

    # ---------------- C09.4b (shared)
    ch.rule('C09.11', 'the access-log formats consist of plain {name} fields (no format specification, no indexing; the proxy formats name keys of the log context only): formatting the line cannot raise, so the on_upstream_connection_close hooks that follow it run for every connection', 4)
    ch.rule('C09.10', 'a plugin\'s rejection is answered on every request of the connection: in HttpProtocolHandler.handle_data the calls that can raise a rejection -- the first-request path and plugin.on_client_data for every later '
                      'request -- both sit inside the try whose HttpProtocolException handler queues e.response(); outside it a later request\'s rejection is a bare teardown without the plugin\'s response', 2)
    hd10 = prog.own_method('HttpProtocolHandler', 'handle_data')
    from ..flow import enclosing_handlers
    n10 = 0
    for c10 in walk_no_nested(hd10.node):
        if isinstance(c10, ast.Call) and attr_chain(c10.func) in ('self.plugin.on_client_data', 'self._parse_first_request'):
            n10 += 1
            ok10 = False
            for t10, in_body in enclosing_handlers(hd10.node, c10):
                if not in_body:
                    continue
                for h10 in t10.handlers:
                    names10 = [norm(x) for x in (h10.type.elts if isinstance(h10.type, ast.Tuple) else [h10.type])] if h10.type is not None else []
                    queues = any(isinstance(x, ast.Call) and isinstance(x.func, ast.Attribute) and x.func.attr == 'response' for s_ in h10.body for x in ast.walk(s_)) and \
                        any(isinstance(x, ast.Call) and (attr_chain(x.func) or '').endswith('.queue') for s_ in h10.body for x in ast.walk(s_))
                    if any(nm.split('.')[-1] == 'HttpProtocolException' for nm in names10) and queues:
                        ok10 = True
            ch.check(ok10, 'C09.10', hd10, c10, 'inside the try whose handler sends the rejection response',
                     '%s is called outside the try/except HttpProtocolException of handle_data: when a plugin rejects this request (HttpRequestRejected with a response) the exception escapes, the connection is torn down '
                     'by the generic error path and the client sees end-of-stream instead of the plugin\'s response' % norm(c10.func))
    if n10 < 2:
        raise AnalysisError('anchor vanished: handle_data no longer calls both _parse_first_request and plugin.on_client_data')
    ch.import_rules('C10', {'C10.4': 'C09.9'}, 'the close hooks of the plugins run only if nothing that can raise precedes them in on_client_connection_close')
    ch.import_rules('C06', {'C06.1': 'C09.4b'}, 'exactly the plugin\'s chosen response is sent only if the builder frames the body it is given (Content-Length of this body, not a value left in a reused header map)')

    # ---------------- C09.1b (shared)
    ch.import_rules('C08', {'C08.2': 'C09.1b'}, 'the authentication plugin runs ahead of user plugins only if it is loaded ahead of them')
    ch.import_rules('C04', {'C04.4': 'C09.7'}, 'the follow-up plugin chain sees each later request once only if a request a plugin dropped does not leave its parser behind for the next one')
    ch.import_rules('C10', {'C10.10': 'C09.8'}, 'the lifecycle hooks fire for a rejected or failed first request only if shutdown() can find the plugin object that was running')

    # ---------------- C09.4
    rej = prog.class_named('HttpRequestRejected')
    rf = rej.methods.get('response')
    if rf is None:
        ch.bad('C09.4', None, 'HttpRequestRejected.response', 'response() missing', module_rel=rej.module.relpath)
    else:
        calls = [c for c in walk_no_nested(rf.node) if isinstance(c, ast.Call) and (attr_chain(c.func) or '').endswith('build_http_response')]
        ok4 = False
        detail = 'no build_http_response call'
        if calls:
            c = calls[0]
            kw = {k.arg: norm(k.value) for k in c.keywords}
            pos = [norm(a) for a in c.args]
            status = kw.get('status_code', pos[0] if pos else None)
            ok4 = status == 'self.status_code' and kw.get('reason') == 'self.reason' and kw.get('headers') == 'self.headers' \
                and kw.get('body') == 'self.body' and kw.get('conn_close') == 'True'
            detail = 'build_http_response(%s)' % ', '.join(pos + ['%s=%s' % kv for kv in kw.items()])
        ch.check(ok4, 'C09.4', rf, 'build_http_response(...)', 'status/reason/headers/body passed through unchanged, conn_close=True',
                 'the rejection response is not exactly what the plugin chose, or the connection is not closed: %s' % detail)

    # ---------------- C09.5
    shutdown_hook_check(ch, 'C09.5')
    occ = prog.own_method('HttpProxyPlugin', 'on_client_connection_close')
    gocc = cfg_of(occ, prog, exc_edges=False)
    for hookname in ('on_access_log', 'on_upstream_connection_close'):
        missing = None
        npaths = 0
        for p in fpaths(gocc, limit=100000):
            if p.exit_kind != 'return':
                continue
            npaths += 1
            loops_seen = [g2 for nid, lab in p.steps for g2 in [gocc.nodes[nid]] if g2.kind == 'for' and _hook_call(ast.Module(body=g2.ast.body, type_ignores=[]), (hookname,)) is not None]  # type: ignore[union-attr]
            if not loops_seen:
                missing = p.describe(20)
                break
        ch.check(missing is None and npaths > 0, 'C09.5', occ, '%s loop' % hookname, 'the %s loop is passed on every normal path (%d)' % (hookname, npaths),
                 'a normal path of on_client_connection_close returns without running the %s hooks' % hookname, witness=missing)
    wocc = prog.own_method('HttpWebServerPlugin', 'on_client_connection_close')
    gw = cfg_of(wocc, prog, exc_edges=False)
    missing = None
    npaths = 0
    for p in fpaths(gw):
        if p.exit_kind != 'return' or allfacts(p).get('self.route') is not True:
            continue
        npaths += 1
        called = [attr_chain(c.func) for i, st in p.stmts() for c in walk_no_nested(st) if isinstance(c, ast.Call)]
        if 'self.route.on_client_connection_close' not in called or 'self.route.on_access_log' not in called:
            missing = p.describe()
    ch.check(missing is None and npaths > 0, 'C09.5', wocc, 'route hooks', 'route.on_client_connection_close and route.on_access_log run on every path with a route',
             'the web server skips the route\'s close / access-log hook on a normal path', witness=missing)

    # ---------------- C09.5b the loops that deliver lifecycle callbacks reach every plugin
    LIFECYCLE = ('on_upstream_connection_close', 'on_client_connection_close')
    n5b = 0
    for cls_name in ('HttpProxyPlugin', 'HttpProtocolHandler', 'HttpWebServerPlugin'):
        ci5 = prog.class_named(cls_name)
        for fn in ci5.methods.values():
            for l in walk_no_nested(fn.node):
                if not isinstance(l, (ast.For, ast.AsyncFor)) or not any((attr_chain(n_) or '').endswith('plugins') for n_ in ast.walk(l.iter)):
                    continue
                hk = _hook_call(ast.Module(body=l.body, type_ignores=[]), LIFECYCLE)
                if hk is None:
                    continue
                n5b += 1
                leaves = []
                for x in walk_no_nested(l):
                    if isinstance(x, (ast.Return, ast.Break)):
                        inner = [y for y in walk_no_nested(l) if isinstance(y, (ast.For, ast.AsyncFor, ast.While)) and y is not l and any(z is x for z in ast.walk(y))]
                        if isinstance(x, ast.Break) and inner:
                            continue
                        leaves.append(x)
                ch.check(not leaves, 'C09.5b', fn, 'for %s in %s: %s' % (norm(l.target), norm(l.iter), hk.func.attr),   # type: ignore[attr-defined]
                         'the loop delivering %s runs over every plugin' % hk.func.attr,   # type: ignore[attr-defined]
                         'the loop that delivers %s can be left early (%s at line %s): plugins configured after that point never get the callback and keep what they hold for the connection'
                         % (hk.func.attr, type(leaves[0]).__name__.lower() if leaves else '', leaves[0].lineno if leaves else ''), line=l.lineno)   # type: ignore[attr-defined]

    # ---------------- C09.6 strict decode of wire bytes before the hooks
    n6 = 0
    for fn in (occ, prog.own_method('HttpWebServerPlugin', '_context')):
        for c in walk_no_nested(fn.node):
            if isinstance(c, ast.Call) and (attr_chain(c.func) == 'text_' or (isinstance(c.func, ast.Attribute) and c.func.attr == 'decode')):
                arg = c.args[0] if c.args and attr_chain(c.func) == 'text_' else (c.func.value if isinstance(c.func, ast.Attribute) else None)
                if arg is None:
                    continue
                wire = None
                for n_ in ast.walk(arg):
                    chn = attr_chain(n_) if isinstance(n_, ast.Attribute) else None
                    if chn and chn.split('.')[-1] in WIRE_ATTRS and ('.request.' in chn or '.response.' in chn):
                        wire = chn
                    if isinstance(n_, ast.Call) and isinstance(n_.func, ast.Attribute) and n_.func.attr == 'header' and ('request' in norm(n_.func.value) or 'response' in norm(n_.func.value)):
                        wire = norm(n_)
                if wire is None:
                    continue
                n6 += 1
                lenient = any(k.arg == 'errors' and isinstance(k.value, ast.Constant) and k.value.value != 'strict' for k in c.keywords) or \
                    (len(c.args) >= 3 and attr_chain(c.func) == 'text_')
                ch.check(lenient, 'C09.6', fn, c, 'lenient decode of %s' % wire,
                         '%s holds bytes taken from the wire and is decoded strictly on the connection-close path: a non-UTF-8 value raises UnicodeDecodeError before the '
                         'access-log / connection-close hooks run, so they never fire for that connection' % wire)

    # ---------------- C09.11 formatting the access line cannot raise between the on_access_log chain and the close hooks
    import string
    from ..consteval import ConstEval
    ce11 = ConstEval(prog)
    cm11 = prog.modules.get('proxy.common.constants')
    if cm11 is None:
        raise AnalysisError('anchor vanished: proxy.common.constants')
    occ = prog.own_method('HttpProxyPlugin', 'on_client_connection_close')
    ctx_keys = set()
    for d_ in walk_no_nested(occ.node):
        if isinstance(d_, ast.Dict) and any(isinstance(k_, ast.Constant) and k_.value == 'client_ip' for k_ in d_.keys):
            ctx_keys = {k_.value for k_ in d_.keys if isinstance(k_, ast.Constant)}
    n11 = 0
    for st_ in cm11.tree.body:
        if isinstance(st_, ast.Assign) and len(st_.targets) == 1 and isinstance(st_.targets[0], ast.Name) and st_.targets[0].id.endswith('ACCESS_LOG_FORMAT'):
            nm_ = st_.targets[0].id
            val = ce11.try_eval(cm11, st_.value)
            if not isinstance(val, str):
                ch.skip('C09.11', None, nm_, 'the format is not a constant string', module_rel=cm11.relpath)
                continue
            n11 += 1
            try:
                fields = [(f_, spec, conv) for _, f_, spec, conv in string.Formatter().parse(val) if f_ is not None]
                problem = None
            except ValueError as e_:
                fields, problem = [], 'the format string is malformed (%s)' % e_
            for f_, spec, conv in fields:
                if spec:
                    problem = 'field {%s:%s} carries a format specification: entries of the log context are None whenever the exchange ended before that value existed (no response parsed, no upstream), and ' \
                              'format(None, %r) raises TypeError' % (f_, spec, spec)
                elif not f_.isidentifier():
                    problem = 'field {%s} indexes into a context entry, which raises when that entry is None' % f_
                elif 'PROXY' in nm_ and 'REVERSE' not in nm_ and ctx_keys and f_ not in ctx_keys:
                    problem = 'field {%s} is not a key of the context built by on_client_connection_close (KeyError)' % f_
            ch.check(problem is None, 'C09.11', None, nm_, 'plain {name} fields only (%d field(s)): formatting cannot raise whatever the values are' % len(fields),
                     '%s: %s -- the exception leaves on_client_connection_close after the on_access_log chain and before the on_upstream_connection_close hooks, which then never run for that connection '
                     '(and the upstream socket is not closed there)' % (nm_, problem), module_rel=cm11.relpath, line=st_.lineno)
    if n11 < 4:
        raise AnalysisError('anchor vanished: fewer than four *_ACCESS_LOG_FORMAT constants in proxy.common.constants')
    from .common import plugin_load_check
    ch.rule('C09.12', 'Plugins.load keeps every class the importer returns (in the order given) unless that very class object is already listed: membership of the class, never a comparison of class names -- otherwise a configured plugin and its hooks silently vanish', 1)
    plugin_load_check(ch, 'C09.12')

