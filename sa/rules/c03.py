"""C03 -- incremental HTTP parsing does not depend on how input is segmented.

The property itself (same final state for every cut) is value-level and NOT decided.
Decided are the structural preconditions every segmentation-independent incremental
parser needs:
  C03.1 carry-in: bytes left over from the previous call are put in front of the new
        bytes before any sub-automaton sees them, and the dispatch loop always runs;
  C03.2 carry-out: every normal exit stores the final remainder (None only for an empty
        remainder); the line/header automata return their input unchanged when no
        terminator was found;
  C03.3 complementary split points: consumed prefix x[:e] and remainder x[e:] use the same e;
        the amount taken for the current chunk/body is bounded by what is still missing
        and is ADDED to what is already held;
  C03.4 no unchecked fixed-width skip: a constant number of bytes is dropped from the
        current piece only under a test that they are present, and a chunk is not completed
        without its CRLF having been consumed or the shortfall recorded in parser state;
  C03.5 automaton dispatch covers every state with the right sub-automaton."""
import ast
from typing import Any, Dict, List, Optional, Tuple

from ..cfg import cfg_of
from ..consteval import ConstEval
from ..flow import Sym, fpaths, attr_effects, allfacts
from ..model import FuncInfo, attr_chain, norm, walk_no_nested, AnalysisError
from ..report import Checker


def chunk_decoder_checks(ch: Checker, r_carry: str, r_split: str, r_skip: str) -> None:
    prog = ch.prog
    ce = ConstEval(prog)
    proc = prog.own_method('ChunkParser', 'process')
    m = proc.module
    g = cfg_of(proc, prog, exc_edges=False)
    raw = proc.params[1]
    W_SIZE, W_DATA = 'self.state == chunkParserStates.WAITING_FOR_SIZE', 'self.state == chunkParserStates.WAITING_FOR_DATA'
    bad_carry = bad_split = None
    n_size = n_data = 0
    skip_sites: Dict[Any, Tuple[ast.AST, bool, List[str], str]] = {}
    skip_hits: List[Tuple[ast.AST, bool, List[str], str, int]] = []
    complete_bad = None
    for p in fpaths(g):
        ch.paths += 1
        if p.exit_kind != 'return':
            continue
        sym = Sym(p)
        f = allfacts(p)
        # fixed-width skips of the piece, in whatever state they happen
        state_lab = 'WAITING_FOR_SIZE' if f.get(W_SIZE) is True else 'WAITING_FOR_DATA' if f.get(W_DATA) is True else 'other state'
        for j, st in p.stmts():
            if isinstance(st, ast.Assign) and isinstance(st.targets[0], ast.Name) and isinstance(st.value, ast.Subscript) and isinstance(st.value.slice, ast.Slice) \
                    and norm(st.value.value) == norm(st.targets[0]) and st.value.slice.upper is None and st.value.slice.lower is not None:
                k = ce.try_eval(m, st.value.slice.lower)
                if isinstance(k, int) and k > 0:
                    X = norm(st.targets[0])
                    facts = allfacts(p, j)
                    present = any(v is True and kf.replace(' ', '') in ('%s.startswith(CRLF)' % X, 'len(%s)>=%d' % (X, k), 'len(%s)>=len(CRLF)' % X, '%s[:%d]==CRLF' % (X, k), '%s[:len(CRLF)]==CRLF' % X)
                                  for kf, v in facts.items())
                    skip_hits.append((st, present, p.describe(20), state_lab, id(p)))
                    prev = skip_sites.get((id(st), state_lab))
                    skip_sites[(id(st), state_lab)] = (st, (prev[1] if prev else True) and present, p.describe(20), state_lab)
        if f.get(W_SIZE) is True:
            n_size += 1
            # carry-in: the line finder sees self.chunk + raw
            calls = [(i, c) for i, st in p.stmts() for c in walk_no_nested(st) if isinstance(c, ast.Call) and attr_chain(c.func) == 'find_http_line']
            if len(calls) != 1 or norm(sym.value(calls[0][1].args[0], calls[0][0])).replace(' ', '') != ('self.chunk+%s' % raw):
                bad_carry = ('the size line is searched in %s, not in <held partial line> + <new bytes>' % ([norm(sym.value(c.args[0], i))[:50] for i, c in calls]), p.describe())
            # carry-out when no complete size line: the unconsumed bytes are kept in self.chunk
            stores = [(i, st) for i, st in p.stmts() if isinstance(st, ast.Assign) and attr_chain(st.targets[0]) == 'self.chunk']
            none_line = any(k.startswith('line is None') or 'line is None' in k for k, v in f.items() if v is True) or any(k.endswith("strip() == b''") and v is True for k, v in f.items())
            if none_line:
                last = stores[-1] if stores else None
                if last is None or 'find_http_line(self.chunk + %s)[1]' % raw not in norm(sym.value(last[1].value, last[0])):
                    bad_carry = ('with no complete size line the unconsumed bytes are not kept in self.chunk for the next call', p.describe())
        elif f.get(W_DATA) is True:
            n_data += 1
            # consumed / remainder slices of the piece
            takes = []
            for i, n_, lab in p.executed():
                st = n_.ast
                if n_.kind != 'stmt':
                    continue
                for chn, kind, node in attr_effects(st):
                    if chn == 'self.chunk' and kind in ('augstore', 'store'):
                        val = node.value if not isinstance(node.value, ast.Tuple) else node.value  # type: ignore[attr-defined]
                        # tuple assignment `self.chunk, raw = a, b`
                        if isinstance(node, ast.Assign) and isinstance(node.targets[0], ast.Tuple) and isinstance(node.value, ast.Tuple):
                            for te, ve in zip(node.targets[0].elts, node.value.elts):
                                if attr_chain(te) == 'self.chunk':
                                    val = ve
                        v = sym.value(val, i)
                        if norm(v) == "b''":
                            continue
                        takes.append((i, kind, v, node))
            data_takes = [t for t in takes if isinstance(t[2], ast.Subscript) and isinstance(t[2].slice, ast.Slice)]
            if len(data_takes) != 1:
                bad_split = ('chunk data is taken from the piece %d times on one path' % len(data_takes), p.describe())
                continue
            i, kind, v, node = data_takes[0]
            up = v.slice.upper  # type: ignore[attr-defined]
            upt = norm(up).replace(' ', '') if up is not None else ''
            if kind != 'augstore':
                bad_split = ('the bytes taken for the current chunk REPLACE what an earlier piece already delivered (%s): a chunk whose data arrives in two pieces loses its first part'
                             % norm(node)[:70], p.describe(20))
            elif upt != 'self.size-len(self.chunk)' or v.slice.lower is not None:  # type: ignore[attr-defined]
                bad_split = ('the amount taken for the current chunk is %s, not what is still missing (self.size - len(self.chunk))' % (norm(up) if up is not None else 'unbounded'), p.describe(20))
            # remainder: the piece (the parameter, or a local alias of it) is advanced right after, by the same bound
            def _root(e: ast.AST) -> ast.AST:
                while isinstance(e, ast.Subscript) and isinstance(e.slice, ast.Slice):
                    e = e.value
                return e
            rem = None
            for j, st in p.stmts():
                if j <= i:
                    continue
                tg = None
                if isinstance(st, ast.Assign):
                    pairs = [(st.targets[0], st.value)]
                    if isinstance(st.targets[0], ast.Tuple) and isinstance(st.value, ast.Tuple) and len(st.targets[0].elts) == len(st.value.elts):
                        pairs = list(zip(st.targets[0].elts, st.value.elts))
                    for te, ve in pairs:
                        if isinstance(te, ast.Name) and isinstance(ve, ast.Subscript) and isinstance(ve.slice, ast.Slice):
                            r0 = _root(sym.value(ve.value, j))
                            if isinstance(r0, ast.Name) and r0.id == raw:
                                # peel what the piece already was before this statement: only this statement's own slice counts
                                tg = ast.Subscript(value=ast.Name(id=raw, ctx=ast.Load()), slice=sym.value(ve.slice, j), ctx=ast.Load())
                if tg is not None:
                    rem = (j, tg)
                    break
            if rem is None:
                bad_split = ('after taking chunk data the piece is not advanced', p.describe(20))
            else:
                rv = rem[1]
                lo = rv.slice.lower if isinstance(rv, ast.Subscript) and isinstance(rv.slice, ast.Slice) else None
                if lo is None or norm(lo).replace(' ', '') != upt or rv.slice.upper is not None:  # type: ignore[union-attr]
                    bad_split = ('consumed prefix ends at %s but the remainder starts at %s: bytes are dropped or duplicated at the split point' % (norm(up) if up is not None else '?', norm(lo) if lo is not None else '?'), p.describe(20))
            # C03.4: chunk completion and the CRLF after the data
            completed = f.get('len(self.chunk) == self.size') is True
            if completed:
                skipped = any(ok_ for (stx, ok_, w_, lab_, pid) in skip_hits if pid == id(p))
                if not skipped:
                    # shortfall recorded?  any store to a parser field other than the usual ones
                    recorded = any(chn.startswith('self.') and chn not in ('self.chunk', 'self.body', 'self.state', 'self.size') for j, st in p.stmts() for chn, kind, node in attr_effects(st))
                    unguarded_skip = any(not h[1] for h in skip_hits if h[4] == id(p))
                    if not recorded and not unguarded_skip:
                        complete_bad = ('a chunk is completed (state advances) on a path where the CRLF that follows its data was neither consumed nor remembered as still owed: '
                                        'when the piece ends between the data and its CRLF (or inside it), the leftover CR/LF is later read as an empty size line and the rest of the body is parked', p.describe(22))
    ch.check(bad_carry is None and n_size > 0, r_carry, proc, 'chunk size line carry', 'size line searched in held+new bytes; unconsumed bytes kept (%d path(s))' % n_size,
             bad_carry[0] if bad_carry else 'no WAITING_FOR_SIZE path', witness=bad_carry[1] if bad_carry else None)
    ch.check(bad_split is None and n_data > 0, r_split, proc, 'chunk data split', 'chunk data: += piece[:missing], piece = piece[missing:] (%d path(s))' % n_data,
             bad_split[0] if bad_split else 'no WAITING_FOR_DATA path', witness=bad_split[1] if bad_split else None)
    for st, ok, wit, lab_ in skip_sites.values():
        ch.check(ok, r_skip, proc, '%s [in %s]' % (norm(st), lab_), 'fixed-width skip guarded by a presence test',
                 'a fixed number of bytes is dropped from the current piece without checking that they are there: when the piece ends right after the chunk data the CRLF arrives '
                 'with the next piece and is then read as an empty size line (decoder stalls); trailer lines after the last chunk are mangled the same way', witness=wit, line=st.lineno)
    if complete_bad:
        ch.bad(r_skip, proc, 'chunk completed without its CRLF', complete_bad[0], witness=complete_bad[1])
    if not skip_sites and not complete_bad:
        ch.ok(r_skip, proc, 'chunk CRLF', 'no fixed-width skip; CRLF handling recorded in state')


def run(ch: Checker) -> None:
    prog = ch.prog
    ce = ConstEval(prog)
    ch.rule('C03.8', 'a line ends at CRLF and nowhere else: find_http_line (used for chunk-size lines) and the start-line / header splitters search for the two-byte CRLF; '
                     'a bare LF (or CR stripping) makes the result depend on whether CR and LF arrived in the same piece', 2)
    ch.rule('C03.1', 'carry-in: HttpParser.parse hands <leftover> + <new bytes> (in that order) to the sub-automata whenever a leftover exists, and has no exit that skips the dispatch loop; '
                     'ChunkParser searches the size line in <held> + <new>', 2)
    ch.rule('C03.2', 'carry-out: every normal exit of HttpParser.parse stores the final remainder in self.buffer (None only when it is empty); _process_line/_process_headers return their '
                     'input unchanged when no CRLF was found', 3)
    ch.rule('C03.3', 'complementary split points: _process_body takes raw[:missing] and returns raw[missing:] with the same `missing` bounded by Content-Length minus what is held; '
                     'ChunkParser adds piece[:missing] to the held chunk and continues with piece[missing:]', 2)
    ch.rule('C03.9', 'a call of _process_line / _process_headers that finds no CRLF consumes nothing and records nothing: the path that returns the input unconsumed does not store into the parser (its bytes are delivered again with the next piece)', 2)
    ch.rule('C03.4', 'no unchecked fixed-width skip in the chunk decoder; a chunk is not completed without its CRLF consumed or the shortfall recorded', 1)
    ch.rule('C03.6', 'completion typestate: HttpParser enters COMPLETE only (a) when the chunk decoder is COMPLETE, (b) when len(body) reached Content-Length, (c) from HEADERS_COMPLETE with no input left '
                     'and NO body announced (neither Content-Length > 0 nor chunked), (d) for a bare response line followed by CRLF', 3)
    ch.rule('C03.7', 'the parsers test their optional sub-objects (self.chunk, self._url, ...) for presence by truthiness; that is sound only while those classes define neither __len__ nor __bool__ '
                     '(a chunk decoder that is "empty" mid-chunk must not be replaced by a fresh one: the carried-over size line / partial data would be dropped)', 1)
    ch.rule('C03.5', 'dispatch: INITIALIZED -> _process_line, LINE_RCVD/RCVING_HEADERS -> _process_headers, HEADERS_COMPLETE/RCVING_BODY -> _process_body; chunk states WAITING_FOR_SIZE/WAITING_FOR_DATA both handled', 2)

    parse = prog.own_method('HttpParser', 'parse')
    m = parse.module
    g = cfg_of(parse, prog, exc_edges=False)
    raw = parse.params[1]
    # ---------------- C03.1 / C03.2 on parse
    explicit_returns = [s for s in walk_no_nested(parse.node) if isinstance(s, ast.Return)]
    # the dispatch loop = the `while` around the self._process_* calls; its test atoms (whatever the flag is called)
    dloops = [w for w in walk_no_nested(parse.node) if isinstance(w, ast.While) and
              any(isinstance(c, ast.Call) and (attr_chain(c.func) or '').startswith('self._process_') for c in ast.walk(w))]
    if not dloops:
        raise AnalysisError('anchor vanished: HttpParser.parse has no dispatch loop around self._process_* calls')
    loop_test_nodes = {id(x) for x in ast.walk(dloops[0].test)}
    bad1 = bad2 = None
    n = 0
    for p in fpaths(g):
        ch.paths += 1
        if p.exit_kind != 'return':
            continue
        n += 1
        sym = Sym(p)
        f = list(allfacts(p).items())
        had_buffer = ('self.buffer', True) in f[:2] or (f and f[0] == ('self.buffer', True))
        calls = [(i, c) for i, st in p.stmts() for c in walk_no_nested(st) if isinstance(c, ast.Call) and (attr_chain(c.func) or '').startswith('self._process_')]
        loop_tested = any(g.nodes[nid].kind == 'test' and id(g.nodes[nid].ast) in loop_test_nodes for nid, lab in p.steps)
        if not loop_tested:
            bad1 = ('parse() has an exit that never evaluates the dispatch loop: bytes that complete a line or a message together with the held leftover are never looked at '
                    '(e.g. the CR of a CRLF held back, the LF arriving alone)', p.describe(20))
        if had_buffer and calls:
            a = norm(sym.value(calls[0][1].args[0], calls[0][0])).replace(' ', '')
            if 'self.buffer.tobytes()+%s.tobytes()' % raw not in a:
                bad1 = ('with a leftover from the previous call the sub-automaton is given %s, not leftover + new bytes' % a[:70], p.describe(20))
        # carry-out: last statement stores self.buffer
        last = p.stmts()[-1]
        st = last[1]
        if not (isinstance(st, ast.Assign) and attr_chain(st.targets[0]) == 'self.buffer'):
            bad2 = ('parse() can return without storing the unconsumed remainder in self.buffer (last statement: %s)' % norm(st)[:60], p.describe(20))
        else:
            v = norm(sym.value(st.value, last[0]))
            fd = allfacts(p)
            empty_fact = [val for k, val in fd.items() if k.endswith("== b''") and raw in k or k.replace(' ', '') in ("%s==b''" % raw,)]
            if v == 'None':
                if not any(val is True for val in empty_fact):
                    bad2 = ('the remainder is discarded (self.buffer = None) although it was not tested to be empty', p.describe(20))
            else:
                # must be the current remainder: result [1] of the last sub-automaton call, or the concatenation
                okv = '[1]' in v or 'self.buffer.tobytes()' in v or v == raw
                if calls:
                    lastcall = norm(sym.value(calls[-1][1], calls[-1][0]))
                    okv = okv and (lastcall[:40] in v)
                if not okv:
                    bad2 = ('self.buffer is set to %s, which is not the remainder returned by the last sub-automaton' % v[:80], p.describe(20))
    if explicit_returns:
        bad1 = bad1 or ('parse() contains an early `return` (line %d): that exit bypasses the dispatch loop and the carry-out' % explicit_returns[0].lineno, [])
    ch.check(bad1 is None and n > 0, 'C03.1', parse, 'carry-in + dispatch', 'leftover + new bytes reach the automata; the dispatch loop is evaluated on all %d path(s)' % n,
             bad1[0] if bad1 else 'no path', witness=bad1[1] if bad1 else None)
    ch.check(bad2 is None and n > 0, 'C03.2', parse, 'carry-out', 'final remainder stored on every exit', bad2[0] if bad2 else 'no path', witness=bad2[1] if bad2 else None)
    n9: Dict[str, int] = {}
    bad9: Dict[str, Tuple[str, List[str]]] = {}
    for name in ('_process_line', '_process_headers'):
        fn = prog.own_method('HttpParser', name)
        gg = cfg_of(fn, prog, exc_edges=False)
        rp = fn.params[1]
        okc = False
        badc = None
        for p in fpaths(gg):
            if p.exit_kind != 'return':
                continue
            fd = allfacts(p)
            def _no_crlf(k: str, v: bool) -> bool:
                k = k.replace(' ', '')
                if 'CRLF' not in k:
                    return False
                if k.startswith('len(') and '.split(CRLF,1))==' in k:
                    return (k.endswith('==1') and v is True) or (k.endswith('==2') and v is False)
                if k.endswith('.find(CRLF)==-1'):
                    return v is True
                if k.startswith('CRLFin'):
                    return v is False
                return False
            if any(_no_crlf(k, v) for k, v in fd.items()):
                # C03.9: a call that found no terminator consumed nothing -- the same bytes come back with the next piece -- so it must not have recorded anything either
                rebinds = any(isinstance(t_, ast.Name) and t_.id == rp for i_, st_ in p.stmts() if isinstance(st_, (ast.Assign, ast.AugAssign, ast.AnnAssign))
                              for tg_ in (st_.targets if isinstance(st_, ast.Assign) else [st_.target]) for t_ in ast.walk(tg_))
                if not rebinds:
                    n9[name] = n9.get(name, 0) + 1
                    for i_, st_ in p.stmts():
                        for chn, kind, node_ in attr_effects(st_):
                            if chn.startswith('self.') and (kind in ('store', 'augstore', 'augitem', 'item', 'del', 'delitem') or kind.startswith('call:')):
                                bad9[name] = ('%s changes %s (%s) on the path that finds no CRLF and returns its input unconsumed: those bytes are handed in again together with the next piece, '
                                              'so whatever is recorded here is recorded once per delivery, not once per message -- the parser\'s state then depends on how the stream was cut' % (name, chn, norm(st_)[:60]), p.describe())
                # first loop iteration without CRLF: must return (False, <input unchanged>)
                sym = Sym(p)
                last = p.stmts()[-1]
                rv_ = sym.value(last[1].value, last[0]) if isinstance(last[1], ast.Return) and last[1].value is not None else None    # by value: a named result is read through
                if isinstance(rv_, ast.Tuple) and len(rv_.elts) == 2:
                    v0, v1 = rv_.elts
                    t1 = norm(v1)
                    if norm(v0) == 'False' and (t1 == rp or 'memoryview(' in t1):
                        okc = True
                    else:
                        badc = ('with no CRLF in the input %s returns (%s, %s) instead of (False, <input unchanged>)' % (name, norm(v0), t1[:50]), p.describe())
        ch.check(okc and badc is None, 'C03.2', fn, 'no terminator', 'input returned unchanged when no CRLF was found', badc[0] if badc else 'no such path found', witness=badc[1] if badc else None)
        ch.check(name not in bad9 and n9.get(name, 0) > 0, 'C03.9', fn, 'nothing recorded without a terminator', 'the unconsumed-input path changes no parser state (%d path(s))' % n9.get(name, 0),
                 bad9[name][0] if name in bad9 else 'no unconsumed-input path found', witness=bad9[name][1] if name in bad9 else None)

    # ---------------- C03.3 _process_body
    pb = prog.own_method('HttpParser', '_process_body')
    gb = cfg_of(pb, prog, exc_edges=False)
    rb = pb.params[1]
    bad3 = None
    n3 = 0
    for p in fpaths(gb):
        if p.exit_kind != 'return':
            continue
        fd = allfacts(p)
        if fd.get('self._is_chunked_encoded') is not False or fd.get('self._content_expected') is not True:
            continue
        n3 += 1
        sym = Sym(p)
        take = None
        for i, st in p.stmts():
            if isinstance(st, ast.AugAssign) and attr_chain(st.target) == 'self.body' and isinstance(st.op, ast.Add):
                take = sym.value(st.value, i)
        last = p.stmts()[-1]
        retv = sym.value(last[1].value, last[0]) if isinstance(last[1], ast.Return) and last[1].value is not None else None
        rem = retv.elts[1] if isinstance(retv, ast.Tuple) and len(retv.elts) == 2 else None
        if take is None or not (isinstance(take, ast.Subscript) and isinstance(take.slice, ast.Slice) and take.slice.lower is None and take.slice.upper is not None):
            bad3 = ('body bytes are not taken as a bounded prefix of the piece (%s)' % (norm(take)[:60] if take is not None else 'no `self.body +=`'), p.describe(20))
            continue
        up = norm(take.slice.upper).replace(' ', '')
        if up != "int(self.header(b'content-length'))-len(self.body)":
            bad3 = ('the body prefix is bounded by %s, not by Content-Length minus the bytes already held' % norm(take.slice.upper)[:70], p.describe(20))
        if rem is None or not (isinstance(rem, ast.Subscript) and isinstance(rem.slice, ast.Slice) and rem.slice.upper is None and rem.slice.lower is not None
                               and norm(rem.slice.lower).replace(' ', '') == up and norm(rem.value) == rb):
            bad3 = ('the remainder returned after the body is %s; it must start where the consumed prefix ended (%s[%s:])' % (norm(rem)[:70] if rem is not None else '?', rb, norm(take.slice.upper)[:40]), p.describe(20))
    ch.check(bad3 is None and n3 > 0, 'C03.3', pb, 'body split', 'body += raw[:missing]; remainder raw[missing:] on %d path(s)' % n3, bad3[0] if bad3 else 'no Content-Length path', witness=bad3[1] if bad3 else None)

    # ---------------- chunk decoder: C03.1 (carry), C03.3 (split), C03.4 (skip)
    completion_typestate_check(ch, 'C03.6')
    _line_terminator_check(ch, ce)
    from .common import truthiness_presence_check
    truthiness_presence_check(ch, 'C03.7', ('proxy.http.parser', 'proxy.http.url'))
    chunk_decoder_checks(ch, 'C03.1', 'C03.3', 'C03.4')

    # ---------------- C03.5 dispatch
    states = ce.try_eval(m, ast.parse('httpParserStates', mode='eval').body)
    want = {'INITIALIZED': '_process_line', 'LINE_RCVD': '_process_headers', 'RCVING_HEADERS': '_process_headers', 'HEADERS_COMPLETE': '_process_body', 'RCVING_BODY': '_process_body'}
    got: Dict[str, str] = {}
    if isinstance(states, dict):
        for sname, sval in states.items():
            if sname == 'COMPLETE':
                continue
            for p in fpaths(g):
                if p.exit_kind != 'return':
                    continue
                calls = [(i, c) for i, st in p.stmts() for c in walk_no_nested(st) if isinstance(c, ast.Call) and (attr_chain(c.func) or '').startswith('self._process_')]
                if len(calls) != 1:
                    continue
                # facts about self.state before the call, evaluated with the state value
                ok = True
                used = False
                for a, pol in list(allfacts(p, calls[0][0]).items()):
                    if 'self.state' in a and 'httpParserStates' in a:
                        try:
                            e = ast.parse(a.replace('self.state', str(sval)), mode='eval').body
                            v = ce.eval(m, e)
                        except Exception:
                            continue
                        used = True
                        if bool(v) != pol:
                            ok = False
                if ok and used:
                    got.setdefault(sname, attr_chain(calls[0][1].func).split('.')[-1])  # type: ignore[union-attr]
        diffs = ['%s -> %s (expected %s)' % (k, got.get(k), v) for k, v in want.items() if got.get(k) != v]
        ch.check(not diffs, 'C03.5', parse, 'state dispatch', 'every non-final state is dispatched to its sub-automaton', 'dispatch table differs: ' + '; '.join(diffs))
    else:
        ch.skip('C03.5', parse, 'state dispatch', 'httpParserStates not evaluable')
    proc = prog.own_method('ChunkParser', 'process')
    tests = [norm(t.test) for t in walk_no_nested(proc.node) if isinstance(t, ast.If)]
    ch.check(any('WAITING_FOR_SIZE' in t for t in tests) and any('WAITING_FOR_DATA' in t for t in tests), 'C03.5', proc, 'chunk state dispatch',
             'both non-final chunk states handled', 'ChunkParser.process does not handle both WAITING_FOR_SIZE and WAITING_FOR_DATA')
    ch.import_rules('C05', {'C05.7': 'C03.10'}, 'the decoder gives the same answer for every segmentation only if what it accepts as a chunk size does not depend on what the previous piece left behind: a size token is an integer checked for its range, nothing stricter or looser than int(., 16) of the text before ";"')


def _whole_is_crlf(key: str) -> bool:
    """the fact `<all of the remaining input> == CRLF`: an equality with CRLF whose other side is not a slice / prefix of something longer"""
    if 'CRLF' not in key and "b'\\r\\n'" not in key:
        return False
    try:
        e = ast.parse(key, mode='eval').body
    except SyntaxError:
        return False
    if not (isinstance(e, ast.Compare) and len(e.ops) == 1 and isinstance(e.ops[0], ast.Eq)):
        return False
    sides = [e.left, e.comparators[0]]
    is_crlf = [isinstance(s, ast.Name) and s.id == 'CRLF' or (isinstance(s, ast.Constant) and s.value == b'\r\n') for s in sides]
    if sum(is_crlf) != 1:
        return False
    other = sides[1] if is_crlf[0] else sides[0]
    return not any(isinstance(x, ast.Subscript) and isinstance(x.slice, ast.Slice) for x in ast.walk(other))


def _length_reached(key: str) -> bool:
    """the fact `len(self.body) == <Content-Length>` (or >=), whichever side each operand is written on"""
    if 'content-length' not in key.lower() or 'len(self.body)' not in key:
        return False
    try:
        e = ast.parse(key, mode='eval').body
    except SyntaxError:
        return False
    if not (isinstance(e, ast.Compare) and len(e.ops) == 1):
        return False
    l, r = norm(e.left), norm(e.comparators[0])
    if isinstance(e.ops[0], ast.Eq):
        return 'len(self.body)' in (l, r)
    if isinstance(e.ops[0], ast.GtE):
        return l == 'len(self.body)'
    if isinstance(e.ops[0], ast.LtE):
        return r == 'len(self.body)'
    return False


def completion_typestate_check(ch: Checker, rule: str) -> None:
    """every store self.state = COMPLETE in HttpParser is justified by the facts on every path that reaches it"""
    prog = ch.prog
    hp = prog.class_named('HttpParser')
    n = 0
    for fn in hp.methods.values():
        stores = [st for st in walk_no_nested(fn.node) if isinstance(st, ast.Assign) and len(st.targets) == 1 and attr_chain(st.targets[0]) == 'self.state'
                  and norm(st.value) == 'httpParserStates.COMPLETE']
        if not stores:
            continue
        g = cfg_of(fn, prog, exc_edges=False)
        verdict: Dict[int, Tuple[ast.AST, Optional[str], List[str], str]] = {}
        for p in fpaths(g):
            ch.paths += 1
            for i, st in p.stmts():
                if not any(st is x for x in stores):
                    continue
                fd = allfacts(p, i)

                def f(*names: str) -> Optional[bool]:
                    for nm in names:
                        if nm in fd:
                            return fd[nm]
                    return None
                why = None
                if f('self.chunk.state == chunkParserStates.COMPLETE') is True:
                    why = 'chunk decoder complete'
                elif any(v is True and _length_reached(k) for k, v in fd.items()):
                    why = 'Content-Length reached'
                elif f('self.state == httpParserStates.LINE_RCVD') is True and any(v is True and _whole_is_crlf(k) for k, v in fd.items()):
                    why = 'bare response line'
                else:
                    no_cl = f('self._content_expected', 'self.content_expected') is False
                    no_te = f('self._is_chunked_encoded', 'self.is_chunked_encoded') is False
                    if f('self.body_expected') is False or (no_cl and no_te):
                        why = 'no body announced'
                prev = verdict.get(id(st))
                if prev is None or (prev[1] is not None and why is None):
                    verdict[id(st)] = (st, why, p.describe(20) if why is None else [], ', '.join('%s=%s' % kv for kv in fd.items() if 'expected' in kv[0] or 'chunk' in kv[0] or 'state' in kv[0])[:200])
        for st, why, wit, facts in verdict.values():
            n += 1
            ch.check(why is not None, rule, fn, '%s (COMPLETE store %d)' % (norm(st), n), 'COMPLETE justified on every path (%s)' % why,
                     'the parser is marked COMPLETE on a path where none of {chunk decoder complete, Content-Length reached, no body announced, bare response line} is established '
                     '(facts: %s): a message whose body was announced but has not arrived yet is treated as complete, the head is acted on without its body and the body bytes '
                     'are later read as the next message' % (facts or 'none'), witness=wit, line=st.lineno)
    if n == 0:
        ch.bad(rule, None, 'COMPLETE stores', 'no store self.state = httpParserStates.COMPLETE found in HttpParser', module_rel='proxy/http/parser/parser.py')


def _line_terminator_check(ch: Checker, ce: ConstEval) -> None:
    prog = ch.prog
    targets = [prog.function('proxy.common.utils', 'find_http_line'), prog.own_method('HttpParser', '_process_line'), prog.own_method('HttpParser', '_process_headers')]
    for fn in targets:
        raw = fn.params[-1] if fn.cls is None else fn.params[1]
        seps = []
        strips = []
        for c in walk_no_nested(fn.node):
            if isinstance(c, ast.Call) and isinstance(c.func, ast.Attribute) and c.args:
                a0 = ce.try_eval(fn.module, c.args[0])
                eol = isinstance(a0, bytes) and a0 != b'' and set(a0) <= set(b'\r\n')
                if c.func.attr in ('split', 'partition', 'find', 'index', 'rsplit', 'rpartition', 'rfind') and eol:
                    seps.append((c, a0))
                if c.func.attr in ('rstrip', 'strip', 'lstrip'):
                    v = ce.try_eval(fn.module, c.args[0])
                    if isinstance(v, bytes) and (b'\r' in v or b'\n' in v):
                        strips.append(c)
            if isinstance(c, ast.Call) and isinstance(c.func, ast.Attribute) and c.func.attr == 'splitlines':
                seps.append((c, b'\n'))
        bad = [norm(c)[:50] for c, v in seps if v != b'\r\n'] + [norm(c)[:50] for c in strips]
        ch.check(bool(seps) and not bad, 'C03.8', fn, 'line terminator', 'the input is cut at CRLF only (%d search(es))' % len(seps),
                 '%s cuts its input with %s: a terminator other than the two-byte CRLF (bare LF, CR stripped afterwards) makes a piece boundary between CR and LF change what is parsed -- '
                 'the LF that opens the next piece is read as an empty line' % (fn.qualname, bad or 'no recognisable search for CRLF'))
