"""C15 -- HTTP message and chunked codecs round-trip and agree with a reference.

The round-trip laws are value-level and not decided.  Decided are agreements between the
two halves of each codec that hold for every input:
  C15.1 chunk encoder: every return value is (HEX(len(c)) CRLF c CRLF)* "0" CRLF CRLF with
        every data chunk provably non-empty and the chunk slices tiling the input; hex radix
        on both sides; same CRLF constant;
  C15.2 a chunked message is rebuilt chunk-framed for every body that is not None (truth table
        of the guard in _get_body_or_chunks over body in {None, empty, non-empty});
  C15.3 Content-Length is len() of the very body passed on, written only when no
        transfer-encoding header is present, the header test being case-insensitive;
        update_body removes Content-Length when chunked and keeps the body decoded;
  C15.4 the chunk size handed to int(.,16) excludes chunk extensions and is range-checked;
  C15.5 update_body compresses exactly when Content-Encoding is gzip and drops other encodings;
  C15.6 parse and build use the same separators (first COLON; COLON+SP; request line SP x2)."""
import ast
from typing import Any, Dict, List, Optional, Tuple

from ..cfg import cfg_of
from ..consteval import ConstEval
from ..flow import Sym, fpaths, attr_effects, allfacts
from ..model import FuncInfo, attr_chain, norm, walk_no_nested
from ..report import Checker


def _flatten_add(e: ast.AST) -> List[ast.AST]:
    if isinstance(e, ast.BinOp) and isinstance(e.op, ast.Add):
        return _flatten_add(e.left) + _flatten_add(e.right)
    return [e]


def _hex_of(e: ast.AST) -> Optional[ast.AST]:
    """e = bytes_('{:x}'.format(X)) / b'%x' % X / hex(X)[2:].encode() -> X"""
    t = e
    if isinstance(t, ast.Call) and attr_chain(t.func) in ('bytes_',) and t.args:
        t = t.args[0]
    if isinstance(t, ast.Call) and isinstance(t.func, ast.Attribute) and t.func.attr == 'encode':
        t = t.func.value
    if isinstance(t, ast.Call) and isinstance(t.func, ast.Attribute) and t.func.attr == 'format' and isinstance(t.func.value, ast.Constant) \
            and t.func.value.value in ('{:x}', '{:X}', '{0:x}') and len(t.args) == 1:
        return t.args[0]
    if isinstance(t, ast.BinOp) and isinstance(t.op, ast.Mod) and isinstance(t.left, ast.Constant) and t.left.value in ('%x', b'%x', '%X', b'%X'):
        return t.right
    return None


def chunk_encoder_check(ch: Checker, rule: str) -> None:
    prog = ch.prog
    ce = ConstEval(prog)
    f = prog.own_method('ChunkParser', 'to_chunks')
    m = f.module
    raw = f.params[0]
    g = cfg_of(f, prog, exc_edges=False)
    bad = None
    not_enumerated: Optional[str] = None
    n = 0
    for p in fpaths(g):
        ch.paths += 1
        if p.exit_kind != 'return':
            continue
        n += 1
        sym = Sym(p)
        last = p.stmts()[-1]
        if not isinstance(last[1], ast.Return) or last[1].value is None:
            bad = ('to_chunks has a path without a return value', p.describe())
            continue
        ridx, ret = last
        # sequence of emitted parts on this path
        parts: List[Tuple[str, Any]] = []   # ('hex', X) | ('data', X) | ('crlf',) | ('lit', bytes)
        rv = ret.value
        listname = None
        # form 1: CRLF.join(L) + CRLF
        fl = _flatten_add(rv)
        items: List[ast.AST] = []
        if isinstance(fl[0], ast.Call) and isinstance(fl[0].func, ast.Attribute) and fl[0].func.attr == 'join' and ce.try_eval(m, fl[0].func.value) == b'\r\n' \
                and len(fl[0].args) == 1 and isinstance(fl[0].args[0], ast.Name):
            listname = fl[0].args[0].id
            elems: List[Tuple[int, ast.AST]] = []
            # the joined list must start as an empty display and grow by append / extend(display) / += display: anything else
            # (a comprehension, a generator, a list built elsewhere) is a construction this rule does not enumerate
            ldefs = [st_.value for i_, st_ in p.stmts() if isinstance(st_, (ast.Assign, ast.AnnAssign)) and st_.value is not None and
                     any(isinstance(t_, ast.Name) and t_.id == listname for t_ in (st_.targets if isinstance(st_, ast.Assign) else [st_.target]))]
            if not ldefs or not all(isinstance(v_, (ast.List, ast.Tuple)) and not v_.elts or (isinstance(v_, ast.Call) and attr_chain(v_.func) == 'list' and not v_.args) for v_ in ldefs):
                not_enumerated = 'the list handed to CRLF.join (%s) is built by %s' % (listname, norm(ldefs[-1])[:60] if ldefs else 'something this function does not define')
            for i, st in p.stmts():
                for c in walk_no_nested(st):
                    if isinstance(c, ast.Call) and isinstance(c.func, ast.Attribute) and c.func.attr == 'append' and norm(c.func.value) == listname and len(c.args) == 1:
                        elems.append((i, c.args[0]))
                    elif isinstance(c, ast.Call) and isinstance(c.func, ast.Attribute) and c.func.attr == 'extend' and norm(c.func.value) == listname and len(c.args) == 1 and \
                            isinstance(c.args[0], (ast.Tuple, ast.List)) and not any(isinstance(x, ast.Starred) for x in c.args[0].elts):
                        elems.extend((i, x) for x in c.args[0].elts)        # extend with a display = the appends in order
                    elif isinstance(c, ast.Call) and isinstance(c.func, ast.Attribute) and c.func.attr in ('extend', 'insert') and norm(c.func.value) == listname:
                        bad = ('chunk list built with %s: order of emitted parts not decided' % c.func.attr, p.describe())
                if isinstance(st, ast.AugAssign) and isinstance(st.op, ast.Add) and norm(st.target) == listname:
                    if isinstance(st.value, (ast.Tuple, ast.List)) and not any(isinstance(x, ast.Starred) for x in st.value.elts):
                        elems.extend((i, x) for x in st.value.elts)
                    else:
                        bad = ('chunk list grown with += %s: order of emitted parts not decided' % norm(st.value)[:40], p.describe())
            for k, (i, e) in enumerate(elems):
                items.append(sym.value(e, i))
                if k < len(elems) - 1:
                    items.append(ast.Name(id='__CRLF__', ctx=ast.Load()))
            for e in fl[1:]:
                items.append(sym.value(e, ridx))
        else:
            for e in fl:
                items.append(sym.value(e, ridx))
        for e in items:
            if isinstance(e, ast.Name) and e.id == '__CRLF__':
                parts.append(('crlf',))
                continue
            v = ce.try_eval(m, e)
            if v == b'\r\n':
                parts.append(('crlf',))
                continue
            hx = _hex_of(e)
            if hx is not None:
                parts.append(('hex', hx))
                continue
            if isinstance(v, bytes):
                # split literal on CRLF
                segs = v.split(b'\r\n')
                for si, sg in enumerate(segs):
                    if si:
                        parts.append(('crlf',))
                    if sg != b'' or len(segs) == 1:
                        parts.append(('lit', sg))
                continue
            parts.append(('data', e))
        # grammar:  (hex(len X) crlf data X crlf)*  hex(0)|lit '0'  crlf  [lit b''] crlf
        i = 0
        prob = None
        while i < len(parts):
            t = parts[i]
            if t[0] == 'hex' and i + 3 < len(parts) and parts[i + 1][0] == 'crlf' and parts[i + 2][0] == 'data' and parts[i + 3][0] == 'crlf':
                X = parts[i + 2][1]
                hv = t[1]
                if not (isinstance(hv, ast.Call) and attr_chain(hv.func) == 'len' and hv.args and norm(hv.args[0]) == norm(X)):
                    prob = 'a chunk header announces %s but the chunk data is %s' % (norm(hv)[:40], norm(X)[:40])
                    break
                # non-emptiness: a slice raw[i:i+step] with i from range(0, len(raw), step), or a path fact
                if not _nonempty(X, p, sym, raw):
                    prob = ('a data chunk (%s) is emitted without evidence that it is non-empty: for an empty input it encodes as a zero-size chunk, which every decoder '
                            'takes for the terminator, followed by a second terminator' % norm(X)[:50])
                    break
                i += 4
                continue
            break
        if prob is None:
            tail = parts[i:]
            shapes = [tuple(x[0] if x[0] != 'lit' else ('lit', x[1]) for x in tail)]
            ok_tail = False
            if len(tail) >= 3:
                z = tail[0]
                zero = (z[0] == 'hex' and ce.try_eval(m, z[1]) == 0) or (z[0] == 'lit' and z[1] == b'0')
                rest = [x for x in tail[1:] if not (x[0] == 'lit' and x[1] == b'')]
                ok_tail = zero and len(rest) == 2 and all(x[0] == 'crlf' for x in rest)
            if not ok_tail:
                prob = 'the encoded stream does not end with exactly one terminating chunk "0" CRLF CRLF (tail parts: %s)' % [x[0] if x[0] != 'lit' else x[1] for x in tail]
        if prob:
            bad = (prob, p.describe(24))
    if not_enumerated is not None:
        ch.skip(rule, f, 'chunk grammar', '%s: the order of the emitted parts is outside the enumerated constructions (empty list grown by append / extend / +=), the grammar of the encoder is not decided' % not_enumerated)
        ch.skip(rule, f, 'tiling slices', 'not decided together with the grammar (see above)')
        return
    ch.check(bad is None and n >= 2, rule, f, 'chunk grammar', 'every return value is (HEX CRLF DATA CRLF)* 0 CRLF CRLF with non-empty data chunks (%d path(s))' % n,
             bad[0] if bad else 'fewer than two paths', witness=bad[1] if bad else None)
    # tiling: for i in range(0, len(raw), step): raw[i:i+step]
    okt = False
    for l in walk_no_nested(f.node):
        if isinstance(l, ast.For) and isinstance(l.iter, ast.Call) and attr_chain(l.iter.func) == 'range' and len(l.iter.args) == 3:
            a0, a1, a2 = l.iter.args
            if ce.try_eval(m, a0) == 0 and norm(a1) == 'len(%s)' % raw:
                for s_ in walk_no_nested(l):
                    if isinstance(s_, ast.Subscript) and isinstance(s_.value, ast.Name) and s_.value.id == raw and isinstance(s_.slice, ast.Slice):
                        lo, hi = s_.slice.lower, s_.slice.upper
                        if lo is not None and hi is not None and norm(lo) == norm(l.target) and norm(hi).replace(' ', '') == ('%s+%s' % (norm(l.target), norm(a2))).replace(' ', ''):
                            okt = True
    ch.check(okt, rule, f, 'tiling slices', 'chunks are raw[i:i+size] for i in range(0, len(raw), size)', 'the chunk slices do not tile the input (gaps or overlaps between chunks)')


def _nonempty(X: ast.AST, p: Any, sym: Sym, raw: str) -> bool:
    t = norm(X)
    # slice of the input driven by range(0, len(raw), step)
    if isinstance(X, ast.Subscript) and isinstance(X.slice, ast.Slice) and X.slice.lower is not None and '__iter__(range(0, len(%s)' % raw in norm(X.slice.lower):
        return True
    facts = list(allfacts(p).items())
    for a, pol in facts:
        a2 = a.replace(' ', '')
        if pol and a2 in ('len(%s)>0' % t, t, 'len(%s)!=0' % t, 'len(%s)>=1' % t):
            return True
        if (not pol) and a2 in ('len(%s)==0' % t, 'not%s' % t):
            return True
    return False


def run(ch: Checker) -> None:
    prog = ch.prog
    ce = ConstEval(prog)
    ch.rule('C15.1', 'ChunkParser.to_chunks: every return value matches (HEX(len c) CRLF c CRLF)* "0" CRLF CRLF, data chunks are provably non-empty and tile the input; '
                     'the decoder converts the size with radix 16', 3)
    ch.rule('C15.2', '_get_body_or_chunks: chunk-framed output exactly when the message is chunked and body is not None (table over body in {None, b"", non-empty} x chunked)', 1)
    ch.rule('C15.3', 'Content-Length: build_http_request/build_http_response write len() of the body variable they pass on, only when no transfer-encoding header is present '
                     '(case-insensitive scan of the header names); update_body removes Content-Length and keeps the body decoded when chunked, else sets it to len(body)', 3)
    ch.rule('C15.4', 'ChunkParser.process: int(<size token>, 16) where the token excludes chunk extensions (split/partition on b";"), followed by a `< 0` range check', 1)
    ch.rule('C15.5', 'update_body: gzip.compress applied exactly under Content-Encoding == gzip; any other Content-Encoding header is deleted', 1)
    ch.rule('C15.7', 'the chunk decoder inverts the encoder for every way the stream is cut: size line searched in held+new bytes; chunk data ADDED to what earlier pieces delivered; '
                     'consumed prefix and remainder split at the same point; no unchecked fixed-width skip (shared with C03.1/3/4)', 3)
    ch.rule('C15.6', 'separators agree: _process_header splits on the first COLON and strips; build_http_header joins with COLON + WHITESPACE; '
                     'request line split(WHITESPACE, 2) / join(WHITESPACE)', 3)

    # C15.1
    chunk_encoder_check(ch, 'C15.1')
    proc = prog.own_method('ChunkParser', 'process')
    ints = [c for c in walk_no_nested(proc.node) if isinstance(c, ast.Call) and attr_chain(c.func) == 'int']
    ch.check(len(ints) == 1 and len(ints[0].args) == 2 and ce.try_eval(proc.module, ints[0].args[1]) == 16, 'C15.1', proc, 'radix',
             'decoder reads the size with int(., 16); encoder writes {:x}', 'chunk size is not converted with radix 16: %s' % [norm(c) for c in ints])

    # C15.2
    body_or_chunks_check(ch, 'C15.2')

    # C15.3
    content_length_check(ch, 'C15.3')

    # C15.4
    size_token_check(ch, 'C15.4')
    from .c03 import chunk_decoder_checks
    chunk_decoder_checks(ch, 'C15.7', 'C15.7', 'C15.7')
    ch.rule('C15.11', 'when the chunk decoder is complete the parser\'s body IS the decoder\'s body, whatever it is: on every path of _process_body that finds the decoder complete, self.body was assigned from it '
                      '(a body that is legitimately empty must not stay None: the rebuild decides by `body is not None` whether to emit the terminating chunk)', 1)
    pb11 = prog.own_method('HttpParser', '_process_body')
    g11 = cfg_of(pb11, prog, exc_edges=False)
    bad11 = None
    n11 = 0
    for p in fpaths(g11):
        ch.paths += 1
        if p.exit_kind != 'return':
            continue
        f11 = allfacts(p)
        if f11.get('self.chunk.state == chunkParserStates.COMPLETE') is not True:
            continue
        n11 += 1
        sym11 = Sym(p)
        took = [norm(sym11.value(st.value, i)) for i, st in p.stmts() if isinstance(st, ast.Assign) and attr_chain(st.targets[0]) == 'self.body']
        if 'self.chunk.body' not in took:
            bad11 = ('the chunk decoder is complete but self.body is not taken from it on this path (conditions: %s): an empty chunked body leaves self.body at None, and the rebuilt message '
                     'announces chunked framing without the terminating chunk' % ', '.join('%s=%s' % kv for kv in f11.items() if 'body' in kv[0])[:120], p.describe())
    ch.check(bad11 is None and n11 > 0, 'C15.11', pb11, 'decoder complete => body taken', 'self.body = self.chunk.body on all %d path(s) that find the decoder complete' % n11,
             bad11[0] if bad11 else 'no path finds the chunk decoder complete', witness=bad11[1] if bad11 else None)
    ch.import_rules('C02', {'C02.4': 'C15.12'}, 'parse(build(x)) has x\'s header map only if the packet builder writes every entry of the map, whatever its value')
    ch.import_rules('C06', {'C06.6': 'C15.8'}, 'parse(build(x)) has x\'s headers only if the builders do not write into a header map shared between messages')
    ch.import_rules('C03', {'C03.7': 'C15.9'}, 'the decoder agrees with a reference on every piecewise feed only if a live chunk decoder is never taken for absent')
    ch.import_rules('C03', {'C03.6': 'C15.10'}, 'parse() followed by build() reproduces a message only if the parser does not declare it complete while part of it is still unread')

    # C15.5 / C15.3 update_body
    ub = prog.own_method('HttpParser', 'update_body')
    g = cfg_of(ub, prog, exc_edges=False)
    bparam = ub.params[1]
    bad5 = None
    bad3 = None
    n = 0
    for p in fpaths(g):
        ch.paths += 1
        if p.exit_kind != 'return':
            continue
        n += 1
        sym = Sym(p)
        f = allfacts(p)
        gz = f.get("self.header(b'content-encoding') == b'gzip'")
        has = f.get("self.has_header(b'content-encoding')")
        stored = [(i, st) for i, st in p.stmts() if isinstance(st, ast.Assign) and attr_chain(st.targets[0]) == 'self.body']
        if len(stored) != 1:
            bad5 = ('update_body stores the body %d times on a path' % len(stored), p.describe())
            continue
        v = sym.value(stored[0][1].value, stored[0][0])
        compressed = isinstance(v, ast.Call) and attr_chain(v.func) == 'gzip.compress'
        want = bool(has and gz)
        if has is None:
            bad5 = ('update_body stores a body on a path that never looks at the Content-Encoding header (%s): the announced coding is applied for one kind of framing and forgotten for the other, '
                    'so the rebuilt message announces gzip over a plain body, or keeps a coding it cannot produce' % ', '.join('%s=%s' % kv for kv in f.items() if 'chunk' in kv[0]), p.describe())
        elif compressed != want:
            bad5 = ('the stored body is %scompressed although Content-Encoding %s gzip' % ('' if compressed else 'not ', 'is' if want else 'is not'), p.describe())
        inner = v.args[0] if compressed else v  # type: ignore[attr-defined]
        if not (isinstance(inner, ast.Name) and inner.id == bparam):
            bad3 = ('update_body stores %s: the body must be kept decoded (the builders chunk it), only gzip may be applied' % norm(v)[:70], p.describe())
        dels = [norm(c.args[0]) for i, st in p.stmts() for c in walk_no_nested(st) if isinstance(c, ast.Call) and attr_chain(c.func) == 'self.del_header' and c.args]
        adds = [(norm(c.args[0]), sym.value(c.args[1], i)) for i, st in p.stmts() for c in walk_no_nested(st) if isinstance(c, ast.Call) and attr_chain(c.func) == 'self.add_header' and len(c.args) == 2]
        if has and gz is False and "b'content-encoding'" not in dels:
            bad5 = ('a Content-Encoding other than gzip is kept although the body is stored unencoded', p.describe())
        chunked = f.get('self.is_chunked_encoded')
        cl = [a for a in adds if a[0].lower() == "b'content-length'"]
        if chunked:
            if "b'content-length'" not in dels or cl:
                bad3 = ('chunked message keeps/gets a Content-Length in update_body', p.describe())
        else:
            okcl = len(cl) == 1 and norm(cl[0][1]) == 'bytes_(len(%s))' % norm(v)
            if not okcl:
                bad3 = ('Content-Length set by update_body is %s, not the length of the stored (possibly compressed) body %s' % ([norm(x[1]) for x in cl], norm(v)[:40]), p.describe())
    ch.check(bad5 is None and n > 0, 'C15.5', ub, 'gzip', 'compression follows the Content-Encoding header on %d path(s)' % n, bad5[0] if bad5 else '', witness=bad5[1] if bad5 else None)
    ch.check(bad3 is None and n > 0, 'C15.3', ub, 'update_body framing', 'Content-Length / decoded body consistent with the framing on %d path(s)' % n, bad3[0] if bad3 else '', witness=bad3[1] if bad3 else None)

    # C15.6 separators
    ph = prog.own_method('HttpParser', '_process_header')
    splits = [c for c in walk_no_nested(ph.node) if isinstance(c, ast.Call) and isinstance(c.func, ast.Attribute) and c.func.attr == 'split']
    ok6 = len(splits) == 1 and len(splits[0].args) == 2 and ce.try_eval(ph.module, splits[0].args[0]) == b':' and ce.try_eval(ph.module, splits[0].args[1]) == 1
    ch.check(ok6, 'C15.6', ph, 'header split', 'header line split on the first colon', 'header lines are not split on the first COLON only: %s' % [norm(c) for c in splits])
    bh = prog.function('proxy.common.utils', 'build_http_header')
    rets = [s.value for s in walk_no_nested(bh.node) if isinstance(s, ast.Return) and s.value is not None]
    ok6 = False
    if len(rets) == 1:
        fl = _flatten_add(rets[0])
        vals = [ce.try_eval(bh.module, x) for x in fl]
        ok6 = len(fl) == 4 and norm(fl[0]) == bh.params[0] and vals[1] == b':' and vals[2] == b' ' and norm(fl[3]) == bh.params[1]
    ch.check(ok6, 'C15.6', bh, 'header join', 'name COLON SP value', 'build_http_header does not emit name ":" SP value: %s' % [norm(r) for r in rets])
    pl = prog.own_method('HttpParser', '_process_line')
    lsplits = [c for c in walk_no_nested(pl.node) if isinstance(c, ast.Call) and isinstance(c.func, ast.Attribute) and c.func.attr == 'split' and c.args and ce.try_eval(pl.module, c.args[0]) != b'\r\n']
    ok6 = len(lsplits) >= 1 and all(len(c.args) == 2 and ce.try_eval(pl.module, c.args[0]) == b' ' and ce.try_eval(pl.module, c.args[1]) == 2 for c in lsplits)
    bp = prog.function('proxy.common.utils', 'build_http_pkt')
    joins = [c for c in walk_no_nested(bp.node) if isinstance(c, ast.Call) and isinstance(c.func, ast.Attribute) and c.func.attr == 'join' and c.args and norm(c.args[0]) == bp.params[0]]
    ok6 = ok6 and len(joins) == 1 and ce.try_eval(bp.module, joins[0].func.value) == b' '
    ch.check(ok6, 'C15.6', pl, 'start line', 'start line split(SP, 2) / join(SP)', 'start-line split/join separators disagree: splits %s joins %s' % ([norm(c) for c in lsplits], [norm(c) for c in joins]))


def body_or_chunks_check(ch: Checker, rule: str) -> None:
    prog = ch.prog
    f = prog.own_method('HttpParser', '_get_body_or_chunks')
    g = cfg_of(f, prog, exc_edges=False)
    table: Dict[Tuple[str, bool], str] = {}
    undec = None
    for p in fpaths(g):
        ch.paths += 1
        if p.exit_kind != 'return':
            continue
        last = p.stmts()[-1]
        if not isinstance(last[1], ast.Return) or last[1].value is None:
            continue
        rv = norm(Sym(p).value(last[1].value, last[0]))
        res = 'chunks' if rv.endswith('to_chunks(self.body)') else ('body' if rv == 'self.body' else rv)
        facts = list(allfacts(p).items())
        for body in ('None', 'empty', 'nonempty'):
            for chunked in (True, False):
                ok = True
                for a, pol in facts:
                    a2 = a.replace(' ', '')
                    if a2 == 'self.bodyisNone':
                        val = body == 'None'
                    elif a2 == 'self.body':
                        val = body == 'nonempty'
                    elif a2 in ('self._is_chunked_encoded', 'self.is_chunked_encoded'):
                        val = chunked
                    elif a2 in ('len(self.body)>0', 'len(self.body)!=0'):
                        if body == 'None':
                            ok = False
                            break
                        val = body == 'nonempty'
                    else:
                        undec = a
                        val = pol
                    if val != pol:
                        ok = False
                        break
                if ok:
                    # by value: the constant None IS the body when the body is None, b'' IS the body when it is empty
                    same = (rv == 'None' and body == 'None') or (rv == "b''" and body == 'empty')
                    table[(body, chunked)] = 'body' if same else res
    want = {('None', True): 'body', ('None', False): 'body', ('empty', True): 'chunks', ('nonempty', True): 'chunks', ('empty', False): 'body', ('nonempty', False): 'body'}
    diffs = ['body %s, chunked=%s -> %s (expected %s)' % (k[0], k[1], table.get(k), v) for k, v in want.items() if table.get(k) != v]
    if undec:
        ch.skip(rule, f, 'guard', 'guard uses an atom outside the table evaluator: %s' % undec)
    else:
        ch.check(not diffs, rule, f, 'chunked => chunk-framed', 'rebuild framing follows the Transfer-Encoding header for every body that is not None',
                 'a message that advertises chunked framing is rebuilt unframed: ' + '; '.join(diffs))


def _key_var(target: ast.AST, it: ast.AST) -> Optional[str]:
    """name bound to the header NAME by `for target in it` (it = headers / headers.keys() / headers.items())"""
    t = norm(it)
    if 'headers' not in t:
        return None
    if t.endswith('.items()'):
        return target.elts[0].id if isinstance(target, ast.Tuple) and target.elts and isinstance(target.elts[0], ast.Name) else None
    if t.endswith('.values()'):
        return None
    return target.id if isinstance(target, ast.Name) else None


def _is_te_compare(e: ast.AST, key: Optional[str], lowered: Tuple[str, ...] = ()) -> bool:
    """<key>.lower() == b'transfer-encoding' (either order); `lowered`: locals that hold <key>.lower() in this loop body"""
    if key is not None and isinstance(e, ast.Compare) and len(e.ops) == 1 and isinstance(e.ops[0], ast.Eq):
        sides = [e.left, e.comparators[0]]
        consts = [x for x in sides if isinstance(x, ast.Constant) and x.value == b'transfer-encoding']
        lowers = [x for x in sides if (isinstance(x, ast.Call) and isinstance(x.func, ast.Attribute) and x.func.attr == 'lower' and not x.args and norm(x.func.value) == key) or
                  (isinstance(x, ast.Name) and x.id in lowered)]
        return len(consts) == 1 and len(lowers) == 1
    return False


def _lowered_locals(body: List[ast.stmt], key: Optional[str]) -> Tuple[str, ...]:
    """locals of a loop body bound (once, at the top level of the body) to <key>.lower()"""
    if key is None:
        return ()
    out = []
    for s_ in body:
        if isinstance(s_, (ast.Assign, ast.AnnAssign)) and s_.value is not None:
            tg = s_.targets[0] if isinstance(s_, ast.Assign) else s_.target
            v = s_.value
            if isinstance(tg, ast.Name) and isinstance(v, ast.Call) and isinstance(v.func, ast.Attribute) and v.func.attr == 'lower' and not v.args and norm(v.func.value) == key:
                out.append(tg.id)
    stores = [x.id for s_ in body for x in ast.walk(s_) if isinstance(x, ast.Name) and isinstance(x.ctx, ast.Store)]
    return tuple(n_ for n_ in out if stores.count(n_) == 1)


def _lowered_names(c: ast.AST) -> bool:
    """[k.lower() for k in headers...] (list / set / generator), k being the header NAME"""
    if isinstance(c, (ast.SetComp, ast.ListComp, ast.GeneratorExp)) and len(c.generators) == 1 and not c.generators[0].ifs:
        key = _key_var(c.generators[0].target, c.generators[0].iter)
        return key is not None and isinstance(c.elt, ast.Call) and isinstance(c.elt.func, ast.Attribute) and c.elt.func.attr == 'lower' and not c.elt.args and norm(c.elt.func.value) == key
    return False


def _is_te_const(e: ast.AST) -> bool:
    return isinstance(e, ast.Constant) and e.value == b'transfer-encoding'


def _is_te_scan(e: ast.AST) -> bool:
    """an expression that is true iff some header NAME equals transfer-encoding case-insensitively:
    any(k.lower() == TE for k in headers...), any(n == TE for n in [k.lower() for k in headers...]), TE in {k.lower() for k in headers...}"""
    if isinstance(e, ast.Call) and attr_chain(e.func) == 'any' and len(e.args) == 1 and isinstance(e.args[0], (ast.GeneratorExp, ast.ListComp)):
        ge = e.args[0]
        if len(ge.generators) != 1 or ge.generators[0].ifs:
            return False
        gen = ge.generators[0]
        if _is_te_compare(ge.elt, _key_var(gen.target, gen.iter)):
            return True
        if _lowered_names(gen.iter) and isinstance(gen.target, ast.Name) and isinstance(ge.elt, ast.Compare) and len(ge.elt.ops) == 1 and isinstance(ge.elt.ops[0], ast.Eq):
            sides = [ge.elt.left, ge.elt.comparators[0]]
            return any(_is_te_const(x) for x in sides) and any(isinstance(x, ast.Name) and x.id == gen.target.id for x in sides)
        return False
    if isinstance(e, ast.Compare) and len(e.ops) == 1 and isinstance(e.ops[0], ast.In) and _is_te_const(e.left):
        return _lowered_names(e.comparators[0])
    return False


def _is_te_scan_text(t: str) -> bool:
    try:
        return _is_te_scan(ast.parse(t, mode='eval').body)
    except SyntaxError:
        return False


def _te_flags(f: FuncInfo) -> set:
    """local flags set by the loop form of the scan: every store is the constant False, or the constant True directly under
    `if <x>.lower() == b'transfer-encoding'` inside a loop over the headers"""
    stores: Dict[str, List[Tuple[ast.AST, bool]]] = {}
    leaky_loops: List[ast.For] = []
    def visit(body: List[ast.stmt], in_scan_if: bool, in_loop: Optional[str], lowered: Tuple[str, ...] = ()) -> None:
        for s_ in body:
            if isinstance(s_, (ast.Assign, ast.AnnAssign)):
                tg = s_.targets[0] if isinstance(s_, ast.Assign) else s_.target
                if isinstance(tg, ast.Name) and s_.value is not None and tg.id not in lowered:
                    stores.setdefault(tg.id, []).append((s_.value, in_scan_if))
            if isinstance(s_, ast.For):
                kv = _key_var(s_.target, s_.iter)
                low = _lowered_locals(s_.body, kv)
                # the scan looks at EVERY header name: the loop is left early only from the branch that found Transfer-Encoding
                def leaks(body2: List[ast.stmt], in_te: bool) -> bool:
                    for b_ in body2:
                        if isinstance(b_, (ast.Break, ast.Return)) and not in_te:
                            return True
                        if isinstance(b_, ast.If):
                            if leaks(b_.body, in_te or _is_te_compare(b_.test, kv, low)) or leaks(b_.orelse, in_te):
                                return True
                        elif isinstance(b_, (ast.With, ast.Try, ast.While, ast.For)):
                            for fld in ('body', 'orelse', 'finalbody'):
                                if leaks(getattr(b_, fld, []) or [], in_te):
                                    return True
                    return False
                if kv is not None and leaks(s_.body, False):
                    leaky_loops.append(s_)
                visit(s_.body, False, kv, low)
                visit(s_.orelse, False, None)
            elif isinstance(s_, ast.If):
                visit(s_.body, _is_te_compare(s_.test, in_loop, lowered), in_loop, lowered)
                visit(s_.orelse, False, in_loop, lowered)
            elif isinstance(s_, (ast.While, ast.With, ast.Try)):
                for fld in ('body', 'orelse', 'finalbody'):
                    visit(getattr(s_, fld, []) or [], False, None)
                for h in getattr(s_, 'handlers', []) or []:
                    visit(h.body, False, None)
    visit(f.node.body, False, None)   # type: ignore[attr-defined]
    out = set()
    for name, vals in stores.items():
        trues = [(v, ok) for v, ok in vals if isinstance(v, ast.Constant) and v.value is True]
        if trues and all(ok for v, ok in trues) and all(isinstance(v, ast.Constant) and v.value in (True, False) for v, ok in vals):
            # a flag set inside a loop that can stop before the last header says nothing about the headers not looked at
            if not any(any(isinstance(x, ast.Name) and x.id == name and isinstance(x.ctx, ast.Store) for x in ast.walk(lp)) for lp in leaky_loops):
                out.add(name)
    return out


def _cl_store_kind(slice_value: ast.AST, m: Any, ce: ConstEval) -> Optional[str]:
    """How a store `headers[<slice>] = ...` names the length field.  'existing-or-canonical': the existing field's own spelling when there is one
    (next((k for k in headers if k.lower() == b'content-length'), b'Content-Length')), so no second field is added; 'canonical': the constant
    b'Content-Length' whatever is already there; None: not a Content-Length store."""
    if ce.try_eval(m, slice_value) == b'Content-Length':
        return 'canonical'
    v = slice_value
    if isinstance(v, ast.Call) and attr_chain(v.func) == 'next' and len(v.args) == 2 and ce.try_eval(m, v.args[1]) == b'Content-Length' and \
            isinstance(v.args[0], (ast.GeneratorExp, ast.ListComp)) and len(v.args[0].generators) == 1:
        g_ = v.args[0].generators[0]
        key = g_.target.id if isinstance(g_.target, ast.Name) else _key_var(g_.target, g_.iter)      # whatever the map is called (or was folded into) on this path
        if key is not None and norm(v.args[0].elt) == key and len(g_.ifs) == 1:
            t = g_.ifs[0]
            if isinstance(t, ast.Compare) and len(t.ops) == 1 and isinstance(t.ops[0], ast.Eq):
                sides = [t.left, t.comparators[0]]
                if any(isinstance(x, ast.Constant) and x.value == b'content-length' for x in sides) and \
                        any(isinstance(x, ast.Call) and isinstance(x.func, ast.Attribute) and x.func.attr == 'lower' and norm(x.func.value) == key for x in sides):
                    return 'existing-or-canonical'
    return None


def _is_cl_compare(e: ast.AST, key: Optional[str], lowered: Tuple[str, ...] = ()) -> bool:
    if key is not None and isinstance(e, ast.Compare) and len(e.ops) == 1 and isinstance(e.ops[0], ast.Eq):
        sides = [e.left, e.comparators[0]]
        consts = [x for x in sides if isinstance(x, ast.Constant) and x.value == b'content-length']
        lowers = [x for x in sides if (isinstance(x, ast.Call) and isinstance(x.func, ast.Attribute) and x.func.attr == 'lower' and not x.args and norm(x.func.value) == key) or
                  (isinstance(x, ast.Name) and x.id in lowered)]
        return len(consts) == 1 and len(lowers) == 1
    return False


def _cl_key_locals(f: FuncInfo, m: Any, ce: ConstEval) -> Dict[str, List[ast.For]]:
    """the loop form of `next((k for k in headers if k.lower() == b'content-length'), b'Content-Length')`: a local whose every
    store is either the constant b'Content-Length' or `N = <key>` directly under `if <key>.lower() == b'content-length'` in a
    loop over the header names.  Whatever the loop does afterwards (break or go on), N names a field the map already holds or,
    when there is none, the canonical one.  -> {N: the loops that refine it}"""
    stores: Dict[str, List[Tuple[str, Optional[ast.For]]]] = {}

    def visit(body: List[ast.stmt], loop: Optional[ast.For], kv: Optional[str], lowered: Tuple[str, ...], in_cl_if: bool) -> None:
        for s_ in body:
            if isinstance(s_, (ast.Assign, ast.AnnAssign)):
                tgs = s_.targets if isinstance(s_, ast.Assign) else [s_.target]
                for tg in tgs:
                    for nm in ast.walk(tg):
                        if isinstance(nm, ast.Name) and isinstance(nm.ctx, ast.Store):
                            v = s_.value
                            if len(tgs) == 1 and tg is nm and v is not None and ce.try_eval(m, v) == b'Content-Length':
                                stores.setdefault(nm.id, []).append(('canonical', None))
                            elif len(tgs) == 1 and tg is nm and in_cl_if and kv is not None and isinstance(v, ast.Name) and v.id == kv:
                                stores.setdefault(nm.id, []).append(('existing', loop))
                            else:
                                stores.setdefault(nm.id, []).append(('other', None))
            elif isinstance(s_, ast.AugAssign) and isinstance(s_.target, ast.Name):
                stores.setdefault(s_.target.id, []).append(('other', None))
            if isinstance(s_, ast.For):
                k2 = _key_var(s_.target, s_.iter)
                for nm in ast.walk(s_.target):
                    if isinstance(nm, ast.Name):
                        stores.setdefault(nm.id, []).append(('other', None))
                visit(s_.body, s_, k2, _lowered_locals(s_.body, k2), False)
                visit(s_.orelse, None, None, (), False)
            elif isinstance(s_, ast.If):
                visit(s_.body, loop, kv, lowered, _is_cl_compare(s_.test, kv, lowered))
                visit(s_.orelse, loop, kv, lowered, False)
            elif isinstance(s_, (ast.While, ast.With, ast.Try)):
                for fld in ('body', 'orelse', 'finalbody'):
                    visit(getattr(s_, fld, []) or [], None, None, (), False)
                for h in getattr(s_, 'handlers', []) or []:
                    visit(h.body, None, None, (), False)
    visit(f.node.body, None, None, (), False)   # type: ignore[attr-defined]
    out: Dict[str, List[ast.For]] = {}
    for name, vals in stores.items():
        kinds = {k for k, _ in vals}
        if kinds == {'canonical', 'existing'}:
            out[name] = [lp for k, lp in vals if lp is not None]
    return out


def cl_store_at(p: Any, i: int, st: ast.AST, sym: Sym, f: FuncInfo, ce: ConstEval, cl_keys: Dict[str, List[ast.For]]) -> Optional[str]:
    """_cl_store_kind of statement i of path p (None: not a Content-Length store), the loop form of the lookup included"""
    if not (isinstance(st, ast.Assign) and isinstance(st.targets[0], ast.Subscript)):
        return None
    tg = st.targets[0]
    kind_ = _cl_store_kind(sym.value(tg.slice, i), f.module, ce)
    if isinstance(tg.slice, ast.Name) and tg.slice.id in cl_keys:
        # the loop form of the lookup: the refining loop over the names of THIS map has run (or found nothing to run over) before the store
        base = norm(sym.value(tg.value, i))
        g = p.cfg
        ran = any(g.nodes[nid].ast is lp and 'headers' in base and j_ < i for j_, (nid, lab) in enumerate(p.steps) for lp in cl_keys[tg.slice.id]
                  if g.nodes[nid].kind == 'for')
        kind_ = 'existing-or-canonical' if ran else 'canonical'
    return kind_


def content_length_check(ch: Checker, rule: str) -> None:
    prog = ch.prog
    ce = ConstEval(prog)
    for name in ('build_http_request', 'build_http_response'):
        f = prog.function('proxy.common.utils', name)
        g = cfg_of(f, prog, exc_edges=False)
        bad = None
        dup = None
        n = 0
        nstores = 0
        te_flags = _te_flags(f)
        cl_keys = _cl_key_locals(f, f.module, ce)
        for p in fpaths(g, limit=100000):
            ch.paths += 1
            if p.exit_kind != 'return':
                continue
            n += 1
            sym = Sym(p)
            last = p.stmts()[-1]
            ret = last[1]
            pk = [c for c in walk_no_nested(ret) if isinstance(c, ast.Call) and attr_chain(c.func) == 'build_http_pkt']
            if not pk:
                bad = ('%s does not return build_http_pkt(...)' % name, p.describe())
                continue
            from .common import bound_args
            ba = bound_args(prog, f, pk[0])           # by parameter name: positional and keyword spelling are one call
            body_arg = (ba or {}).get('body') if ba is not None else (pk[0].args[2] if len(pk[0].args) >= 3 else None)
            body_txt = norm(sym.value(body_arg, last[0])) if body_arg is not None else None
            for i, st in p.stmts():
                kind_ = cl_store_at(p, i, st, sym, f, ce, cl_keys)
                if kind_ is not None:
                    nstores += 1
                    if kind_ == 'canonical':
                        # a second field next to one spelled in another case, unless every case variant was removed before
                        removed = any(isinstance(c_, ast.Call) and isinstance(c_.func, ast.Attribute) and c_.func.attr in ('pop', '__delitem__') for j_, s_ in p.stmts() if j_ < i for c_ in walk_no_nested(s_)) or \
                            any(isinstance(s_, ast.Delete) for j_, s_ in p.stmts() if j_ < i)
                        if not removed:
                            dup = ('the computed length is stored under the constant name b\'Content-Length\' whatever the map already holds: a message that arrived with `content-length: N` is rebuilt with that '
                                   'field AND `Content-Length: N` -- two length fields, which a recipient may reject (RFC 7230 3.3.2) and a sender must not produce', p.describe(22))
                    v = sym.value(st.value, i)
                    vt = norm(v)
                    # value = bytes_(len(<body>)) (or b'0' for no body)
                    if vt not in ('bytes_(len(%s))' % body_txt, "b'0'"):
                        bad = ('Content-Length is computed as %s but the body handed to the packet builder is %s' % (vt[:60], body_txt), p.describe(22))
                    # guard: a case-insensitive scan of the header names for transfer-encoding came out false
                    fd = allfacts(p, i)
                    guards = [a for a, pol in fd.items() if pol is False and (_is_te_scan_text(a) or a in te_flags)]
                    if not guards:
                        te = [a for a in fd if 'transfer' in a.lower()]
                        bad = ('Content-Length is written without the case-insensitive "no Transfer-Encoding header" test on the path (guards: %s): a header spelled in another case '
                               'gets a Content-Length added next to it' % (te or 'none'), p.describe(22))
        ch.check(dup is None and nstores > 0, rule, f, 'one Content-Length', 'the length is stored under the existing field\'s own spelling (no second Content-Length field)', dup[0] if dup else 'no Content-Length store found', witness=dup[1] if dup else None)
        ch.check(bad is None and n > 0 and nstores > 0, rule, f, 'Content-Length', 'Content-Length = len(body passed on), guarded by the case-insensitive transfer-encoding scan (%d path(s))' % n,
                 bad[0] if bad else 'no Content-Length store found', witness=bad[1] if bad else None)


def size_token_check(ch: Checker, rule: str) -> None:
    prog = ch.prog
    proc = prog.own_method('ChunkParser', 'process')
    g = cfg_of(proc, prog, exc_edges=False)
    bad = None
    n = 0
    for p in fpaths(g):
        ch.paths += 1
        sym = Sym(p)
        for i, st in p.stmts():
            for c in walk_no_nested(st):
                if isinstance(c, ast.Call) and attr_chain(c.func) == 'int' and len(c.args) == 2:
                    n += 1
                    tok = sym.value(c.args[0], i)
                    t = norm(tok)
                    ok = isinstance(tok, ast.Subscript) and isinstance(tok.slice, ast.Constant) and tok.slice.value == 0 and isinstance(tok.value, ast.Call) \
                        and isinstance(tok.value.func, ast.Attribute) and tok.value.func.attr in ('split', 'partition') and tok.value.args \
                        and isinstance(tok.value.args[0], ast.Constant) and tok.value.args[0].value == b';'
                    if not ok:
                        bad = ('the chunk size is parsed from %s: a chunk extension ("5;ext=1") makes int(., 16) raise on a valid stream' % t[:70], p.describe())
    ch.check(bad is None and n > 0, rule, proc, 'size token', 'size token is the part before ";" on %d path(s)' % n, bad[0] if bad else 'no int(., 16) found', witness=bad[1] if bad else None)
