"""C13 -- the static file server never serves anything outside its directory.

Decided (taint with a dominating sanitiser): the file path handed to the file-reading
sink is the *normalised* candidate, a containment test of that very value against the
normalised root holds on every path to the sink, nothing transforms the path between the
test and open(), the query string is cut off before the path is formed, the static
fallback is reached only when no route matched, read failures are answered 404.
Not decided: symlink policy, byte identity of the served content."""
import ast
from typing import Dict, List, Optional, Tuple

from ..cfg import cfg_of, Path
from ..flow import Sym, find_calls, strip_wrappers, fpaths, allfacts
from ..model import attr_chain, norm, walk_no_nested, FuncInfo
from ..report import Checker

NORMALISERS = ('os.path.abspath', 'os.path.realpath', 'os.path.normpath')
SOURCE_PARAM_INDEX = 1  # first parameter after self


def _is_normaliser_call(e: ast.AST) -> bool:
    if isinstance(e, ast.Call):
        fn = attr_chain(e.func)
        if fn in NORMALISERS:
            return True
        if isinstance(e.func, ast.Attribute) and e.func.attr == 'resolve':
            return True
        if fn == 'str' and e.args:
            return _is_normaliser_call(e.args[0])
    return False


def _mentions(e: ast.AST, name: str) -> bool:
    return any(isinstance(n, ast.Name) and n.id == name for n in ast.walk(e))


def _mentions_attr(e: ast.AST, attr: str) -> bool:
    return any(isinstance(n, ast.Attribute) and n.attr == attr for n in ast.walk(e))


def _containment_fact(atom_ast: ast.AST, polarity: bool, cand: str, sym: Sym, idx: int) -> Optional[str]:
    """Return a description if (atom, polarity) is an accepted containment test of the
    candidate `cand` (normalised text) against a normalised root."""
    e = sym.value(atom_ast, idx)
    # os.path.commonpath([R, C]) == R   (fact true)   /  != R (fact false handled by atom_key normalisation upstream)
    if isinstance(e, ast.Compare) and len(e.ops) == 1:
        op = e.ops[0]
        l, r = e.left, e.comparators[0]
        if isinstance(op, (ast.Eq, ast.NotEq)):
            want = polarity if isinstance(op, ast.Eq) else not polarity
            for a, b in ((l, r), (r, l)):
                if isinstance(a, ast.Call) and attr_chain(a.func) == 'os.path.commonpath' and a.args \
                        and isinstance(a.args[0], (ast.List, ast.Tuple)) and len(a.args[0].elts) == 2:
                    elts = [norm(x) for x in a.args[0].elts]
                    root = norm(b)
                    if want and cand in elts and root in elts and root != cand and _root_ok(b):
                        return 'commonpath([root, candidate]) == root'
    # C.startswith(R + os.sep) / C.startswith(os.path.join(R, ''))
    if isinstance(e, ast.Call) and isinstance(e.func, ast.Attribute) and e.func.attr == 'startswith' and polarity and e.args:
        if norm(e.func.value) == cand:
            a = e.args[0]
            if isinstance(a, ast.BinOp) and isinstance(a.op, ast.Add) and attr_chain(a.right) in ('os.sep', 'os.path.sep') and _root_ok(a.left):
                return 'candidate.startswith(root + os.sep)'
            if isinstance(a, ast.Call) and attr_chain(a.func) == 'os.path.join' and len(a.args) == 2 \
                    and isinstance(a.args[1], ast.Constant) and a.args[1].value == '' and _root_ok(a.args[0]):
                return "candidate.startswith(os.path.join(root, ''))"
    # Path(C).is_relative_to(R)
    if isinstance(e, ast.Call) and isinstance(e.func, ast.Attribute) and e.func.attr == 'is_relative_to' and polarity and e.args:
        if cand in norm(e.func.value) and _root_ok(e.args[0]):
            return 'candidate.is_relative_to(root)'
    return None


def _root_ok(e: ast.AST) -> bool:
    """root operand: a normalised form of flags.static_server_dir"""
    return _is_normaliser_call(e) and _mentions_attr(e, 'static_server_dir')


def run(ch: Checker) -> None:
    prog = ch.prog
    ch.rule('C13.1', 'every path to the file-serving sink passes the normalised candidate (abspath/realpath/normpath/resolve of root+request path) '
                     'and carries a containment fact of that same value against the normalised static root (commonpath == root, startswith(root+os.sep), is_relative_to)', 1)
    ch.rule('C13.1b', 'paths of the static handler that do not reach the sink queue NOT_FOUND_RESPONSE_PKT', 1)
    ch.rule('C13.1c', 'inside serve_static_file the path opened is the parameter unchanged (no decoding / joining between containment test and open)', 1)
    ch.rule('C13.2', 'the request path enters the candidate only through split("?",1)[0] / partition("?")[0] (the query never selects the file)', 1)
    ch.rule('C13.3', 'the static fallback is called only from on_request_complete under `self.route is None` and `flags.enable_static_server`; '
                     'serve_static_file is called with a request-derived path only from the static handler', 2)
    ch.rule('C13.5', 'the header map of a static-file response is created for that response (never a module-level / class-level map, not even as a default): '
                     'the response builders write Content-Encoding / Content-Length into the map they are given', 1)
    ch.rule('C13.6', 'who may declare a content coding for a static response: only okResponse, when it compresses the body itself; serve_static_file hands it a header map without '
                     'Content-Encoding (a coding guessed from the file NAME describes the file, not a transformation the client may undo to get the file back)', 1)
    ch.rule('C13.7', 'served bytes are the file\'s current bytes: serve_static_file does not obtain content (or headers) from a memoised (lru_cache / cache) function', 1)
    ch.rule('C13.8', 'who may call the file-serving sink with a path that depends on the request: only the static handler whose containment discipline C13.1 decides; any other caller passes a fixed file of the distribution '
                     '(a route plugin serving "its own" assets by request path opens whatever that path names)', 2)
    ch.rule('C13.9', 'dot-segments of the request path are resolved together with the root, never on their own: no normpath/abspath/realpath/resolve is applied to the request path before it is joined to the root '
                     '(resolved alone, "/../x" collapses to "/x" and the containment test can no longer see that the request left the root)', 1)
    ch.rule('C13.10', 'Url.from_bytes: the path-and-query text (`remainder`) is a piece of the request target, cut out by subscripts / slices / split on constants and not edited: the query is still part of it there, and only the text before the "?" may select the file', 1)
    ch.rule('C13.4', 'serve_static_file: open/read inside a try whose OSError handler returns NOT_FOUND_RESPONSE_PKT', 1)

    web = prog.class_named('HttpWebServerPlugin')
    f = prog.own_method('HttpWebServerPlugin', '_try_static_or_404')
    params = f.params
    if len(params) < 2:
        ch.undecided('C13.1', f, 'def', 'static handler has no path parameter')
        return
    src = params[SOURCE_PARAM_INDEX]
    g = cfg_of(f, prog)
    sink_paths = 0
    nonsink_paths = 0
    for p in fpaths(g):
        ch.paths += 1
        if p.exit_kind != 'return':
            continue
        sym = Sym(p)
        sinks: List[Tuple[int, ast.Call]] = []
        for idx, st in p.stmts():
            for c in walk_no_nested(st):
                if isinstance(c, ast.Call) and isinstance(c.func, ast.Attribute) and c.func.attr == 'serve_static_file':
                    sinks.append((idx, c))
                if isinstance(c, ast.Call) and attr_chain(c.func) == 'open':
                    sinks.append((idx, c))
        if not sinks:
            nonsink_paths += 1
            queued = [norm(sym.value(c.args[0], idx)) for idx, st in p.stmts() for c in find_calls(st, 'self.client', 'queue') if c.args]
            ch.check('NOT_FOUND_RESPONSE_PKT' in queued, 'C13.1b', f, 'path without sink: ' + ' / '.join('%s=%s' % (a, b) for a, b in list(allfacts(p).items()))[:120],
                     'refusal path queues NOT_FOUND_RESPONSE_PKT', 'a path that does not serve a file does not answer 404 (queued: %s)' % queued,
                     witness=p.describe())
            continue
        for idx, call in sinks:
            sink_paths += 1
            if not call.args:
                ch.undecided('C13.1', f, call, 'sink call without positional path argument')
                continue
            cand_ast = sym.value(call.args[0], idx)
            cand = norm(cand_ast)
            wit = p.describe()
            if not _mentions(cand_ast, src):
                ch.undecided('C13.1', f, call, 'sink path does not derive from the request path parameter %r: %s' % (src, cand))
                continue
            # (a) the sink receives the normalised value itself
            if not _is_normaliser_call(cand_ast):
                ch.bad('C13.1', f, call, 'the path handed to the sink is not a normalised path (expected abspath/realpath/normpath/resolve applied last): %s' % cand[:140], witness=wit)
                continue
            # (b) containment fact on this path, before the sink
            found = None
            for sidx, (nid, lab) in enumerate(p.steps[:idx]):
                n = g.nodes[nid]
                if n.kind == 'test' and lab in (True, False):
                    d = _containment_fact(n.ast, lab, cand, sym, sidx)  # type: ignore[arg-type]
                    if d:
                        found = d
            if found:
                ch.ok('C13.1', f, call, 'sink path %s is normalised and guarded by %s' % (cand[:80], found))
            else:
                ch.bad('C13.1', f, call, 'no accepted containment test of the normalised candidate against the normalised root dominates the sink '
                                         '(facts on the path: %s)' % '; '.join('%s=%s' % x for x in list(allfacts(p).items()))[:200], witness=wit)
            # C13.9 no normalisation of the request path on its own
            pre = [norm(x)[:70] for x in ast.walk(cand_ast) if _is_normaliser_call(x) and _mentions(x, src) and not _mentions_attr(x, 'static_server_dir')]
            ch.check(not pre, 'C13.9', f, call, 'the request path is normalised only together with the root',
                     'the request path is normalised on its own (%s) before it is joined to the root: a path that climbs out of the root is folded back to a name inside it, is served with 200, '
                     'and the containment test never sees the escape' % pre[:2], witness=wit)
            # C13.2 query stripping: every occurrence of the source inside the candidate sits under split('?')[0]
            ok_q = _query_stripped(cand_ast, src)
            ch.check(ok_q, 'C13.2', f, call, 'request path enters the candidate only through split("?")[0]',
                     'the candidate path uses the request path without cutting the query string: %s' % cand[:140], witness=wit)
    if sink_paths == 0:
        ch.undecided('C13.1', f, 'def', 'no path of the static handler reaches a file-serving sink')

    # C13.8 who may call the sink (with a path that depends on the request)
    n8 = 0
    for fn in prog.all_functions('proxy', include_inlined=True):
        if fn.module.name.startswith('proxy.testing'):
            continue
        sites8 = [c_ for c_ in walk_no_nested(fn.node) if isinstance(c_, ast.Call) and isinstance(c_.func, ast.Attribute) and c_.func.attr == 'serve_static_file']
        if not sites8:
            continue
        if fn.key == f.key:
            for c_ in sites8:
                n8 += 1
                ch.ok('C13.8', fn, c_, 'called from the confined static handler')
            continue
        g8 = cfg_of(fn, prog, exc_edges=False)
        verdict8: Dict[int, Tuple[ast.Call, Optional[str]]] = {}
        for p in fpaths(g8):
            ch.paths += 1
            sym8 = Sym(p)
            for i_, nd_, lab_ in p.executed():
                if nd_.ast is None or nd_.kind not in ('stmt', 'test'):
                    continue
                for c_ in walk_no_nested(nd_.ast):
                    if any(c_ is s_ for s_ in sites8):
                        v = sym8.value(c_.args[0], i_) if c_.args else ast.Constant(value=None)        # type: ignore[attr-defined]
                        tainted = [norm(x)[:40] for x in ast.walk(v) if (isinstance(x, ast.Name) and x.id in fn.params[1:]) or
                                   (isinstance(x, ast.Attribute) and x.attr in ('path', 'url', '_url', 'request', 'query', 'remainder') and attr_chain(x) not in ('os.path', 'posixpath.path', 'ntpath.path'))]
                        prev = verdict8.get(id(c_), (c_, None))[1]
                        verdict8[id(c_)] = (c_, prev or (('%s (from %s)' % (norm(v)[:70], tainted[0])) if tainted else None))    # type: ignore[assignment]
        for c_, why in verdict8.values():
            n8 += 1
            ch.check(why is None, 'C13.8', fn, c_, 'a fixed file of the distribution (the path does not depend on the request)',
                     '%s calls the file-serving sink itself with a path built from the request: %s is not subject to the containment test of the static handler, and because a route matched '
                     'the confined fallback is never reached for these requests' % (fn.qualname, why))
    if n8 == 0:
        ch.bad('C13.8', f, 'serve_static_file', 'no call of serve_static_file found')

    # C13.1c / C13.4 serve_static_file
    sf = prog.method('HttpWebServerBasePlugin', 'serve_static_file')
    sparams = sf.params
    pname = sparams[0] if sparams and sparams[0] != 'self' else (sparams[1] if len(sparams) > 1 else 'path')
    gs = cfg_of(sf, prog)
    opens = 0
    seen = set()
    for p in fpaths(gs):
        ch.paths += 1
        sym = Sym(p)
        for idx, n, lab in p.executed():
            if n.ast is None:
                continue
            exprs = [it.context_expr for it in n.ast.items] if n.kind == 'with' else [n.ast]  # type: ignore[union-attr]
            for ex in exprs:
                for c in walk_no_nested(ex):
                    opener = isinstance(c, ast.Call) and attr_chain(c.func) in ('open', 'io.open', 'os.open') and bool(c.args)
                    if isinstance(c, ast.Call) and not opener and c.args and isinstance(c.func, (ast.Name, ast.Attribute)):
                        # a helper of the repository that opens the file it is given (not inlined: decorated, or a vocabulary name)
                        r_ = prog.resolve_expr(sf.module, c.func) if not (isinstance(c.func, ast.Attribute) and isinstance(c.func.value, ast.Name) and c.func.value.id in ('self', 'cls')) \
                            else (('func', prog.lookup_method(sf.cls, c.func.attr)) if sf.cls is not None and prog.lookup_method(sf.cls, c.func.attr) is not None else ('unknown',))
                        if r_[0] == 'func' and r_[1].module.name.startswith('proxy.http.server') and r_[1].params and \
                                any(isinstance(x, ast.Call) and attr_chain(x.func) in ('open', 'io.open') and x.args and norm(x.args[0]) == r_[1].params[0 if r_[1].cls is None or r_[1].is_static else 1]
                                    for x in ast.walk(getattr(r_[1], 'orig_node', r_[1].node))):
                            opener = True
                    if opener:
                        v = sym.value(c.args[0], idx)
                        k = norm(c) + '|' + norm(v)
                        if k in seen:
                            continue
                        seen.add(k)
                        opens += 1
                        ch.check(isinstance(v, ast.Name) and v.id == pname, 'C13.1c', sf, c,
                                 'open() receives the parameter %s unchanged' % pname,
                                 'the path opened is %s, not the parameter %s as validated by the caller' % (norm(v)[:100], pname),
                                 witness=p.describe())
                        # C13.4
                        from ..flow import enclosing_handlers
                        encl = enclosing_handlers(sf.node, n.ast)
                        ok4 = False
                        for t, in_body in encl:
                            if not in_body:
                                continue
                            for h in t.handlers:
                                types = gs.exc.handler_types(h)
                                if any(isinstance(tp, type) and issubclass(OSError, tp) for tp in types):
                                    rets = [s for s in h.body if isinstance(s, ast.Return)]
                                    if rets and rets[-1].value is not None and norm(rets[-1].value) == 'NOT_FOUND_RESPONSE_PKT':
                                        ok4 = True
                        ch.check(ok4, 'C13.4', sf, c, 'open() is inside try/except OSError -> NOT_FOUND_RESPONSE_PKT',
                                 'a failing open()/read() is not answered with NOT_FOUND_RESPONSE_PKT')
    if opens == 0:
        ch.undecided('C13.1c', sf, 'def', 'no open() call found in serve_static_file')

    # C13.7 the file is read for every response
    from .common import shared_mutable
    memo = [(c, shared_mutable(prog, sf, c)) for c in walk_no_nested(sf.node) if isinstance(c, ast.Call)]
    memo = [(c, why) for c, why in memo if why]
    from .common import _memo_decorator
    own_memo = _memo_decorator(getattr(sf, 'orig_node', sf.node))
    if own_memo:
        memo.append((sf.node, 'its own previous answers: serve_static_file is itself memoised by @%s' % own_memo))
    ch.check(not memo, 'C13.7', sf, 'file read per response', 'nothing serve_static_file calls is memoised',
             'serve_static_file takes a value from %s: what is sent is what the file contained when it was first read (under a key that does not change when the file is rewritten within the '
             'same second, or with its timestamp preserved), not what the file contains now' % (memo[0][1] if memo else ''), line=memo[0][0].lineno if memo else None)

    # C13.6 no Content-Encoding set by the static handler
    from ..consteval import ConstEval
    ce6 = ConstEval(prog)
    bad6 = None
    n6 = 0
    g6 = cfg_of(sf, prog, exc_edges=False)
    for p in fpaths(g6):
        ch.paths += 1
        sym = Sym(p)
        for i, st in p.stmts():
            for c in walk_no_nested(st):
                if isinstance(c, ast.Call) and (attr_chain(c.func) or '').split('.')[-1] in ('okResponse', 'build_http_response'):
                    n6 += 1
                    hk = [k.value for k in c.keywords if k.arg == 'headers']
                    keys = []
                    if hk:
                        hv = sym.value(hk[0], i)
                        for d in ast.walk(hv):
                            if isinstance(d, ast.Dict):
                                keys += [ce6.try_eval(sf.module, k) for k in d.keys if k is not None]
                    # item stores into the map on the path
                    for j, s2 in p.stmts():
                        if j < i and isinstance(s2, ast.Assign) and isinstance(s2.targets[0], ast.Subscript):
                            keys.append(ce6.try_eval(sf.module, s2.targets[0].slice))
                        for c2 in walk_no_nested(s2):
                            if j < i and isinstance(c2, ast.Call) and isinstance(c2.func, ast.Attribute) and c2.func.attr in ('update', 'setdefault') and c2.args:
                                for d in ast.walk(c2.args[0]):
                                    if isinstance(d, ast.Dict):
                                        keys += [ce6.try_eval(sf.module, k) for k in d.keys if k is not None]
                                    if isinstance(d, ast.Constant) and isinstance(d.value, bytes):
                                        keys.append(d.value)
                    if any(isinstance(k, bytes) and k.lower() == b'content-encoding' for k in keys):
                        bad6 = ('serve_static_file puts Content-Encoding into the header map itself: the body is the file as it is on disk, so a client that undoes the advertised coding '
                                'does not get the file\'s bytes back (and okResponse may add a second coding on top)', p.describe(18))
    ch.check(bad6 is None and n6 > 0, 'C13.6', sf, 'no Content-Encoding from the static handler', 'the header map handed to okResponse carries no content coding (%d call path(s))' % n6,
             bad6[0] if bad6 else 'no response builder call found', witness=bad6[1] if bad6 else None)

    # C13.5 fresh header map
    from .common import fresh_headers_check
    fresh_headers_check(ch, 'C13.5', [sf])

    # C13.3 who may call
    callers_static: List[Tuple[FuncInfo, ast.Call]] = []
    callers_serve: List[Tuple[FuncInfo, ast.Call]] = []
    for fn in prog.all_functions('proxy'):
        for c in walk_no_nested(fn.node):
            if isinstance(c, ast.Call) and isinstance(c.func, ast.Attribute):
                if c.func.attr == f.name:
                    callers_static.append((fn, c))
                elif c.func.attr == 'serve_static_file':
                    callers_serve.append((fn, c))
    orc = prog.own_method('HttpWebServerPlugin', 'on_request_complete')
    for fn, c in callers_static:
        if fn is not orc:
            ch.bad('C13.3', fn, c, 'static fallback called from outside on_request_complete')
            continue
        go = cfg_of(orc, prog)
        allok = True
        n_paths = 0
        for p in fpaths(go):
            ch.paths += 1
            for idx, st in p.stmts():
                if any(x is c for x in walk_no_nested(st)):
                    n_paths += 1
                    facts = list(allfacts(p, idx).items())
                    if ('self.route is None', True) not in facts or ('self.flags.enable_static_server', True) not in facts:
                        allok = False
                        ch.bad('C13.3', fn, c, 'static fallback reached without `self.route is None` and `flags.enable_static_server` (facts: %s)' % facts, witness=p.describe())
        if allok and n_paths:
            ch.ok('C13.3', fn, c, 'static fallback only under route-is-None and enable_static_server on %d path(s)' % n_paths)
        elif not n_paths:
            ch.undecided('C13.3', fn, c, 'call site not reached on any enumerated path')
    for fn, c in callers_serve:
        if fn is f:
            ch.ok('C13.3', fn, c, 'serve_static_file called from the guarded static handler')
            continue
        # other callers must not pass request-derived data: argument built from flags/constants only
        arg = c.args[0] if c.args else None
        tainted = arg is not None and any(isinstance(n, ast.Attribute) and n.attr in ('path', 'request', '_url') for n in ast.walk(arg))
        tainted = tainted and not all(attr_chain(n) in ('os.path',) for n in ast.walk(arg) if isinstance(n, ast.Attribute) and n.attr == 'path')
        ch.check(not tainted, 'C13.3', fn, c, 'serve_static_file called with a configuration-derived path (%s)' % (norm(arg)[:80] if arg is not None else ''),
                 'serve_static_file called with a request-derived path outside the guarded static handler')

    # ---------------- C13.10 the request target's path-and-query text reaches the handlers as it was sent
    fb = prog.own_method('Url', 'from_bytes')
    rawp = fb.params[1] if len(fb.params) > 1 else 'raw'
    n10 = 0
    bad10 = None

    def _verbatim(e: ast.AST) -> Optional[str]:
        """None when e only cuts pieces out of the input (subscripts, slices, split on a constant, concatenation with constants); else what edits it"""
        if isinstance(e, ast.Constant) or (isinstance(e, ast.Name) and (e.id == rawp or e.id.isupper())):
            return None
        if isinstance(e, ast.Subscript):
            return _verbatim(e.value)
        if isinstance(e, ast.IfExp):
            return _verbatim(e.body) or _verbatim(e.orelse)
        if isinstance(e, ast.BinOp) and isinstance(e.op, ast.Add):
            return _verbatim(e.left) or _verbatim(e.right)
        if isinstance(e, ast.Call) and isinstance(e.func, ast.Attribute) and e.func.attr in ('split', 'partition', 'rsplit', 'rpartition') and not e.keywords:
            return _verbatim(e.func.value)
        if isinstance(e, ast.Call) and (attr_chain(e.func) or '') in ('bytes', 'memoryview') and len(e.args) == 1:
            return _verbatim(e.args[0])
        return norm(e)[:70]
    for p in fpaths(cfg_of(fb, prog, exc_edges=False), limit=100000):
        if p.exit_kind != 'return' or not p.stmts():
            continue
        sym10 = Sym(p)
        for i, st in p.stmts():
            for c in walk_no_nested(st):
                if isinstance(c, ast.Call):
                    for kw in c.keywords:
                        if kw.arg == 'remainder':
                            v = sym10.value(kw.value, i)
                            if isinstance(v, ast.Constant) and v.value is None:
                                continue
                            n10 += 1
                            why = _verbatim(v)
                            if why is not None:
                                bad10 = ('Url.from_bytes hands on a path-and-query text that was edited (%s): `remainder` still contains the query string at this point, so an edit of "the path" (dot segments, '
                                         'case, escapes) is steered by what follows the "?" -- /a/b.txt?next=/../../c.txt selects another file than /a/b.txt' % why, p.describe(14))
    ch.check(bad10 is None and n10 > 0, 'C13.10', fb, 'remainder verbatim', 'the path-and-query text is a piece of the request target, cut out and not edited (%d site-path(s))' % n10,
             bad10[0] if bad10 else 'no remainder= found in Url.from_bytes', witness=bad10[1] if bad10 else None)



def _query_stripped(cand: ast.AST, src: str) -> bool:
    """every Name(src) in cand is inside X.split('?'...)[0] or X.partition('?')[0]"""
    ok_nodes = set()
    for n in ast.walk(cand):
        if isinstance(n, ast.Subscript) and isinstance(n.slice, ast.Constant) and n.slice.value == 0 and isinstance(n.value, ast.Call) \
                and isinstance(n.value.func, ast.Attribute) and n.value.func.attr in ('split', 'partition') and n.value.args \
                and isinstance(n.value.args[0], ast.Constant) and n.value.args[0].value in ('?', b'?'):
            for m in ast.walk(n.value.func.value):
                ok_nodes.add(id(m))
    for n in ast.walk(cand):
        if isinstance(n, ast.Name) and n.id == src and id(n) not in ok_nodes:
            return False
    return True
