"""E1c -- another name for the same object is the same object.

    upstream = self.upstream            pending = self.buffer           num_workers = self.flags.num_workers
    if upstream and upstream.has_buffer():   del pending[0]              for i in range(num_workers):

A local that is bound ONCE to a pure attribute chain rooted at `self` and only read afterwards is folded back into
that chain at load time (after helper inlining), so that rules written over `self.upstream...` see the code whichever
way it is spelled.  The rewrite is only made where it is exact:

  * the local has a single store in the function, is no parameter, is not captured by a nested function / lambda,
    and every read of it lies after the binding, inside the block the binding is in (the binding dominates the reads);
  * between the binding and the last read of the local nothing stores into (or deletes) the chain or a prefix of it --
    stores after the last read are fine, unless a loop contains both -- and no method of the own class is called that,
    directly or through further self-calls, stores into that attribute (so `self.<attr>` still denotes the object the
    local was bound to at every read);
  * get-or-create through a local is the same thing: `x = self.A; if x is None: x = NEW; self.A = x; ...x...` is
    `if self.A is None: self.A = NEW; ...self.A...`.

  * create-then-publish through a local is the same thing too: `x = NEW; self.A = x; ...x...` is `self.A = NEW; ...self.A...`
    (adjacent statements; the reads of x are then folded under the conditions above).

Whatever does not meet these conditions is left alone (rules then see the alias through `Sym`, as before)."""
import ast
import copy
from typing import Any, Dict, List, Optional, Set, Tuple


def _chain(e: ast.AST) -> Optional[List[str]]:
    parts: List[str] = []
    while isinstance(e, ast.Attribute):
        parts.append(e.attr)
        e = e.value
    if isinstance(e, ast.Name) and e.id == 'self' and parts:
        return ['self'] + parts[::-1]
    return None


def _own_stmts(fn: ast.AST):
    """statements of fn, nested functions / classes not entered"""
    todo = list(getattr(fn, 'body', []))
    while todo:
        s = todo.pop(0)
        yield s
        if isinstance(s, (ast.FunctionDef, ast.AsyncFunctionDef, ast.ClassDef)):
            continue
        for f in ('body', 'orelse', 'finalbody'):
            todo.extend(getattr(s, f, []) or [])
        for h in getattr(s, 'handlers', []) or []:
            todo.extend(h.body)


class AliasFolder:
    def __init__(self, prog: Any):
        self.prog = prog
        self._writers: Dict[str, Dict[str, Set[str]]] = {}      # class qual -> attr -> methods that store self.attr (transitively)
        self.folded = 0

    # ---- which methods of a class store into self.<attr>
    def _class_writers(self, ci: Any) -> Dict[str, Set[str]]:
        if ci.qual in self._writers:
            return self._writers[ci.qual]
        direct: Dict[str, Set[str]] = {}
        calls: Dict[str, Set[str]] = {}
        methods: Dict[str, Any] = {}
        for c in self.prog.mro(ci):
            for nm, f in list(c.methods.items()) + list(c.inlined_methods.items()):
                methods.setdefault(nm, f)
        for sub in self.prog.subclasses(ci):
            for nm, f in list(sub.methods.items()) + list(sub.inlined_methods.items()):
                methods.setdefault(nm + '@' + sub.name, f)
        for nm, f in methods.items():
            stores: Set[str] = set()
            cs: Set[str] = set()
            for x in ast.walk(f.node):
                if isinstance(x, ast.Attribute) and isinstance(x.ctx, (ast.Store, ast.Del)) and isinstance(x.value, ast.Name) and x.value.id == 'self':
                    stores.add(x.attr)
                if isinstance(x, ast.Call) and isinstance(x.func, ast.Attribute) and isinstance(x.func.value, ast.Name) and x.func.value.id == 'self':
                    cs.add(x.func.attr)
                if isinstance(x, ast.Call) and isinstance(x.func, ast.Attribute) and isinstance(x.func.value, ast.Call) and isinstance(x.func.value.func, ast.Name) and x.func.value.func.id == 'super':
                    cs.add(x.func.attr)
            direct[nm.split('@')[0]] = direct.get(nm.split('@')[0], set()) | stores
            calls[nm.split('@')[0]] = calls.get(nm.split('@')[0], set()) | cs
        # closure
        changed = True
        while changed:
            changed = False
            for nm in list(direct):
                for callee in calls.get(nm, ()):
                    extra = direct.get(callee, set()) - direct[nm]
                    if extra:
                        direct[nm] |= extra
                        changed = True
        out: Dict[str, Set[str]] = {}
        for nm, attrs in direct.items():
            for a in attrs:
                out.setdefault(a, set()).add(nm)
        self._writers[ci.qual] = out
        return out

    def run(self) -> None:
        for f in list(self.prog.functions.values()):
            try:
                self._unpack(f)
                if f.cls is not None:
                    self._store_through(f)
                    self._fold(f)
            except RecursionError:       # pathological nesting: leave the function as it is
                continue

    # ---- r = (a, b) ; x, y = r   is   x = a ; y = b     (r stored once, read once; a, b plain names / constants / attribute chains)
    def _unpack(self, f: Any) -> None:
        node = f.node
        loads: Dict[str, int] = {}
        stores: Dict[str, int] = {}
        for x in ast.walk(node):
            if isinstance(x, ast.Name):
                d = loads if isinstance(x.ctx, ast.Load) else stores
                d[x.id] = d.get(x.id, 0) + 1

        def simple(e: ast.AST) -> bool:
            while isinstance(e, ast.Attribute):
                e = e.value
            return isinstance(e, (ast.Name, ast.Constant))
        for holder in ast.walk(node):
            for fld in ('body', 'orelse', 'finalbody'):
                b = getattr(holder, fld, None)
                if not (isinstance(b, list) and b and isinstance(b[0], ast.stmt)):
                    continue
                # x, y = (a, b)   is   x = a ; y = b   under the same conditions (no target read by a later source)
                i = 0
                while i < len(b):
                    s = b[i]
                    if isinstance(s, ast.Assign) and len(s.targets) == 1 and isinstance(s.targets[0], ast.Tuple) and isinstance(s.value, ast.Tuple) and \
                            len(s.targets[0].elts) == len(s.value.elts) and all(isinstance(t, ast.Name) for t in s.targets[0].elts) and all(simple(e) for e in s.value.elts):
                        names = [t.id for t in s.targets[0].elts]           # type: ignore[attr-defined]
                        srcs = s.value.elts
                        clash = any(isinstance(y, ast.Name) and y.id in names[:k] for k, e in enumerate(srcs) for y in ast.walk(e))
                        if not clash:
                            b[i:i + 1] = [ast.fix_missing_locations(ast.copy_location(ast.Assign(targets=[ast.Name(id=nm, ctx=ast.Store())], value=e, type_comment=None), s))
                                          for nm, e in zip(names, srcs)]
                            self.folded += 1
                            i += len(names)
                            continue
                    i += 1
                i = 0
                while i + 1 < len(b):
                    s, nxt = b[i], b[i + 1]
                    if isinstance(s, ast.Assign) and len(s.targets) == 1 and isinstance(s.targets[0], ast.Name) and isinstance(s.value, ast.Tuple) and \
                            all(simple(e) for e in s.value.elts) and stores.get(s.targets[0].id) == 1 and loads.get(s.targets[0].id) == 1 and \
                            isinstance(nxt, ast.Assign) and len(nxt.targets) == 1 and isinstance(nxt.targets[0], ast.Tuple) and isinstance(nxt.value, ast.Name) and \
                            nxt.value.id == s.targets[0].id and len(nxt.targets[0].elts) == len(s.value.elts) and all(isinstance(t, ast.Name) for t in nxt.targets[0].elts):
                        names = [t.id for t in nxt.targets[0].elts]           # type: ignore[attr-defined]
                        srcs = s.value.elts
                        # sequential assignment equals the simultaneous one when no target is read by a later source
                        clash = any(isinstance(y, ast.Name) and y.id in names[:k] for k, e in enumerate(srcs) for y in ast.walk(e))
                        if not clash:
                            b[i:i + 2] = [ast.fix_missing_locations(ast.copy_location(ast.Assign(targets=[ast.Name(id=nm, ctx=ast.Store())], value=e, type_comment=None), nxt))
                                          for nm, e in zip(names, srcs)]
                            self.folded += 1
                            i += len(names)
                            continue
                    i += 1

    # ---- x = NEW ; self.A = x ; ...x...   is   self.A = NEW ; x = self.A ; ...x...   (x stored once; adjacent statements), after which
    #      x is an ordinary alias of self.A and _fold decides whether the reads can be spelled self.A
    def _store_through(self, f: Any) -> None:
        node = f.node
        stores: Dict[str, int] = {}
        for x in ast.walk(node):
            if isinstance(x, ast.Name) and isinstance(x.ctx, (ast.Store, ast.Del)):
                stores[x.id] = stores.get(x.id, 0) + 1
        for holder in ast.walk(node):
            for fld in ('body', 'orelse', 'finalbody'):
                b = getattr(holder, fld, None)
                if not (isinstance(b, list) and b and isinstance(b[0], ast.stmt)):
                    continue
                for i in range(len(b) - 1):
                    s, nxt = b[i], b[i + 1]
                    if isinstance(s, ast.Assign) and len(s.targets) == 1 and isinstance(s.targets[0], ast.Name):
                        nm, val = s.targets[0].id, s.value
                    elif isinstance(s, ast.AnnAssign) and isinstance(s.target, ast.Name) and s.value is not None:
                        nm, val = s.target.id, s.value
                    else:
                        continue
                    if stores.get(nm) != 1 or nm in f.params or _chain(val) is not None or isinstance(val, (ast.Constant, ast.Name)):
                        continue
                    if isinstance(nxt, ast.Assign) and len(nxt.targets) == 1 and _chain(nxt.targets[0]) is not None and len(_chain(nxt.targets[0]) or []) == 2 and \
                            isinstance(nxt.value, ast.Name) and nxt.value.id == nm:
                        tgt = nxt.targets[0]
                        b[i] = ast.fix_missing_locations(ast.copy_location(ast.Assign(targets=[tgt], value=val, type_comment=None), s))
                        back = copy.deepcopy(tgt)
                        for y in ast.walk(back):
                            if isinstance(y, ast.Attribute):
                                y.ctx = ast.Load()
                        b[i + 1] = ast.fix_missing_locations(ast.copy_location(ast.Assign(targets=[ast.Name(id=nm, ctx=ast.Store())], value=back, type_comment=None), nxt))
                        self.folded += 1

    def _fold(self, f: Any) -> None:
        node = f.node
        params = set(f.params)
        stores: Dict[str, int] = {}
        nested_names: Set[str] = set()
        for x in ast.walk(node):
            if isinstance(x, ast.Name) and isinstance(x.ctx, (ast.Store, ast.Del)):
                stores[x.id] = stores.get(x.id, 0) + 1
            if isinstance(x, (ast.Global, ast.Nonlocal)):
                for nm in x.names:
                    stores[nm] = stores.get(nm, 0) + 2
        for x in ast.walk(node):
            if x is not node and isinstance(x, (ast.FunctionDef, ast.AsyncFunctionDef, ast.Lambda, ast.ClassDef)):
                for y in ast.walk(x):
                    if isinstance(y, ast.Name):
                        nested_names.add(y.id)
        writers = self._class_writers(f.cls)

        def blocks(n: ast.AST):
            for fld in ('body', 'orelse', 'finalbody'):
                b = getattr(n, fld, None)
                if isinstance(b, list) and b and isinstance(b[0], ast.stmt):
                    yield b
            for h in getattr(n, 'handlers', []) or []:
                yield h.body

        def seq_of(region: List[ast.stmt]) -> Dict[int, int]:
            """statement order (depth first, in execution order of the source): id(node) -> number of the statement it belongs to"""
            out: Dict[int, int] = {}
            counter = [0]

            def visit(stmts: List[ast.stmt]) -> None:
                for s_ in stmts:
                    counter[0] += 1
                    k = counter[0]
                    out[id(s_)] = k
                    # expressions of the statement itself (not of nested statements)
                    for fld, v in ast.iter_fields(s_):
                        if fld in ('body', 'orelse', 'finalbody', 'handlers'):
                            continue
                        for v_ in (v if isinstance(v, list) else [v]):
                            if isinstance(v_, ast.AST):
                                for y in ast.walk(v_):
                                    out[id(y)] = k
                    for b_ in blocks(s_):
                        visit(b_)
            visit(region)
            return out

        def create_prologue(nxt: Optional[ast.stmt], tgt: str, chain_txt: str) -> Optional[ast.AST]:
            """`if tgt is None / not tgt: tgt = NEW ; self.A = tgt`  ->  NEW, else None"""
            if not (isinstance(nxt, ast.If) and not nxt.orelse and len(nxt.body) == 2):
                return None
            t = nxt.test
            ok_test = (isinstance(t, ast.Compare) and len(t.ops) == 1 and isinstance(t.ops[0], ast.Is) and isinstance(t.left, ast.Name) and t.left.id == tgt and
                       isinstance(t.comparators[0], ast.Constant) and t.comparators[0].value is None) or \
                      (isinstance(t, ast.UnaryOp) and isinstance(t.op, ast.Not) and isinstance(t.operand, ast.Name) and t.operand.id == tgt)
            if not ok_test:
                return None
            a, b2 = nxt.body
            if isinstance(a, ast.Assign) and len(a.targets) == 1 and isinstance(a.targets[0], ast.Name) and a.targets[0].id == tgt and \
                    isinstance(b2, ast.Assign) and len(b2.targets) == 1 and ast.unparse(b2.targets[0]) == chain_txt and isinstance(b2.value, ast.Name) and b2.value.id == tgt and \
                    not any(isinstance(y, ast.Name) and y.id == tgt for y in ast.walk(a.value)):
                return a.value
            return None
        todo = [node]
        while todo:
            cur = todo.pop()
            for b in blocks(cur):
                i = 0
                while i < len(b):
                    s = b[i]
                    if not isinstance(s, (ast.FunctionDef, ast.AsyncFunctionDef, ast.ClassDef)):
                        todo.append(s)
                    tgt = None
                    val = None
                    if isinstance(s, ast.Assign) and len(s.targets) == 1 and isinstance(s.targets[0], ast.Name):
                        tgt, val = s.targets[0].id, s.value
                    elif isinstance(s, ast.AnnAssign) and isinstance(s.target, ast.Name) and s.value is not None:
                        tgt, val = s.target.id, s.value
                    ch = _chain(val) if val is not None else None
                    if tgt is None or ch is None or len(ch) > 4 or tgt in params or tgt in nested_names:
                        i += 1
                        continue
                    chain_txt = ast.unparse(val)
                    created = create_prologue(b[i + 1] if i + 1 < len(b) else None, tgt, chain_txt) if stores.get(tgt) == 2 else None
                    if not (stores.get(tgt) == 1 or created is not None):
                        i += 1
                        continue
                    rest = b[i + 2:] if created is not None else b[i + 1:]
                    seq = seq_of(rest)
                    loads = [y for y in ast.walk(node) if isinstance(y, ast.Name) and y.id == tgt and isinstance(y.ctx, ast.Load)]
                    if created is not None:
                        pro_ids = {id(y) for y in ast.walk(b[i + 1])}
                        loads = [y for y in loads if id(y) not in pro_ids]
                    if not loads or any(id(y) not in seq for y in loads):
                        i += 1
                        continue
                    last_load = max(seq[id(y)] for y in loads)
                    # stores into the chain (or a prefix of it) inside the region: only after the last read, and never in a loop that also reads
                    bad = False
                    for r in rest:
                        for y in ast.walk(r):
                            if isinstance(y, ast.Attribute) and isinstance(y.ctx, (ast.Store, ast.Del)):
                                c2 = _chain(y)
                                if c2 and c2 == ch[:len(c2)]:
                                    if seq.get(id(y), 0) < last_load:
                                        bad = True
                            if isinstance(y, (ast.For, ast.AsyncFor, ast.While)):
                                inner = list(ast.walk(y))
                                if any(isinstance(z, ast.Name) and z.id == tgt and isinstance(z.ctx, ast.Load) for z in inner) and \
                                        any(isinstance(z, ast.Attribute) and isinstance(z.ctx, (ast.Store, ast.Del)) and (_chain(z) or ['?']) == ch[:len(_chain(z) or ['?'])] for z in inner):
                                    bad = True
                    # no call, before the last read, of a method of the class that rebinds the attribute
                    rebinders = writers.get(ch[1], set())
                    for r in rest:
                        for y in ast.walk(r):
                            if isinstance(y, ast.Call) and isinstance(y.func, ast.Attribute) and isinstance(y.func.value, ast.Name) and y.func.value.id == 'self' and \
                                    y.func.attr in rebinders and seq.get(id(y), 0) < last_load:
                                bad = True
                    if bad:
                        i += 1
                        continue
                    proto = val

                    class R(ast.NodeTransformer):
                        def visit_Name(self, n: ast.Name) -> ast.AST:
                            if n.id == tgt and isinstance(n.ctx, ast.Load):
                                return ast.copy_location(copy.deepcopy(proto), n)
                            return n
                    first = i + 2 if created is not None else i + 1
                    for k in range(first, len(b)):
                        b[k] = ast.fix_missing_locations(R().visit(b[k]))
                    if created is not None:
                        pro = b[i + 1]
                        # if self.A is None / not self.A:  self.A = NEW
                        pro.test = ast.fix_missing_locations(R().visit(pro.test))          # type: ignore[attr-defined]
                        pro.body = [ast.copy_location(ast.Assign(targets=[copy.deepcopy(pro.body[1].targets[0])], value=created, type_comment=None), pro.body[0])]   # type: ignore[attr-defined]
                        ast.fix_missing_locations(pro)
                    self.folded += 1
                    if len(b) > 1:
                        del b[i]            # the binding itself goes; the next statement moves into its place
                    else:
                        b[i] = ast.copy_location(ast.Pass(), s)
                        i += 1
