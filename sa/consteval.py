"""E7 -- closed constant evaluator over the AST.  Evaluates literals, bytes/str operators,
%-formatting, shifts/ors, displays, len(), struct.calcsize(), NamedTuple instances declared
at module level, and names bound once at module level (followed across modules).  Never
imports repository code.  Raises Unknown when a value cannot be determined."""
import ast
import operator
import struct
from typing import Any, Dict, Optional, Tuple

from .model import Program, Module


class Unknown(Exception):
    pass


class Opaque:
    """A value we know exists but cannot compute (e.g. version string): participates in
    concatenation as a marker."""

    def __init__(self, what: str):
        self.what = what

    def __repr__(self) -> str:
        return '<opaque %s>' % self.what


_BINOPS = {
    ast.Add: operator.add, ast.Sub: operator.sub, ast.Mult: operator.mul, ast.Mod: operator.mod,
    ast.LShift: operator.lshift, ast.RShift: operator.rshift, ast.BitOr: operator.or_,
    ast.BitAnd: operator.and_, ast.BitXor: operator.xor, ast.FloorDiv: operator.floordiv,
    ast.Div: operator.truediv, ast.Pow: operator.pow,
}
_CMPOPS = {
    ast.Eq: operator.eq, ast.NotEq: operator.ne, ast.Lt: operator.lt, ast.LtE: operator.le,
    ast.Gt: operator.gt, ast.GtE: operator.ge, ast.Is: operator.is_, ast.IsNot: operator.is_not,
    ast.In: lambda a, b: a in b, ast.NotIn: lambda a, b: a not in b,
}


class ConstEval:
    def __init__(self, prog: Program):
        self.prog = prog
        self._depth = 0

    def eval(self, m: Module, e: ast.AST, env: Optional[Dict[str, Any]] = None) -> Any:
        self._depth += 1
        try:
            if self._depth > 60:
                raise Unknown('recursion')
            return self._eval(m, e, env or {})
        finally:
            self._depth -= 1

    def try_eval(self, m: Module, e: ast.AST, env: Optional[Dict[str, Any]] = None, default: Any = None) -> Any:
        try:
            return self.eval(m, e, env)
        except Unknown:
            return default

    def _eval(self, m: Module, e: ast.AST, env: Dict[str, Any]) -> Any:
        if isinstance(e, ast.Constant):
            return e.value
        if isinstance(e, ast.Name):
            if e.id in env:
                return env[e.id]
            if e.id in ('True', 'False', 'None'):
                return {'True': True, 'False': False, 'None': None}[e.id]
            if e.id in ('__version__', 'VERSION'):
                return Opaque('version')
            r = self.prog.resolve(m, e.id)
            return self._resolved(r, e.id)
        if isinstance(e, ast.Attribute):
            if isinstance(e.value, ast.Name) and e.value.id in ('self', 'cls') and env.get('__class__') is not None:
                # a class-level constant read through the instance: only when no method stores an instance attribute of that name
                ci = env['__class__']
                found = self.prog.lookup_class_attr(ci, e.attr)
                if found is not None:
                    shadowed = False
                    for c2 in self.prog.mro(ci) + self.prog.subclasses(ci):
                        for fn2 in getattr(c2, 'methods', {}).values():
                            for n2 in ast.walk(fn2.node):
                                if isinstance(n2, ast.Attribute) and n2.attr == e.attr and isinstance(n2.ctx, (ast.Store, ast.Del)):
                                    shadowed = True
                    if not shadowed:
                        return self.eval(found[0].module, found[1], {k: v for k, v in env.items() if k == '__class__'})
                raise Unknown(ast.unparse(e))
            r = self.prog.resolve_expr(m, e)
            if r[0] == 'constattr':
                base = self.eval(r[1], r[2])
                if isinstance(base, dict) and r[3] in base:
                    return base[r[3]]
                raise Unknown('attr %s' % r[3])
            if r[0] in ('const', 'class', 'func', 'external', 'module'):
                return self._resolved(r, ast.unparse(e))
            raise Unknown(ast.unparse(e))
        if isinstance(e, ast.BinOp):
            l, r_ = self.eval(m, e.left, env), self.eval(m, e.right, env)
            if isinstance(l, Opaque) or isinstance(r_, Opaque) or _has_opaque(r_):
                if isinstance(e.op, (ast.Add, ast.Mod)):
                    return _opaque_concat(l, r_, isinstance(e.op, ast.Mod))
                raise Unknown('opaque arithmetic')
            op = _BINOPS.get(type(e.op))
            if op is None:
                raise Unknown('binop')
            try:
                return op(l, r_)
            except Exception as ex:
                raise Unknown(str(ex))
        if isinstance(e, ast.UnaryOp):
            v = self.eval(m, e.operand, env)
            if isinstance(e.op, ast.Not):
                return not v
            if isinstance(e.op, ast.USub):
                return -v
            if isinstance(e.op, ast.Invert):
                return ~v
            raise Unknown('unary')
        if isinstance(e, ast.BoolOp):
            vals = [self.eval(m, v, env) for v in e.values]
            if isinstance(e.op, ast.And):
                out = True
                for v in vals:
                    out = v
                    if not v:
                        break
                return out
            out = False
            for v in vals:
                out = v
                if v:
                    break
            return out
        if isinstance(e, ast.Compare):
            left = self.eval(m, e.left, env)
            for op, c in zip(e.ops, e.comparators):
                right = self.eval(m, c, env)
                f = _CMPOPS.get(type(op))
                if f is None:
                    raise Unknown('cmp')
                if not f(left, right):
                    return False
                left = right
            return True
        if isinstance(e, ast.IfExp):
            return self.eval(m, e.body, env) if self.eval(m, e.test, env) else self.eval(m, e.orelse, env)
        if isinstance(e, (ast.Tuple, ast.List)):
            vals = [self.eval(m, x, env) for x in e.elts]
            return tuple(vals) if isinstance(e, ast.Tuple) else vals
        if isinstance(e, ast.Set):
            return set(self.eval(m, x, env) for x in e.elts)
        if isinstance(e, ast.Dict):
            out = {}
            for k, v in zip(e.keys, e.values):
                if k is None:
                    raise Unknown('dict unpack')
                out[self.eval(m, k, env)] = self.eval(m, v, env)
            return out
        if isinstance(e, ast.Subscript):
            base = self.eval(m, e.value, env)
            if isinstance(e.slice, ast.Slice):
                lo = self.eval(m, e.slice.lower, env) if e.slice.lower else None
                hi = self.eval(m, e.slice.upper, env) if e.slice.upper else None
                st = self.eval(m, e.slice.step, env) if e.slice.step else None
                return base[lo:hi:st]
            idx = self.eval(m, e.slice, env)
            try:
                return base[idx]
            except Exception as ex:
                raise Unknown(str(ex))
        if isinstance(e, ast.JoinedStr):
            parts = []
            for v in e.values:
                if isinstance(v, ast.Constant):
                    parts.append(str(v.value))
                elif isinstance(v, ast.FormattedValue):
                    parts.append(str(self.eval(m, v.value, env)))
            return ''.join(parts)
        if isinstance(e, ast.Call):
            return self._call(m, e, env)
        raise Unknown(type(e).__name__)

    def _resolved(self, r: Tuple[Any, ...], what: str) -> Any:
        if r[0] == 'const':
            return self.eval(r[1], r[2])
        if r[0] == 'external':
            if r[1] in ('proxy.common._scm_version.version', 'proxy.common._version.__version__'):
                return Opaque('version')
            raise Unknown('external %s' % r[1])
        raise Unknown(what)

    def _call(self, m: Module, e: ast.Call, env: Dict[str, Any]) -> Any:
        from .model import attr_chain
        fn = attr_chain(e.func)
        args = e.args
        if fn == 'len' and len(args) == 1:
            return len(self.eval(m, args[0], env))
        if fn in ('struct.calcsize',) and len(args) == 1:
            return struct.calcsize(self.eval(m, args[0], env))
        if fn in ('int', 'str', 'bytes', 'bool', 'list', 'tuple', 'set', 'frozenset', 'memoryview', 'float') and len(args) <= 1 and not e.keywords:
            if not args:
                return {'int': 0, 'str': '', 'bytes': b'', 'bool': False, 'list': [], 'tuple': (), 'set': set(), 'frozenset': frozenset(), 'float': 0.0}.get(fn)
            v = self.eval(m, args[0], env)
            if isinstance(v, Opaque):
                return v
            if fn == 'memoryview':
                return v
            try:
                return {'int': int, 'str': str, 'bytes': bytes, 'bool': bool, 'list': list, 'tuple': tuple, 'set': set, 'frozenset': frozenset, 'float': float}[fn](v)
            except Exception as ex:
                raise Unknown(str(ex))
        # NamedTuple factories and their instances:  X = NamedTuple('X', [('A', int), ...]); x = X(1, 2, ...)
        r = self.prog.resolve_expr(m, e.func) if isinstance(e.func, (ast.Name, ast.Attribute)) else ('unknown',)
        if r[0] == 'const' and isinstance(r[2], ast.Call) and attr_chain(r[2].func) in ('NamedTuple', 'typing.NamedTuple', 'namedtuple', 'collections.namedtuple'):
            fields = self._namedtuple_fields(r[1], r[2])
            vals = [self.eval(m, a, env) for a in args]
            if len(vals) != len(fields):
                raise Unknown('namedtuple arity')
            return dict(zip(fields, vals))
        if r[0] == 'func':
            fi = r[1]
            # repository helper functions with a pure, single-return body: bytes_ / text_
            if fi.name == 'bytes_' and len(args) >= 1:
                v = self.eval(m, args[0], env)
                if isinstance(v, Opaque):
                    return v
                if isinstance(v, int) and not isinstance(v, bool):
                    v = str(v)
                return v.encode('utf-8') if isinstance(v, str) else v
            if fi.name == 'text_' and len(args) >= 1:
                v = self.eval(m, args[0], env)
                if isinstance(v, Opaque):
                    return v
                if isinstance(v, int) and not isinstance(v, bool):
                    return str(v)
                return v.decode('utf-8') if isinstance(v, bytes) else v
        if isinstance(e.func, ast.Attribute):
            # methods of constant str/bytes
            try:
                recv = self.eval(m, e.func.value, env)
            except Unknown:
                recv = None
            if isinstance(recv, Opaque) and e.func.attr in ('encode', 'decode', 'lower', 'strip'):
                return recv
            if isinstance(recv, (str, bytes)) and e.func.attr in ('join', 'lower', 'upper', 'strip', 'encode', 'decode', 'format', 'split', 'startswith', 'endswith'):
                vals = [self.eval(m, a, env) for a in args]
                if any(_has_opaque(v) for v in vals):
                    if e.func.attr == 'join':
                        parts = list(vals[0])
                        return _opaque_concat_many(recv, parts)
                    raise Unknown('opaque method arg')
                try:
                    return getattr(recv, e.func.attr)(*vals)
                except Exception as ex:
                    raise Unknown(str(ex))
        raise Unknown('call %s' % fn)

    def _namedtuple_fields(self, m: Module, call: ast.Call) -> Any:
        if len(call.args) < 2:
            raise Unknown('namedtuple')
        spec = call.args[1]
        out = []
        if isinstance(spec, (ast.List, ast.Tuple)):
            for el in spec.elts:
                if isinstance(el, (ast.Tuple, ast.List)) and el.elts and isinstance(el.elts[0], ast.Constant):
                    out.append(el.elts[0].value)
                elif isinstance(el, ast.Constant):
                    out.append(el.value)
                else:
                    raise Unknown('namedtuple field')
            return out
        raise Unknown('namedtuple spec')


def _has_opaque(v: Any) -> bool:
    if isinstance(v, Opaque):
        return True
    if isinstance(v, (tuple, list)):
        return any(_has_opaque(x) for x in v)
    if isinstance(v, OpaqueBytes):
        return True
    return False


class OpaqueBytes:
    """bytes/str with embedded opaque parts: list of (bytes|str|Opaque)."""

    def __init__(self, parts: list):
        self.parts = parts

    def known(self) -> Any:
        ks = [p for p in self.parts if not isinstance(p, Opaque)]
        if not ks:
            return b''
        return type(ks[0])().join(ks)

    def __repr__(self) -> str:
        return '<OpaqueBytes %r>' % (self.parts,)


def _opaque_concat(l: Any, r: Any, is_mod: bool) -> Any:
    if is_mod:
        # fmt % args with opaque args: split on the conversion specs conservatively
        args = r if isinstance(r, tuple) else (r,)
        if isinstance(l, (bytes, str)):
            pct = b'%' if isinstance(l, bytes) else '%'
            pieces = l.split(pct)
            out: list = [pieces[0]]
            for a, p in zip(args, pieces[1:]):
                out.append(a)
                out.append(p[1:])
            return OpaqueBytes(out)
        raise Unknown('opaque format')
    lp = l.parts if isinstance(l, OpaqueBytes) else [l]
    rp = r.parts if isinstance(r, OpaqueBytes) else [r]
    return OpaqueBytes(lp + rp)


def _opaque_concat_many(sep: Any, parts: list) -> Any:
    out: list = []
    for i, p in enumerate(parts):
        if i:
            out.append(sep)
        out.extend(p.parts if isinstance(p, OpaqueBytes) else [p])
    return OpaqueBytes(out)
