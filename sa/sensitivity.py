"""Thorough tier: sensitivity sweep.  Generic mutation operators are applied, one at a time and only in memory,
to the parsed functions a property's rule set analysed; the rule set is re-run on each mutant and the evidence records
how many mutants it reports.  Nothing is written to /repo and nothing is executed.  The sweep does not change the
verdict (that is the rule set on the unmodified tree); it measures how tightly the rules bind the anchored code and
lists survivors as samples, so a reader can see which edits the rules would not notice."""
import ast
import copy
import importlib
import io
import os
import random
import sys
from concurrent.futures import ProcessPoolExecutor
from typing import Any, Dict, List, Optional, Tuple

from .model import Program, FuncInfo, norm, AnalysisError
from .report import Checker
from . import cfg as cfgmod


class _Mutator(ast.NodeTransformer):
    """applies exactly the k-th applicable mutation"""

    def __init__(self, target: int):
        self.target = target
        self.count = 0
        self.desc: Optional[str] = None

    def _hit(self) -> bool:
        self.count += 1
        return self.count - 1 == self.target

    def visit_FunctionDef(self, n: ast.FunctionDef) -> ast.AST:
        if getattr(self, '_root_seen', False):
            return n
        self._root_seen = True
        return self.generic_visit(n)

    visit_AsyncFunctionDef = visit_FunctionDef  # type: ignore[assignment]

    def visit_Lambda(self, n: ast.Lambda) -> ast.AST:
        return n

    def visit_If(self, n: ast.If) -> ast.AST:
        if self._hit():
            self.desc = 'L%d negate test: if %s' % (n.lineno, norm(n.test)[:60])
            n.test = ast.UnaryOp(op=ast.Not(), operand=n.test)
            return n
        return self.generic_visit(n)

    def visit_While(self, n: ast.While) -> ast.AST:
        if not isinstance(n.test, ast.Constant) and self._hit():
            self.desc = 'L%d negate test: while %s' % (n.lineno, norm(n.test)[:60])
            n.test = ast.UnaryOp(op=ast.Not(), operand=n.test)
            return n
        return self.generic_visit(n)

    def visit_Compare(self, n: ast.Compare) -> ast.AST:
        if len(n.ops) == 1:
            swap = {ast.Eq: ast.NotEq, ast.NotEq: ast.Eq, ast.Lt: ast.LtE, ast.LtE: ast.Lt, ast.Gt: ast.GtE, ast.GtE: ast.Gt,
                    ast.Is: ast.IsNot, ast.IsNot: ast.Is, ast.In: ast.NotIn, ast.NotIn: ast.In}
            t = swap.get(type(n.ops[0]))
            if t is not None and self._hit():
                self.desc = 'L%d swap comparison: %s' % (n.lineno, norm(n)[:60])
                n.ops = [t()]
                return n
        return self.generic_visit(n)

    def visit_BoolOp(self, n: ast.BoolOp) -> ast.AST:
        if self._hit():
            self.desc = 'L%d and<->or: %s' % (n.lineno, norm(n)[:60])
            n.op = ast.Or() if isinstance(n.op, ast.And) else ast.And()
            return n
        return self.generic_visit(n)

    def visit_Constant(self, n: ast.Constant) -> ast.AST:
        if isinstance(n.value, bool):
            if self._hit():
                self.desc = 'L%d %s -> %s' % (n.lineno, n.value, not n.value)
                return ast.copy_location(ast.Constant(value=not n.value), n)
        elif isinstance(n.value, int) and 0 <= n.value <= 16:
            if self._hit():
                self.desc = 'L%d constant %d -> %d' % (n.lineno, n.value, n.value + 1)
                return ast.copy_location(ast.Constant(value=n.value + 1), n)
        return n

    def _stmt(self, n: ast.stmt) -> ast.AST:
        if self._hit():
            self.desc = 'L%d delete statement: %s' % (n.lineno, norm(n)[:70])
            return ast.copy_location(ast.Pass(), n)
        return self.generic_visit(n)

    def visit_Expr(self, n: ast.Expr) -> ast.AST:
        if isinstance(n.value, ast.Constant):
            return n
        return self._stmt(n)

    def visit_Assign(self, n: ast.Assign) -> ast.AST:
        return self._stmt(n)

    def visit_AugAssign(self, n: ast.AugAssign) -> ast.AST:
        return self._stmt(n)

    def visit_Break(self, n: ast.Break) -> ast.AST:
        if self._hit():
            self.desc = 'L%d break -> continue' % n.lineno
            return ast.copy_location(ast.Continue(), n)
        return n

    def visit_ExceptHandler(self, n: ast.ExceptHandler) -> ast.AST:
        if self._hit():
            self.desc = 'L%d handler `except %s` re-raises instead of handling' % (n.lineno, norm(n.type) if n.type is not None else '')
            n.body = [ast.copy_location(ast.Raise(exc=None, cause=None), n)]
            return n
        return self.generic_visit(n)


def count_mutations(node: ast.AST) -> int:
    m = _Mutator(-1)
    m.visit(copy.deepcopy(node))
    return m.count


def _run_rules(prop: str, prog: Program, tier: str, repo: str) -> Tuple[int, int, set]:
    """-> (violations + undecided, analysis_error flag, functions analysed)"""
    ch = Checker(prop, prog, tier, repo)
    mod = importlib.import_module('sa.rules.%s' % prop.lower())
    try:
        mod.run(ch)
    except AnalysisError:
        return 0, 1, ch.functions
    except Exception:
        return 0, 1, ch.functions
    bad = sum(1 for o in ch.obs if o.status in ('violated', 'undecided'))
    low = 0
    for rid, mn in ch.min_counts.items():
        if sum(1 for o in ch.obs if o.rule == rid) < mn:
            low = 1
    return bad, low, ch.functions


def _worker(args: Tuple[str, str, str, List[Tuple[str, int]], int]) -> List[Tuple[str, int, str, bool]]:
    prop, repo, tier, specs, base_bad = args
    sys.stdout = io.StringIO()
    prog = Program(repo)
    by_key = {f.key: f for f in prog.functions.values()}
    out = []
    for key, k in specs:
        f = by_key.get(key)
        if f is None:
            continue
        orig = f.node
        m = _Mutator(k)
        new = m.visit(copy.deepcopy(orig))
        if m.desc is None:
            continue
        ast.fix_missing_locations(new)
        f.node = new
        cfgmod._CFG_CACHE.clear()
        try:
            bad, err, _ = _run_rules(prop, prog, tier, repo)
        except Exception:
            bad, err = 0, 1
        f.node = orig
        cfgmod._CFG_CACHE.clear()
        out.append((key, k, m.desc, bool(bad > base_bad or err)))
    return out


def sweep(prop: str, repo: str, tier: str, seed: int, max_mutants: int = 480, jobs: int = 16) -> Dict[str, Any]:
    prog = Program(repo)
    old = sys.stdout
    sys.stdout = io.StringIO()
    try:
        base_bad, base_err, functions = _run_rules(prop, prog, tier, repo)
    finally:
        sys.stdout = old
    by_key = {f.key: f for f in prog.functions.values()}
    specs: List[Tuple[str, int]] = []
    for key in sorted(functions):
        f = by_key.get(key)
        if f is None:
            continue
        for k in range(count_mutations(f.node)):
            specs.append((key, k))
    total = len(specs)
    rnd = random.Random(seed)
    if len(specs) > max_mutants:
        specs = rnd.sample(specs, max_mutants)
    chunks = [specs[i::jobs] for i in range(jobs)]
    results: List[Tuple[str, int, str, bool]] = []
    with ProcessPoolExecutor(max_workers=jobs) as ex:
        for r in ex.map(_worker, [(prop, repo, tier, c, base_bad) for c in chunks if c]):
            results.extend(r)
    killed = [r for r in results if r[3]]
    survived = [r for r in results if not r[3]]
    per_fn: Dict[str, List[int]] = {}
    for key, k, desc, kd in results:
        a = per_fn.setdefault(key, [0, 0])
        a[0] += 1
        a[1] += 1 if kd else 0
    return {
        'mutation_sites_in_analysed_functions': total,
        'mutants_evaluated': len(results),
        'mutants_reported_by_the_rules': len(killed),
        'mutants_not_reported': len(survived),
        'per_function': {k: {'evaluated': v[0], 'reported': v[1]} for k, v in sorted(per_fn.items())},
        'reported_samples': ['%s  %s' % (r[0].split('::')[-1], r[2]) for r in killed[:12]],
        'not_reported_samples': ['%s  %s' % (r[0].split('::')[-1], r[2]) for r in survived[:40]],
        'all_survivors': ['%s  %s' % (r[0].split('::')[-1], r[2]) for r in survived] if max_mutants > 10000 else [],
        'note': 'generic syntactic mutants; many are behaviour-preserving or irrelevant to this property (logging, unrelated branches), so the ratio is a lower bound on how much of the '
                'analysed code the rules constrain, not a detection rate for property-breaking changes (that is measured by seeded/ and refactors/)',
    }
