"""E1 -- program model of /repo built from source text only (ast); nothing is imported
from the repository and nothing is executed.

Program
  .modules    dotted name -> Module
  .classes    'pkg.mod.Class' -> ClassInfo
  .functions  'pkg.mod:Class.meth' / 'pkg.mod:func' -> FuncInfo
"""
import ast
import hashlib
import os
from typing import Dict, List, Optional, Tuple, Any, Iterator


class _Desugar(ast.NodeTransformer):
    """Semantics-preserving desugaring applied to every function body at load time so that the CFG
    decomposes the test of a conditional expression into path facts:
        return A if T else B      ->  if T: return A  else: return B
        x = A if T else B         ->  if T: x = A     else: x = B     (single plain target)"""

    def _loc(self, new: ast.AST, old: ast.AST) -> ast.AST:
        ast.copy_location(new, old)
        ast.fix_missing_locations(new)
        return new

    def visit_Return(self, n: ast.Return) -> ast.AST:
        if isinstance(n.value, ast.IfExp):
            v = n.value
            a = self.visit_Return(ast.copy_location(ast.Return(value=v.body), v.body))
            b = self.visit_Return(ast.copy_location(ast.Return(value=v.orelse), v.orelse))
            return self._loc(ast.If(test=v.test, body=[a] if not isinstance(a, list) else a, orelse=[b] if not isinstance(b, list) else b), n)
        # return bool(A and not B)   ->  if A and not B: return True  else: return False      (the truth value of E, by definition)
        v2 = n.value
        if isinstance(v2, ast.Call) and isinstance(v2.func, ast.Name) and v2.func.id == 'bool' and len(v2.args) == 1 and not v2.keywords:
            e = v2.args[0]
            if (isinstance(e, (ast.BoolOp, ast.Compare)) or (isinstance(e, ast.UnaryOp) and isinstance(e.op, ast.Not))) and \
                    not any(isinstance(x, (ast.NamedExpr, ast.Yield, ast.YieldFrom, ast.Lambda)) for x in ast.walk(e)):
                t_ = ast.copy_location(ast.Return(value=ast.copy_location(ast.Constant(value=True), n)), n)
                f_ = ast.copy_location(ast.Return(value=ast.copy_location(ast.Constant(value=False), n)), n)
                return self._loc(ast.If(test=e, body=[t_], orelse=[f_]), n)
        return n

    # -- named conditions:  t = A and not B ; ... if t:   is the same decision as   if A and not B:
    #    A local that holds a truth value is split where it is computed (if E: t = True else: t = False), so that the CFG
    #    decomposes E into path facts there and constant propagation decides the later `if t:`.  Exact when E is
    #    bool-valued by construction (comparisons, not, and/or of those, bool()/isinstance()/...); for other and/or
    #    expressions only when every read of t in the function is in a truth-value position.
    _BOOL_CALLS = ('bool', 'isinstance', 'issubclass', 'callable', 'hasattr', 'any', 'all')
    _BOOL_METHODS = ('startswith', 'endswith', 'isdigit', 'isalnum', 'isalpha', 'isspace', 'is_set', 'isupper', 'islower')

    def _bool_valued(self, e: ast.AST) -> bool:
        if isinstance(e, ast.Compare):
            return True
        if isinstance(e, ast.UnaryOp) and isinstance(e.op, ast.Not):
            return True
        if isinstance(e, ast.BoolOp):
            return all(self._bool_valued(v) for v in e.values)
        if isinstance(e, ast.Constant) and isinstance(e.value, bool):
            return True
        if isinstance(e, ast.Call):
            if isinstance(e.func, ast.Name) and e.func.id in self._BOOL_CALLS:
                return True
            if isinstance(e.func, ast.Attribute) and e.func.attr in self._BOOL_METHODS:
                return True
        return False

    def _truth_only_names(self, fn: ast.AST) -> set:
        """locals every read of which is in a truth-value position (if/while/assert test, operand of not/and/or in such a test, conditional-expression test)"""
        truth_ids = set()

        def mark(e: ast.AST) -> None:
            if isinstance(e, ast.Name):
                truth_ids.add(id(e))
            elif isinstance(e, ast.UnaryOp) and isinstance(e.op, ast.Not):
                mark(e.operand)
            elif isinstance(e, ast.BoolOp):
                for v in e.values:
                    mark(v)
        for x in ast.walk(fn):
            if isinstance(x, (ast.If, ast.While, ast.IfExp, ast.Assert)):
                mark(x.test)
            elif isinstance(x, ast.comprehension):
                for t in x.ifs:
                    mark(t)
        loads: Dict[str, List[int]] = {}
        for x in ast.walk(fn):
            if isinstance(x, ast.Name) and isinstance(x.ctx, ast.Load):
                loads.setdefault(x.id, []).append(id(x))
        return {nm for nm, ids in loads.items() if all(i in truth_ids for i in ids)}

    def _split_named_condition(self, target: ast.Name, value: ast.AST, at: ast.AST) -> Optional[ast.AST]:
        exact = False
        while isinstance(value, ast.Call) and isinstance(value.func, ast.Name) and value.func.id == 'bool' and len(value.args) == 1 and not value.keywords:
            value, exact = value.args[0], True          # bool(E): the truth value of E, by definition
        if not isinstance(value, (ast.BoolOp, ast.Compare)) and not (isinstance(value, ast.UnaryOp) and isinstance(value.op, ast.Not)) and \
                not (exact and isinstance(value, (ast.Name, ast.Attribute))):       # t = bool(x): the truth value of a plain name / attribute chain
            return None
        if any(isinstance(x, (ast.NamedExpr, ast.Await, ast.Yield, ast.YieldFrom, ast.Lambda)) for x in ast.walk(value)):
            return None
        if not (exact or self._bool_valued(value) or target.id in self._truth_only[-1]):
            return None
        t = ast.copy_location(ast.Assign(targets=[ast.Name(id=target.id, ctx=ast.Store())], value=ast.Constant(value=True), type_comment=None), at)
        f = ast.copy_location(ast.Assign(targets=[ast.Name(id=target.id, ctx=ast.Store())], value=ast.Constant(value=False), type_comment=None), at)
        return self._loc(ast.If(test=value, body=[t], orelse=[f]), at)

    _truth_only: List[set] = [set()]

    def visit_FunctionDef(self, n: ast.FunctionDef) -> ast.AST:
        self._truth_only = self._truth_only + [self._truth_only_names(n)]
        try:
            self.generic_visit(n)
        finally:
            self._truth_only = self._truth_only[:-1]
        return n

    def visit_AsyncFunctionDef(self, n: ast.AsyncFunctionDef) -> ast.AST:
        self._truth_only = self._truth_only + [self._truth_only_names(n)]
        try:
            self.generic_visit(n)
        finally:
            self._truth_only = self._truth_only[:-1]
        return n

    def visit_Assign(self, n: ast.Assign) -> ast.AST:
        if len(n.targets) == 1 and isinstance(n.targets[0], ast.Name) and len(self._truth_only) > 1:
            r = self._split_named_condition(n.targets[0], n.value, n)
            if r is not None:
                return r
        if isinstance(n.value, ast.IfExp) and len(n.targets) == 1 and isinstance(n.targets[0], (ast.Name, ast.Attribute, ast.Subscript)):
            v = n.value
            a = self.visit_Assign(ast.copy_location(ast.Assign(targets=n.targets, value=v.body, type_comment=None), v.body))
            b = self.visit_Assign(ast.copy_location(ast.Assign(targets=n.targets, value=v.orelse, type_comment=None), v.orelse))
            return self._loc(ast.If(test=v.test, body=[a], orelse=[b]), n)
        return n

    def visit_AnnAssign(self, n: ast.AnnAssign) -> ast.AST:
        if n.value is not None and isinstance(n.target, ast.Name) and len(self._truth_only) > 1:
            r = self._split_named_condition(n.target, n.value, n)
            if r is not None:
                return r
        if n.value is not None and isinstance(n.value, ast.IfExp) and isinstance(n.target, (ast.Name, ast.Attribute)):
            v = n.value
            a = self.visit_Assign(ast.copy_location(ast.Assign(targets=[n.target], value=v.body, type_comment=None), v.body))
            b = self.visit_Assign(ast.copy_location(ast.Assign(targets=[n.target], value=v.orelse, type_comment=None), v.orelse))
            return self._loc(ast.If(test=v.test, body=[a], orelse=[b]), n)
        return n

    def visit_Lambda(self, n: ast.Lambda) -> ast.AST:
        return n

    # -- with contextlib.ExitStack() as S:  S.callback(f, a...) ; REST      is      try: REST  finally: f(a...)
    #    (callbacks registered by the first statements of the block run, last registered first, however REST is left)
    def visit_With(self, n: ast.With) -> ast.AST:
        self.generic_visit(n)
        # with contextlib.suppress(E, ...): BODY      is      try: BODY  except (E, ...): pass
        if len(n.items) == 1 and n.items[0].optional_vars is None and isinstance(n.items[0].context_expr, ast.Call) and not n.items[0].context_expr.keywords:
            f_ = n.items[0].context_expr.func
            nm_ = f_.attr if isinstance(f_, ast.Attribute) else (f_.id if isinstance(f_, ast.Name) else '')
            if nm_ == 'suppress' and n.items[0].context_expr.args and not any(isinstance(a_, ast.Starred) for a_ in n.items[0].context_expr.args):
                args_ = n.items[0].context_expr.args
                typ = args_[0] if len(args_) == 1 else ast.Tuple(elts=list(args_), ctx=ast.Load())
                h_ = ast.ExceptHandler(type=typ, name=None, body=[ast.Pass()])
                return self._loc(ast.Try(body=n.body, handlers=[h_], orelse=[], finalbody=[]), n)
        if len(n.items) == 1 and isinstance(n.items[0].context_expr, ast.Call) and isinstance(n.items[0].optional_vars, ast.Name) and not n.items[0].context_expr.args:
            fn_ = n.items[0].context_expr.func
            nm = fn_.attr if isinstance(fn_, ast.Attribute) else (fn_.id if isinstance(fn_, ast.Name) else '')
            if nm == 'ExitStack':
                S = n.items[0].optional_vars.id
                cbs: List[ast.Call] = []
                k = 0
                while k < len(n.body):
                    s_ = n.body[k]
                    if isinstance(s_, ast.Expr) and isinstance(s_.value, ast.Call) and isinstance(s_.value.func, ast.Attribute) and s_.value.func.attr == 'callback' and \
                            isinstance(s_.value.func.value, ast.Name) and s_.value.func.value.id == S and s_.value.args:
                        cbs.append(s_.value)
                        k += 1
                    else:
                        break
                rest = n.body[k:]
                uses_stack = any(isinstance(x, ast.Name) and x.id == S for r_ in rest for x in ast.walk(r_))
                if cbs and rest and not uses_stack:
                    final = [self._loc(ast.Expr(value=ast.Call(func=c_.args[0], args=list(c_.args[1:]), keywords=list(c_.keywords))), c_) for c_ in reversed(cbs)]
                    return self._loc(ast.Try(body=rest, handlers=[], orelse=[], finalbody=final), n)
        return n


_FLIP = {ast.Eq: ast.Eq, ast.NotEq: ast.NotEq, ast.Is: ast.Is, ast.IsNot: ast.IsNot, ast.Lt: ast.Gt, ast.LtE: ast.GtE, ast.Gt: ast.Lt, ast.GtE: ast.LtE}
_COMPLEMENT = {ast.Eq: ast.NotEq, ast.NotEq: ast.Eq, ast.Is: ast.IsNot, ast.IsNot: ast.Is, ast.In: ast.NotIn, ast.NotIn: ast.In}


def _operand_rank(e: ast.AST) -> int:
    """4 constant expression, 3 NAME_IN_CAPITALS (a constant by convention), 2 plain name / attribute chain, 1 anything else"""
    if isinstance(e, ast.Constant):
        return 4
    if isinstance(e, (ast.BinOp, ast.UnaryOp, ast.Tuple, ast.List)) and all(isinstance(x, (ast.Constant, ast.BinOp, ast.UnaryOp, ast.Tuple, ast.List, ast.operator, ast.unaryop, ast.expr_context))
                                                                            for x in ast.walk(e)):
        return 4
    x, last = e, None
    while isinstance(x, ast.Attribute):
        last = last or x.attr
        x = x.value
    if isinstance(x, ast.Name):
        return 3 if (last or x.id).isupper() else 2
    return 1


class _Canon(ast.NodeTransformer):
    """One spelling for constructs the language lets one write in several equivalent ways, applied at load time so that
    no rule depends on which one the source uses (tools/syntax_variants.py replays each family on the whole tree):
        K == X, K < X, ...             ->  X == K, X > K          (the more constant operand on the right; ties by text)
        not (A is B) / not (A in B) / not (A == B)  ->  A is not B / A not in B / A != B
        if bool(E): / while bool(E):   ->  if E: / while E:        (also under not / and / or of a test)
        A if not T else B             ->  B if T else A;   A if X != K else B  ->  B if X == K else A  (also `is not`, `not in`)
        N = N + K  (K a number)        ->  N += K
        t = E ; if t: / return t      ->  if E: / return E        (t stored once, read once, adjacent statements)
    Positions are kept; messages quote the canonical spelling."""

    # -- a local computed only to be tested / returned by the very next statement is that statement's expression:
    #        t = E ; if t: ...   ->  if E: ...          t = E ; return t  ->  return E        (also `if not t`, `if t and ...`)
    #    exact when t is stored once and read once in the whole function and nothing is evaluated between the two.
    def _inline_adjacent(self, body: List[ast.stmt], loads: Dict[str, int], stores: Dict[str, int]) -> List[ast.stmt]:
        out: List[ast.stmt] = []
        i = 0
        while i < len(body):
            s = body[i]
            nxt = body[i + 1] if i + 1 < len(body) else None
            tname = None
            val = None
            if isinstance(s, ast.Assign) and len(s.targets) == 1 and isinstance(s.targets[0], ast.Name):
                tname, val = s.targets[0].id, s.value
            elif isinstance(s, ast.AnnAssign) and isinstance(s.target, ast.Name) and s.value is not None:
                tname, val = s.target.id, s.value
            if tname is not None and nxt is not None and loads.get(tname) == 1 and stores.get(tname) == 1 and val is not None:
                def is_t(e: Optional[ast.AST]) -> bool:
                    return isinstance(e, ast.Name) and e.id == tname
                done = False
                if isinstance(nxt, ast.Return) and is_t(nxt.value):
                    nxt.value = val
                    done = True
                elif isinstance(nxt, ast.If):
                    t = nxt.test
                    if is_t(t):
                        nxt.test = self._truth(val)
                        done = True
                    elif isinstance(t, ast.UnaryOp) and isinstance(t.op, ast.Not) and is_t(t.operand):
                        t.operand = val
                        nxt.test = self.visit(t)
                        done = True
                    elif isinstance(t, ast.BoolOp) and is_t(t.values[0]):
                        t.values[0] = val
                        done = True
                    elif isinstance(t, ast.BoolOp) and isinstance(t.values[0], ast.UnaryOp) and isinstance(t.values[0].op, ast.Not) and is_t(t.values[0].operand):
                        t.values[0].operand = val
                        t.values[0] = self.visit(t.values[0])
                        done = True
                if done:
                    i += 1      # the assignment is dropped; the next statement is emitted by the next round
                    continue
            out.append(s)
            i += 1
        return out

    def _blocks(self, n: ast.AST, loads: Dict[str, int], stores: Dict[str, int]) -> None:
        for x in ast.walk(n):
            for f in ('body', 'orelse', 'finalbody'):
                b = getattr(x, f, None)
                if isinstance(b, list) and b and isinstance(b[0], ast.stmt):
                    setattr(x, f, self._inline_adjacent(b, loads, stores))

    def _function(self, n: ast.AST) -> ast.AST:
        self.generic_visit(n)
        loads: Dict[str, int] = {}
        stores: Dict[str, int] = {}
        for x in ast.walk(n):
            if isinstance(x, ast.Name):
                d = loads if isinstance(x.ctx, ast.Load) else stores
                d[x.id] = d.get(x.id, 0) + 1
            elif isinstance(x, (ast.Global, ast.Nonlocal)):
                for nm in x.names:
                    stores[nm] = stores.get(nm, 0) + 2
        self._blocks(n, loads, stores)
        return n

    def visit_FunctionDef(self, n: ast.FunctionDef) -> ast.AST:
        return self._function(n)

    def visit_AsyncFunctionDef(self, n: ast.AsyncFunctionDef) -> ast.AST:
        return self._function(n)

    def visit_Compare(self, n: ast.Compare) -> ast.AST:
        self.generic_visit(n)
        if len(n.ops) == 1 and type(n.ops[0]) in _FLIP:
            l, r = n.left, n.comparators[0]
            rl, rr = _operand_rank(l), _operand_rank(r)
            if rl > rr or (rl == rr and ast.dump(l) != ast.dump(r) and ast.unparse(l) > ast.unparse(r)):
                return ast.copy_location(ast.Compare(left=r, ops=[_FLIP[type(n.ops[0])]()], comparators=[l]), n)
        return n

    def visit_UnaryOp(self, n: ast.UnaryOp) -> ast.AST:
        self.generic_visit(n)
        if isinstance(n.op, ast.Not) and isinstance(n.operand, ast.Compare) and len(n.operand.ops) == 1 and type(n.operand.ops[0]) in _COMPLEMENT:
            c = n.operand
            return ast.copy_location(ast.Compare(left=c.left, ops=[_COMPLEMENT[type(c.ops[0])]()], comparators=c.comparators), n)
        return n

    def _truth(self, e: ast.AST) -> ast.AST:
        """in a truth-value position bool(E) is E"""
        if isinstance(e, ast.Call) and isinstance(e.func, ast.Name) and e.func.id == 'bool' and len(e.args) == 1 and not e.keywords and not isinstance(e.args[0], ast.Starred):
            return self._truth(e.args[0])
        if isinstance(e, ast.UnaryOp) and isinstance(e.op, ast.Not):
            e.operand = self._truth(e.operand)
            return self.visit_UnaryOp(e) if isinstance(e.operand, ast.Compare) else e
        if isinstance(e, ast.BoolOp):
            e.values = [self._truth(v) for v in e.values]
        return e

    def visit_If(self, n: ast.If) -> ast.AST:
        self.generic_visit(n)
        n.test = self._truth(n.test)
        return n

    def visit_While(self, n: ast.While) -> ast.AST:
        self.generic_visit(n)
        n.test = self._truth(n.test)
        return n

    def visit_IfExp(self, n: ast.IfExp) -> ast.AST:
        self.generic_visit(n)
        n.test = self._truth(n.test)
        if isinstance(n.test, ast.UnaryOp) and isinstance(n.test.op, ast.Not):
            return ast.copy_location(ast.IfExp(test=n.test.operand, body=n.orelse, orelse=n.body), n)
        if isinstance(n.test, ast.Compare) and len(n.test.ops) == 1 and isinstance(n.test.ops[0], (ast.NotEq, ast.IsNot, ast.NotIn)):
            t = ast.copy_location(ast.Compare(left=n.test.left, ops=[_COMPLEMENT[type(n.test.ops[0])]()], comparators=n.test.comparators), n.test)
            return ast.copy_location(ast.IfExp(test=t, body=n.orelse, orelse=n.body), n)
        return n

    def visit_Assign(self, n: ast.Assign) -> ast.AST:
        self.generic_visit(n)
        if len(n.targets) == 1 and isinstance(n.targets[0], ast.Name) and isinstance(n.value, ast.BinOp) and isinstance(n.value.left, ast.Name) and \
                n.value.left.id == n.targets[0].id and isinstance(n.value.right, ast.Constant) and isinstance(n.value.right.value, (int, float)) and \
                not isinstance(n.value.right.value, bool):
            return ast.copy_location(ast.AugAssign(target=n.targets[0], op=n.value.op, value=n.value.right), n)
        return n


class AnalysisError(Exception):
    """The analysis itself could not be carried out (missing anchor, unparseable file,
    construct outside the enumerated idioms).  Reported as ANALYSIS-ERROR / exit 2."""


class Module:
    def __init__(self, name: str, path: str, relpath: str, source: str, tree: ast.Module, is_pkg: bool):
        self.name = name
        self.path = path
        self.relpath = relpath
        self.source = source
        self.tree = tree
        self.is_pkg = is_pkg
        self.digest = hashlib.sha256(source.encode('utf-8')).hexdigest()[:16]
        # name -> ('import', dotted) | ('from', dotted_module, name) | ('def', node) | ('class', node) | ('assign', value_node)
        self.ns: Dict[str, Tuple[Any, ...]] = {}

    @property
    def package(self) -> str:
        return self.name if self.is_pkg else self.name.rpartition('.')[0]


class FuncInfo:
    def __init__(self, module: Module, node: ast.AST, cls: Optional['ClassInfo']):
        self.module = module
        self.node = node
        self.cls = cls
        self.name = node.name  # type: ignore[attr-defined]

    @property
    def qualname(self) -> str:
        if self.cls is not None:
            return '%s.%s' % (self.cls.name, self.name)
        return self.name

    @property
    def key(self) -> str:
        return '%s::%s' % (self.module.relpath, self.qualname)

    @property
    def is_property(self) -> bool:
        for d in self.node.decorator_list:  # type: ignore[attr-defined]
            if isinstance(d, ast.Name) and d.id == 'property':
                return True
        return False

    @property
    def is_static(self) -> bool:
        for d in self.node.decorator_list:  # type: ignore[attr-defined]
            if isinstance(d, ast.Name) and d.id in ('staticmethod',):
                return True
        return False

    @property
    def params(self) -> List[str]:
        a = self.node.args  # type: ignore[attr-defined]
        return [x.arg for x in a.posonlyargs + a.args]

    def __repr__(self) -> str:
        return '<Func %s>' % self.key


class ClassInfo:
    def __init__(self, module: Module, node: ast.ClassDef):
        self.module = module
        self.node = node
        self.name = node.name
        self.methods: Dict[str, FuncInfo] = {}
        self.inlined_methods: Dict[str, FuncInfo] = {}   # helpers analysed as part of their callers (sa/inline.py)
        self.class_attrs: Dict[str, ast.AST] = {}
        # attribute name -> annotation expression (from `self.x: T = ...` in any method or class-level AnnAssign)
        self.attr_ann: Dict[str, ast.AST] = {}
        self.bases: List[Any] = []  # ClassInfo or dotted str (external)
        self.base_exprs: List[ast.AST] = list(node.bases)

    @property
    def qual(self) -> str:
        return '%s.%s' % (self.module.name, self.name)

    def __repr__(self) -> str:
        return '<Class %s>' % self.qual


class Program:
    def __init__(self, root: str, packages: Tuple[str, ...] = ('proxy',), extra_dirs: Tuple[str, ...] = (), inline: bool = True):
        self.root = os.path.abspath(root)
        self.modules: Dict[str, Module] = {}
        self.classes: Dict[str, ClassInfo] = {}
        self.functions: Dict[str, FuncInfo] = {}
        self._by_class_name: Dict[str, List[ClassInfo]] = {}
        for pkg in packages:
            self._load_tree(os.path.join(self.root, pkg), pkg)
        for d in extra_dirs:
            p = os.path.join(self.root, d)
            if os.path.isdir(p):
                self._load_tree(p, d.replace('/', '.'), loose=True)
        if not self.modules:
            raise AnalysisError('no python modules found under %s' % self.root)
        self._index()
        self.inlined_helpers: set = set()
        self.residual_helpers: set = set()  # inlined helpers that are still called somewhere as functions
        self.inline_prefixes: set = set()   # '<helper>_<n>__' prefixes given to inlined helpers' locals
        if inline:
            from .inline import Inliner
            Inliner(self).run()
            from .alias import AliasFolder
            AliasFolder(self).run()

    # ------------------------------------------------------------------ loading
    def _load_tree(self, top: str, pkgname: str, loose: bool = False) -> None:
        if not os.path.isdir(top):
            raise AnalysisError('package directory missing: %s' % top)
        for dirpath, dirnames, filenames in os.walk(top):
            dirnames[:] = sorted(d for d in dirnames if d not in ('__pycache__', 'node_modules', '.git'))
            for fn in sorted(filenames):
                if not fn.endswith('.py'):
                    continue
                path = os.path.join(dirpath, fn)
                rel = os.path.relpath(path, self.root)
                parts = os.path.relpath(path, os.path.dirname(top) if not loose else os.path.dirname(top)).split(os.sep)
                parts[-1] = parts[-1][:-3]
                is_pkg = parts[-1] == '__init__'
                if is_pkg:
                    parts = parts[:-1]
                name = '.'.join(parts)
                try:
                    with open(path, 'r', encoding='utf-8') as f:
                        src = f.read()
                    tree = ast.parse(src, filename=path)
                    tree = ast.fix_missing_locations(_Desugar().visit(_Canon().visit(tree)))
                except (SyntaxError, UnicodeDecodeError, OSError) as e:
                    raise AnalysisError('cannot parse %s: %s' % (rel, e))
                self.modules[name] = Module(name, path, rel, src, tree, is_pkg)

    def _index(self) -> None:
        for m in self.modules.values():
            self._index_module(m)
        for c in self.classes.values():
            c.bases = [self._resolve_base(c.module, b) for b in c.base_exprs]

    def _index_module(self, m: Module) -> None:
        def visit_body(body: List[ast.stmt]) -> None:
            for st in body:
                if isinstance(st, ast.Import):
                    for a in st.names:
                        m.ns[(a.asname or a.name.split('.')[0])] = ('import', a.name if a.asname else a.name.split('.')[0])
                elif isinstance(st, ast.ImportFrom):
                    base = self._abs_module(m, st.module, st.level)
                    for a in st.names:
                        m.ns[a.asname or a.name] = ('from', base, a.name)
                elif isinstance(st, (ast.FunctionDef, ast.AsyncFunctionDef)):
                    m.ns[st.name] = ('def', st)
                    fi = FuncInfo(m, st, None)
                    self.functions['%s:%s' % (m.name, st.name)] = fi
                elif isinstance(st, ast.ClassDef):
                    m.ns[st.name] = ('class', st)
                    self._index_class(m, st)
                elif isinstance(st, ast.Assign):
                    for t in st.targets:
                        if isinstance(t, ast.Name):
                            m.ns[t.id] = ('assign', st.value)
                        elif isinstance(t, ast.Tuple) and isinstance(st.value, ast.Tuple) and len(t.elts) == len(st.value.elts):
                            for te, ve in zip(t.elts, st.value.elts):
                                if isinstance(te, ast.Name):
                                    m.ns[te.id] = ('assign', ve)
                elif isinstance(st, ast.AnnAssign) and isinstance(st.target, ast.Name) and st.value is not None:
                    m.ns[st.target.id] = ('assign', st.value)
                elif isinstance(st, ast.If):
                    # `if TYPE_CHECKING:` / platform guards: index both arms
                    visit_body(st.body)
                    visit_body(st.orelse)
                elif isinstance(st, ast.Try):
                    visit_body(st.body)
                    for h in st.handlers:
                        visit_body(h.body)
        visit_body(m.tree.body)

    def _index_class(self, m: Module, node: ast.ClassDef) -> None:
        ci = ClassInfo(m, node)
        self.classes[ci.qual] = ci
        self._by_class_name.setdefault(ci.name, []).append(ci)
        for st in node.body:
            if isinstance(st, (ast.FunctionDef, ast.AsyncFunctionDef)):
                fi = FuncInfo(m, st, ci)
                # property setter overloads: keep the first (getter)
                if st.name not in ci.methods:
                    ci.methods[st.name] = fi
                    self.functions['%s:%s.%s' % (m.name, ci.name, st.name)] = fi
                for sub in ast.walk(st):
                    if isinstance(sub, ast.AnnAssign) and isinstance(sub.target, ast.Attribute) \
                            and isinstance(sub.target.value, ast.Name) and sub.target.value.id == 'self':
                        ci.attr_ann.setdefault(sub.target.attr, sub.annotation)
            elif isinstance(st, ast.Assign):
                for t in st.targets:
                    if isinstance(t, ast.Name):
                        ci.class_attrs[t.id] = st.value
            elif isinstance(st, ast.AnnAssign) and isinstance(st.target, ast.Name):
                ci.attr_ann.setdefault(st.target.id, st.annotation)
                if st.value is not None:
                    ci.class_attrs[st.target.id] = st.value

    # ------------------------------------------------------------------ names
    def _abs_module(self, m: Module, module: Optional[str], level: int) -> str:
        if level == 0:
            return module or ''
        pkg = m.package.split('.') if m.package else []
        if level > 1:
            pkg = pkg[:len(pkg) - (level - 1)]
        base = '.'.join(pkg)
        if module:
            return (base + '.' + module) if base else module
        return base

    def resolve(self, m: Module, name: str, _depth: int = 0) -> Tuple[Any, ...]:
        """Resolve a bare name used in module m.
        -> ('class', ClassInfo) | ('func', FuncInfo) | ('const', Module, value_node)
           | ('module', dotted) | ('external', dotted) | ('unknown', name)"""
        if _depth > 12:
            return ('unknown', name)
        ent = m.ns.get(name)
        if ent is None:
            return ('unknown', name)
        kind = ent[0]
        if kind == 'class':
            return ('class', self.classes['%s.%s' % (m.name, name)])
        if kind == 'def':
            return ('func', self.functions['%s:%s' % (m.name, name)])
        if kind == 'assign':
            return ('const', m, ent[1])
        if kind == 'import':
            return ('module', ent[1])
        if kind == 'from':
            modname, attr = ent[1], ent[2]
            sub = modname + '.' + attr
            if sub in self.modules:
                return ('module', sub)
            tm = self.modules.get(modname)
            if tm is None:
                return ('external', sub)
            r = self.resolve(tm, attr, _depth + 1)
            if r[0] == 'unknown':
                return ('external', sub)
            return r
        return ('unknown', name)

    def resolve_expr(self, m: Module, e: ast.AST) -> Tuple[Any, ...]:
        """Resolve Name / dotted Attribute expression at module scope."""
        if isinstance(e, ast.Name):
            return self.resolve(m, e.id)
        if isinstance(e, ast.Attribute):
            base = self.resolve_expr(m, e.value)
            if base[0] == 'module':
                dotted = base[1]
                tm = self.modules.get(dotted)
                if tm is not None:
                    return self.resolve(tm, e.attr)
                sub = dotted + '.' + e.attr
                if sub in self.modules:
                    return ('module', sub)
                return ('external', sub)
            if base[0] == 'external':
                return ('external', base[1] + '.' + e.attr)
            if base[0] == 'class':
                ci = base[1]
                fi = self.lookup_method(ci, e.attr)
                if fi is not None:
                    return ('func', fi)
                v = self.lookup_class_attr(ci, e.attr)
                if v is not None:
                    return ('const', v[0].module, v[1])
            if base[0] == 'const':
                # attribute of a module-level constant (NamedTuple instance etc.)
                return ('constattr', base[1], base[2], e.attr)
        if isinstance(e, ast.Subscript):
            # Generic[T] style subscripted base: Work[T] -> Work
            return self.resolve_expr(m, e.value)
        if isinstance(e, ast.Constant) and isinstance(e.value, str):
            # string annotation
            try:
                return self.resolve_expr(m, ast.parse(e.value, mode='eval').body)
            except SyntaxError:
                pass
        return ('unknown', ast.dump(e)[:60])

    def _resolve_base(self, m: Module, b: ast.AST) -> Any:
        r = self.resolve_expr(m, b)
        if r[0] == 'class':
            return r[1]
        if r[0] in ('external', 'module'):
            return r[1]
        if isinstance(b, ast.Name):
            return b.id
        return ast.unparse(b)

    # ------------------------------------------------------------------ classes
    def mro(self, ci: ClassInfo) -> List[ClassInfo]:
        """Linearisation good enough for lookup: depth-first left-to-right with later
        duplicates removed (C3 result coincides for the hierarchies in this repository)."""
        out: List[ClassInfo] = []
        def rec(c: ClassInfo) -> None:
            if c in out:
                out.remove(c)
            out.append(c)
            for b in c.bases:
                if isinstance(b, ClassInfo):
                    rec(b)
        rec(ci)
        # a base shared by several parents must come after all of them: the remove/append above does that
        return out

    def lookup_method(self, ci: ClassInfo, name: str) -> Optional[FuncInfo]:
        for c in self.mro(ci):
            if name in c.methods:
                return c.methods[name]
            if name in c.inlined_methods:
                return c.inlined_methods[name]
        return None

    def lookup_class_attr(self, ci: ClassInfo, name: str) -> Optional[Tuple[ClassInfo, ast.AST]]:
        for c in self.mro(ci):
            if name in c.class_attrs:
                return (c, c.class_attrs[name])
        return None

    def attr_annotation(self, ci: ClassInfo, name: str) -> Optional[Tuple[ClassInfo, ast.AST]]:
        for c in self.mro(ci):
            if name in c.attr_ann:
                return (c, c.attr_ann[name])
        return None

    def subclasses(self, ci: ClassInfo, strict: bool = True) -> List[ClassInfo]:
        out = []
        for c in self.classes.values():
            if c is ci and strict:
                continue
            if ci in self.mro(c):
                out.append(c)
        return out

    def is_subclass(self, c: ClassInfo, base: ClassInfo) -> bool:
        return base in self.mro(c)

    def external_bases(self, ci: ClassInfo) -> List[str]:
        out = []
        for c in self.mro(ci):
            for b in c.bases:
                if not isinstance(b, ClassInfo):
                    out.append(str(b))
        return out

    def class_named(self, name: str) -> ClassInfo:
        """Unique class by simple name or dotted qual; AnalysisError when missing/ambiguous."""
        if name in self.classes:
            return self.classes[name]
        cands = self._by_class_name.get(name, [])
        cands = [c for c in cands if c.module.name.startswith('proxy.') or c.module.name == 'proxy']
        if len(cands) == 1:
            return cands[0]
        if not cands:
            raise AnalysisError('anchor class %s not found' % name)
        raise AnalysisError('anchor class %s ambiguous: %s' % (name, [c.qual for c in cands]))

    def method(self, cls: str, name: str) -> FuncInfo:
        ci = self.class_named(cls)
        fi = self.lookup_method(ci, name)
        if fi is None:
            raise AnalysisError('anchor method %s.%s not found' % (cls, name))
        return fi

    def own_method(self, cls: str, name: str) -> FuncInfo:
        ci = self.class_named(cls)
        if name not in ci.methods:
            raise AnalysisError('anchor method %s.%s not defined in the class itself' % (cls, name))
        return ci.methods[name]

    def function(self, module: str, name: str) -> FuncInfo:
        k = '%s:%s' % (module, name)
        if k not in self.functions:
            raise AnalysisError('anchor function %s not found' % k)
        return self.functions[k]

    def module(self, name: str) -> Module:
        if name not in self.modules:
            raise AnalysisError('anchor module %s not found' % name)
        return self.modules[name]

    def all_functions(self, prefix: str = 'proxy', include_inlined: Any = False) -> Iterator[FuncInfo]:
        """functions of the program; helpers whose bodies were inlined into their callers (sa/inline.py) are skipped
        unless asked for, because their statements are analysed as part of the callers; include_inlined='residual' adds only those
        helpers that are still called as functions somewhere (a call the inliner could not expand)"""
        for k, f in self.functions.items():
            if f.module.name == prefix or f.module.name.startswith(prefix + '.'):
                if not include_inlined and f.key in self.inlined_helpers:
                    continue
                if include_inlined == 'residual' and f.key in self.inlined_helpers and f.key not in self.residual_helpers:
                    continue
                yield f

    # ------------------------------------------------------------------ typing of simple receivers
    def annotation_class(self, m: Module, ann: Optional[ast.AST]) -> Optional[ClassInfo]:
        """Class named by an annotation after unwrapping Optional[...] / quotes / Generic subscripts."""
        if ann is None:
            return None
        if isinstance(ann, ast.Constant) and isinstance(ann.value, str):
            try:
                ann = ast.parse(ann.value, mode='eval').body
            except SyntaxError:
                return None
        if isinstance(ann, ast.Subscript):
            head = ann.value
            hn = head.id if isinstance(head, ast.Name) else (head.attr if isinstance(head, ast.Attribute) else None)
            if hn in ('Optional', 'Type'):
                return self.annotation_class(m, ann.slice)
            if hn == 'Union':
                elts = ann.slice.elts if isinstance(ann.slice, ast.Tuple) else [ann.slice]
                cands = [self.annotation_class(m, e) for e in elts]
                cands = [c for c in cands if c is not None]
                return cands[0] if len(cands) == 1 else None
            return self.annotation_class(m, head)
        r = self.resolve_expr(m, ann)
        if r[0] == 'class':
            return r[1]
        return None


def func_key(f: FuncInfo) -> str:
    return f.key


def norm(node: ast.AST) -> str:
    """Normalised source of a node: stable across reformatting, comments and line moves."""
    try:
        return ' '.join(ast.unparse(node).split())
    except Exception:  # pragma: no cover
        return ast.dump(node)[:120]


def walk_no_nested(node: ast.AST) -> Iterator[ast.AST]:
    """ast.walk that does not descend into nested function / class / lambda bodies."""
    todo = [node]
    first = True
    while todo:
        n = todo.pop()
        if not first and isinstance(n, (ast.FunctionDef, ast.AsyncFunctionDef, ast.ClassDef, ast.Lambda)):
            continue
        first = False
        yield n
        todo.extend(ast.iter_child_nodes(n))


def calls_in(node: ast.AST) -> List[ast.Call]:
    return [n for n in walk_no_nested(node) if isinstance(n, ast.Call)]


def attr_chain(e: ast.AST) -> Optional[str]:
    """'self.work.buffer' for an Attribute/Name chain, else None."""
    parts = []
    while isinstance(e, ast.Attribute):
        parts.append(e.attr)
        e = e.value
    if isinstance(e, ast.Name):
        parts.append(e.id)
        return '.'.join(reversed(parts))
    return None


def call_name(c: ast.Call) -> Optional[str]:
    return attr_chain(c.func)
