"""E5 -- path-sensitive symbolic values: along one CFG path, an expression is rewritten by
substituting every local name with the expression last assigned to it on that path
(copies, tuple unpacking, augmented assignment, loop targets, with/except bindings).
Rules then match on the *inlined* expression, so renaming locals, splitting or merging
expressions and extracting temporaries do not change the verdict."""
import ast
import copy
from typing import Any, Dict, Iterator, List, Optional, Tuple

from .cfg import Path, Node
from .model import norm, attr_chain, walk_no_nested


def _mk_call(name: str, *args: ast.AST) -> ast.Call:
    return ast.Call(func=ast.Name(id=name, ctx=ast.Load()), args=list(args), keywords=[])


def _bind(target: ast.AST, value: ast.AST, out: Dict[str, ast.AST]) -> None:
    if isinstance(target, ast.Name):
        out[target.id] = value
    elif isinstance(target, (ast.Tuple, ast.List)):
        if isinstance(value, (ast.Tuple, ast.List)) and len(value.elts) == len(target.elts) \
                and not any(isinstance(e, ast.Starred) for e in target.elts):
            for t, v in zip(target.elts, value.elts):
                _bind(t, v, out)
        else:
            for i, t in enumerate(target.elts):
                if isinstance(t, ast.Starred):
                    _bind(t.value, _mk_call('__rest__', value), out)
                else:
                    _bind(t, ast.Subscript(value=value, slice=ast.Constant(value=i), ctx=ast.Load()), out)


def defs_of_step(node: Node, label: Any) -> Dict[str, ast.AST]:
    """Local names (re)bound by executing this CFG node (completed execution only)."""
    out: Dict[str, ast.AST] = {}
    if label == 'exc':
        return out
    a = node.ast
    if node.kind == 'stmt':
        if isinstance(a, ast.Assign):
            for t in a.targets:
                _bind(t, a.value, out)
        elif isinstance(a, ast.AnnAssign) and a.value is not None:
            _bind(a.target, a.value, out)
        elif isinstance(a, ast.AugAssign) and isinstance(a.target, ast.Name):
            out[a.target.id] = ast.BinOp(left=ast.Name(id=a.target.id, ctx=ast.Load()), op=a.op, right=a.value)
        elif isinstance(a, (ast.Import, ast.ImportFrom)):
            pass
    elif node.kind == 'for' and label == 'iter':
        _bind(a.target, _mk_call('__iter__', a.iter), out)  # type: ignore[union-attr]
    elif node.kind == 'with':
        for it in a.items:  # type: ignore[union-attr]
            if it.optional_vars is not None:
                _bind(it.optional_vars, _mk_call('__enter__', it.context_expr), out)
    elif node.kind == 'handler':
        if a.name:  # type: ignore[union-attr]
            out[a.name] = _mk_call('__exc__', a.type if a.type is not None else ast.Constant(value=None))  # type: ignore[union-attr]
    # walrus inside tests / statements
    if a is not None and node.kind in ('stmt', 'test'):
        for n in walk_no_nested(a):
            if isinstance(n, ast.NamedExpr) and isinstance(n.target, ast.Name):
                out[n.target.id] = n.value
    return out


class _Subst(ast.NodeTransformer):
    def __init__(self, sym: 'Sym', idx: int, depth: int):
        self.sym, self.idx, self.depth = sym, idx, depth

    def visit_Name(self, n: ast.Name) -> ast.AST:
        if isinstance(n.ctx, ast.Load):
            d = self.sym.last_def(n.id, self.idx)
            if d is not None and self.depth > 0:
                didx, val = d
                # AugAssign self-reference: x += y is BinOp(Name x, ..) evaluated before didx
                return self.sym.value(val, didx, self.depth - 1)
        return n

    def visit_Lambda(self, n: ast.Lambda) -> ast.AST:
        return n

    def visit_BoolOp(self, n: ast.BoolOp) -> ast.AST:
        # a flag whose value is known on this path: `True and X` is X, `False and X` is False, `False or X` is X, `True or X` is True
        n = self.generic_visit(n)   # type: ignore[assignment]
        is_and = isinstance(n.op, ast.And)
        vals: List[ast.AST] = []
        for k, v in enumerate(n.values):
            last = k == len(n.values) - 1
            if isinstance(v, ast.Constant) and isinstance(v.value, bool):
                if v.value is is_and and not last:
                    continue            # neutral element in a non-final position
                if v.value is not is_and:
                    vals.append(v)      # absorbing element: nothing after it is evaluated
                    break
            vals.append(v)
        if len(vals) == 1:
            return vals[0]
        n.values = vals
        return n

    def visit_UnaryOp(self, n: ast.UnaryOp) -> ast.AST:
        n = self.generic_visit(n)   # type: ignore[assignment]
        if isinstance(n.op, ast.Not) and isinstance(n.operand, ast.Constant) and isinstance(n.operand.value, bool):
            return ast.copy_location(ast.Constant(value=not n.operand.value), n)
        return n

    def visit_Subscript(self, n: ast.Subscript) -> ast.AST:
        n = self.generic_visit(n)   # type: ignore[assignment]
        # (a, b, c)[1] -> b : arises from `x, y, z = helper()` once helper's returned tuple is inlined
        v, sl = n.value, n.slice
        if isinstance(n.ctx, ast.Load) and isinstance(v, (ast.Tuple, ast.List)) and not any(isinstance(e, ast.Starred) for e in v.elts) \
                and isinstance(sl, ast.Constant) and isinstance(sl.value, int) and not isinstance(sl.value, bool) and -len(v.elts) <= sl.value < len(v.elts):
            return v.elts[sl.value]
        return n

    def visit_ListComp(self, n: ast.ListComp) -> ast.AST:
        return self._comp(n)

    def visit_SetComp(self, n: ast.SetComp) -> ast.AST:
        return self._comp(n)

    def visit_DictComp(self, n: ast.DictComp) -> ast.AST:
        return self._comp(n)

    def visit_GeneratorExp(self, n: ast.GeneratorExp) -> ast.AST:
        return self._comp(n)

    def _comp(self, n: Any) -> ast.AST:
        # names bound by the comprehension shadow locals: they are left alone, every other local is substituted
        bound = {x.id for g in n.generators for x in ast.walk(g.target) if isinstance(x, ast.Name)}
        outer = self

        class _Inner(_Subst):
            def visit_Name(self, m: ast.Name) -> ast.AST:   # type: ignore[override]
                if m.id in bound:
                    return m
                return outer.visit_Name(m)
        inner = _Inner(self.sym, self.idx, self.depth)
        n.generators[0].iter = self.visit(n.generators[0].iter)
        for gi, g in enumerate(n.generators):
            if gi > 0:
                g.iter = inner.visit(g.iter)
            g.ifs = [inner.visit(c) for c in g.ifs]
        for fld in ('elt', 'key', 'value'):
            if hasattr(n, fld):
                setattr(n, fld, inner.visit(getattr(n, fld)))
        return n


class Sym:
    """Symbolic view of one path."""

    def __init__(self, path: Path, item_stores: bool = False):
        """item_stores=True also models `x[i] = v` on a local x as a new definition `__updated__(x, i, v)`, so that a value
        read out of x afterwards is not mistaken for what x held before the store"""
        self.path = path
        self.defs: List[Tuple[int, Dict[str, ast.AST]]] = []
        for idx, (nid, lab) in enumerate(path.steps):
            node = path.cfg.nodes[nid]
            d = defs_of_step(node, lab)
            if item_stores and node.kind == 'stmt' and lab != 'exc' and isinstance(node.ast, (ast.Assign, ast.AugAssign)):
                tgs = node.ast.targets if isinstance(node.ast, ast.Assign) else [node.ast.target]
                for t in tgs:
                    if isinstance(t, ast.Subscript) and isinstance(t.value, ast.Name):
                        d = dict(d)
                        d[t.value.id] = ast.Call(func=ast.Name(id='__updated__', ctx=ast.Load()),
                                                 args=[ast.Name(id=t.value.id, ctx=ast.Load()), t.slice, node.ast.value], keywords=[])
            if d:
                self.defs.append((idx, d))

    def last_def(self, name: str, before_idx: int) -> Optional[Tuple[int, ast.AST]]:
        for idx, d in reversed(self.defs):
            if idx < before_idx and name in d:
                return idx, d[name]
        return None

    def value(self, expr: ast.AST, at_idx: int, depth: int = 8) -> ast.AST:
        """expr as evaluated just before step at_idx, with locals inlined."""
        e = copy.deepcopy(expr)
        return ast.fix_missing_locations(_Subst(self, at_idx, depth).visit(e))

    def text(self, expr: ast.AST, at_idx: int, depth: int = 8) -> str:
        return norm(self.value(expr, at_idx, depth))

    def attr_store(self, chain: str, before_idx: int) -> Optional[Tuple[int, ast.AST]]:
        """(step index, inlined value) of the last plain assignment `chain = value` before before_idx on this path"""
        found = None
        for idx, (nid, lab) in enumerate(self.path.steps):
            if idx >= before_idx:
                break
            n = self.path.cfg.nodes[nid]
            if n.kind != 'stmt' or lab == 'exc':
                continue
            a = n.ast
            if isinstance(a, ast.Assign):
                for t in a.targets:
                    if attr_chain(t) == chain:
                        found = (idx, a.value)
                    elif isinstance(t, (ast.Tuple, ast.List)) and isinstance(a.value, (ast.Tuple, ast.List)) and len(t.elts) == len(a.value.elts):
                        for te, ve in zip(t.elts, a.value.elts):
                            if attr_chain(te) == chain:
                                found = (idx, ve)
            elif isinstance(a, ast.AnnAssign) and a.value is not None and attr_chain(a.target) == chain:
                found = (idx, a.value)
        if found is None:
            return None
        return found[0], self.value(found[1], found[0])


def strip_wrappers(e: ast.AST, wrappers: Tuple[str, ...] = ('memoryview', 'bytes', 'bytearray', 'text_', 'bytes_', 'cast')) -> ast.AST:
    """Peel value-preserving wrappers: memoryview(x), bytes(x), x.tobytes(), text_(x), cast(T, x)."""
    while True:
        if isinstance(e, ast.Call):
            fn = attr_chain(e.func)
            if fn and fn.split('.')[-1] in wrappers and e.args:
                e = e.args[-1] if fn.split('.')[-1] == 'cast' else e.args[0]
                continue
            if isinstance(e.func, ast.Attribute) and e.func.attr in ('tobytes',) and not e.args:
                e = e.func.value
                continue
        if isinstance(e, ast.Await):
            e = e.value
            continue
        return e


def is_call_to(n: ast.AST, recv: Optional[str], meth: str) -> bool:
    """n is `recv.meth(...)` (recv given as dotted chain, None = any receiver)."""
    if not isinstance(n, ast.Call):
        return False
    f = n.func
    if isinstance(f, ast.Attribute) and f.attr == meth:
        if recv is None:
            return True
        return attr_chain(f.value) == recv
    if recv == '' and isinstance(f, ast.Name) and f.id == meth:
        return True
    return False


def find_calls(node: ast.AST, recv: Optional[str], meth: str) -> List[ast.Call]:
    return [n for n in walk_no_nested(node) if is_call_to(n, recv, meth)]  # type: ignore[misc]


MUTATORS = ('append', 'extend', 'insert', 'pop', 'remove', 'clear', 'sort', 'reverse', 'update',
            'add', 'discard', 'popitem', 'setdefault', '__setitem__', '__delitem__', 'appendleft', 'popleft')


def attr_effects(stmt: ast.AST) -> Iterator[Tuple[str, str, ast.AST]]:
    """(attribute chain, kind, node) for every store / in-place mutation in a statement:
    kind in 'store' (x.a = ..), 'augstore' (x.a += ..), 'item' (x.a[i] = ..), 'delitem' (del x.a[i]),
    'del' (del x.a), 'call:<mutator>' (x.a.append(..))."""
    for n in walk_no_nested(stmt):
        if isinstance(n, ast.Assign):
            targets: List[ast.AST] = []
            for t in n.targets:
                targets.extend(t.elts if isinstance(t, (ast.Tuple, ast.List)) else [t])
            for t in targets:
                yield from _target_effect(t, 'store', n)
        elif isinstance(n, ast.AnnAssign) and n.value is not None:
            yield from _target_effect(n.target, 'store', n)
        elif isinstance(n, ast.AugAssign):
            yield from _target_effect(n.target, 'augstore', n)
        elif isinstance(n, ast.Delete):
            for t in n.targets:
                if isinstance(t, ast.Subscript):
                    ch = attr_chain(t.value)
                    if ch:
                        yield ch, 'delitem', n
                else:
                    ch = attr_chain(t)
                    if ch and '.' in ch:
                        yield ch, 'del', n
        elif isinstance(n, ast.Call) and isinstance(n.func, ast.Attribute) and n.func.attr in MUTATORS:
            ch = attr_chain(n.func.value)
            if ch:
                yield ch, 'call:' + n.func.attr, n


def _target_effect(t: ast.AST, kind: str, n: ast.AST) -> Iterator[Tuple[str, str, ast.AST]]:
    if isinstance(t, ast.Attribute):
        ch = attr_chain(t)
        if ch:
            yield ch, kind, n
    elif isinstance(t, ast.Subscript):
        ch = attr_chain(t.value)
        if ch:
            yield ch, 'item' if kind == 'store' else 'augitem', n
    elif isinstance(t, ast.Starred):
        yield from _target_effect(t.value, kind, n)


def enclosing_handlers(func_node: ast.AST, target: ast.AST) -> List[Tuple[ast.Try, bool]]:
    """Try statements lexically enclosing `target` inside func_node, innermost first,
    with a flag telling whether target lies in the try *body* (True) or elsewhere (handler/else/finally)."""
    out: List[Tuple[ast.Try, bool]] = []

    def rec(n: ast.AST, stack: List[Tuple[ast.Try, bool]]) -> bool:
        if n is target:
            out.extend(reversed(stack))
            return True
        if isinstance(n, (ast.FunctionDef, ast.AsyncFunctionDef, ast.ClassDef, ast.Lambda)) and n is not func_node:
            return False
        if isinstance(n, ast.Try):
            for part, in_body in ((n.body, True), (n.handlers, False), (n.orelse, False), (n.finalbody, False)):
                for c in part:
                    if rec(c, stack + [(n, in_body)]):
                        return True
            return False
        for c in ast.iter_child_nodes(n):
            if rec(c, stack):
                return True
        return False
    rec(func_node, [])
    return out


class Lin:
    """Linear form over +/-: constant plus a multiset of symbolic terms (by normalised text)."""

    def __init__(self, const: int = 0, terms: Optional[Dict[str, int]] = None):
        self.const = const
        self.terms = {k: v for k, v in (terms or {}).items() if v != 0}

    def __eq__(self, o: object) -> bool:
        return isinstance(o, Lin) and self.const == o.const and self.terms == o.terms

    def __add__(self, o: 'Lin') -> 'Lin':
        t = dict(self.terms)
        for k, v in o.terms.items():
            t[k] = t.get(k, 0) + v
        return Lin(self.const + o.const, t)

    def __neg__(self) -> 'Lin':
        return Lin(-self.const, {k: -v for k, v in self.terms.items()})

    def __sub__(self, o: 'Lin') -> 'Lin':
        return self + (-o)

    def __repr__(self) -> str:
        parts = ['%s%s' % ('' if v == 1 else '%d*' % v, k) for k, v in sorted(self.terms.items())]
        if self.const or not parts:
            parts.append(str(self.const))
        return ' + '.join(parts)


def linform(e: Optional[ast.AST], const_eval: Any = None) -> Lin:
    if e is None:
        return Lin(0)
    if isinstance(e, ast.Constant) and isinstance(e.value, int) and not isinstance(e.value, bool):
        return Lin(e.value)
    if isinstance(e, ast.BinOp) and isinstance(e.op, ast.Add):
        return linform(e.left, const_eval) + linform(e.right, const_eval)
    if isinstance(e, ast.BinOp) and isinstance(e.op, ast.Sub):
        return linform(e.left, const_eval) - linform(e.right, const_eval)
    if isinstance(e, ast.UnaryOp) and isinstance(e.op, ast.USub):
        return -linform(e.operand, const_eval)
    if const_eval is not None:
        v = const_eval(e)
        if isinstance(v, int) and not isinstance(v, bool):
            return Lin(v)
    return Lin(0, {norm(e): 1})


# ----------------------------------------------------------------------------------------
# Path feasibility: drop paths that pass the same pure test twice with different outcomes
# while nothing in between could have changed its operands.
PURE_CALLS = ('len', 'isinstance', 'bool', 'int', 'str', 'bytes', 'text_', 'bytes_', 'has_buffer', 'has_header',
              'header', 'lower', 'upper', 'strip', 'is_set', 'fileno', 'startswith', 'endswith', 'get', 'keys', 'values',
              'is_reusable', 'is_inactive', 'tls_interception_enabled')


def _atom_pure(e: ast.AST) -> bool:
    for n in ast.walk(e):
        if isinstance(n, (ast.Await, ast.Yield, ast.YieldFrom, ast.NamedExpr)):
            return False
        if isinstance(n, ast.Call):
            fn = attr_chain(n.func)
            last = fn.split('.')[-1] if fn else None
            if last is None or not (last in PURE_CALLS or last.startswith('is_') or last.startswith('has_')):
                return False
    return True


def _chains_in(e: ast.AST) -> List[str]:
    """maximal Name/Attribute chains read by e"""
    out: List[str] = []

    def rec(n: ast.AST) -> None:
        if isinstance(n, (ast.Attribute, ast.Name)):
            c = attr_chain(n)
            if c:
                out.append(c)
                return
        for ch_ in ast.iter_child_nodes(n):
            rec(ch_)
    rec(e)
    return out


def _kills(node: Node, label: Any) -> Tuple[List[str], bool]:
    """(chains possibly modified by executing the node, kills_everything)"""
    a = node.ast
    if a is None:
        return [], False
    killed: List[str] = []
    if node.kind in ('stmt', 'test', 'with', 'for'):
        for d in defs_of_step(node, label if label != 'exc' else None):
            killed.append(d)
        root = a
        if node.kind == 'for':
            root = a.iter if label != 'iter' else a  # type: ignore[union-attr]
        if node.kind == 'with':
            root = ast.Module(body=[ast.Expr(value=it.context_expr) for it in a.items], type_ignores=[])  # type: ignore[union-attr]
        for chain, kind, _ in attr_effects(root):
            killed.append(chain)
        for n in walk_no_nested(root):
            if isinstance(n, ast.Call):
                fn = attr_chain(n.func)
                last = fn.split('.')[-1] if fn else None
                if last is not None and (last in PURE_CALLS or last.startswith('is_') or last.startswith('has_')):
                    continue
                if isinstance(n.func, ast.Attribute):
                    recv = attr_chain(n.func.value)
                    if recv:
                        killed.append(recv)
                    else:
                        return killed, True
                for arg in list(n.args) + [k.value for k in n.keywords]:
                    c = attr_chain(arg)
                    if c:
                        killed.append(c)
            if isinstance(n, ast.Await):
                # another coroutine may run: object state reachable from self may change
                killed.append('self')
    return killed, False


def _const_test(e: ast.AST, consts: Dict[str, Any]) -> Optional[bool]:
    """truth value of a test over locals with known constant values, else None"""
    if isinstance(e, ast.Name) and e.id in consts:
        return bool(consts[e.id])
    if isinstance(e, ast.Compare) and len(e.ops) == 1 and isinstance(e.left, ast.Name) and e.left.id in consts \
            and isinstance(e.comparators[0], ast.Constant):
        a, b = consts[e.left.id], e.comparators[0].value
        op = e.ops[0]
        if isinstance(op, ast.Is):
            return a is b
        if isinstance(op, ast.IsNot):
            return a is not b
        if isinstance(op, ast.Eq):
            return a == b
        if isinstance(op, ast.NotEq):
            return a != b
    return None


def _step_info(cfg: Any, nid: int, lab: Any) -> Tuple[Any, ...]:
    """memoised per (node, label): (atom key, polarity, pure?, chains, defs, killed, kills_everything)"""
    memo = cfg.__dict__.setdefault('_fmemo', {})
    k = (nid, lab)
    if k in memo:
        return memo[k]
    from .cfg import atom_key
    node = cfg.nodes[nid]
    key = pol = None
    pure = False
    chains: List[str] = []
    if node.kind == 'test' and lab in (True, False):
        key, pol = atom_key(node.ast, lab)
        pure = _atom_pure(node.ast)
        chains = _chains_in(node.ast)
    defs = defs_of_step(node, lab)
    killed, everything = _kills(node, lab)
    memo[k] = (key, pol, pure, chains, defs, killed, everything)
    return memo[k]


def feasible(path: Path) -> bool:
    known: Dict[str, Tuple[bool, List[str]]] = {}
    consts: Dict[str, Any] = {}
    cfg = path.cfg
    for nid, lab in path.steps:
        key, pol, pure, chains, defs, killed, everything = _step_info(cfg, nid, lab)
        if key is not None:
            if consts:
                cv = _const_test(cfg.nodes[nid].ast, consts)
                if cv is not None and cv != lab:
                    return False
            if pure:
                if key in known and known[key][0] != pol:
                    return False
                # truthiness and None-ness of the same expression: X true => `X is None` false; `X is None` true => X false
                if key.endswith(' is None'):
                    base = key[:-len(' is None')]
                    if pol is True and base in known and known[base][0] is True:
                        return False
                elif pol is True:
                    k2 = key + ' is None'
                    if k2 in known and known[k2][0] is True:
                        return False
                known[key] = (pol, chains)
        for name, val in defs.items():
            if isinstance(val, ast.Constant):
                consts[name] = val.value
            elif isinstance(val, ast.Name) and val.id in consts and val.id not in defs:
                consts[name] = consts[val.id]
            else:
                consts.pop(name, None)
        if everything:
            known.clear()
            continue
        if killed and known:
            for k in list(known):
                kchains = known[k][1]
                for kc in killed:
                    if any(c == kc or c.startswith(kc + '.') or kc.startswith(c + '.') for c in kchains):
                        del known[k]
                        break
    return True


def fpaths(cfg: Any, **kw: Any) -> Iterator[Path]:
    """Feasible paths of a CFG (see feasible())."""
    for p in cfg.paths(**kw):
        if feasible(p):
            yield p


def _implied(e: ast.AST, pol: bool, out: Dict[str, bool]) -> None:
    """record the fact `e is pol` and what it implies when e (after inlining a named boolean) is a not/and/or/bool() term:
    (A and B) true => A, B true; (A or B) false => A, B false; not A => A with the other polarity"""
    from .cfg import atom_key
    if isinstance(e, ast.UnaryOp) and isinstance(e.op, ast.Not):
        _implied(e.operand, not pol, out)
        return
    if isinstance(e, ast.Call) and isinstance(e.func, ast.Name) and e.func.id == 'bool' and len(e.args) == 1 and not e.keywords:
        _implied(e.args[0], pol, out)
        return
    k, p2 = atom_key(e, pol)
    out[k] = p2
    if isinstance(e, ast.BoolOp):
        if (isinstance(e.op, ast.And) and pol) or (isinstance(e.op, ast.Or) and not pol):
            for v in e.values:
                _implied(v, pol, out)
        else:
            out.setdefault('\0pending', []).append((e, pol))   # type: ignore[arg-type]


def _unit_propagate(out: Dict[str, Any]) -> None:
    """(A and B) false with A known true => B false; (A or B) true with A known false => B true"""
    from .cfg import atom_key
    pend = out.pop('\0pending', [])
    changed = True
    while changed and pend:
        changed = False
        for e, pol in list(pend):
            want_known = isinstance(e.op, ast.And)      # And false: the others must be known True; Or true: the others known False
            unknown = []
            decided = False
            for v in e.values:
                probe: Dict[str, Any] = {}
                _implied(v, True, probe)
                probe.pop('\0pending', None)
                # value of v under the facts: use its own atom key
                kk, pp = atom_key(v if not (isinstance(v, ast.UnaryOp) and isinstance(v.op, ast.Not)) else v.operand, True)
                val = out.get(kk)
                if val is not None and isinstance(v, ast.UnaryOp) and isinstance(v.op, ast.Not):
                    val = not val
                if val is not None and pp is False:
                    val = not val
                if val is None:
                    unknown.append(v)
                elif val != want_known:
                    decided = True     # And has a false conjunct / Or has a true disjunct: nothing to learn
            if decided:
                pend.remove((e, pol))
                continue
            if len(unknown) == 1:
                tmp: Dict[str, Any] = {}
                _implied(unknown[0], not want_known, tmp)
                more = tmp.pop('\0pending', [])
                for a, b in tmp.items():
                    if a not in out:
                        out[a] = b
                        changed = True
                pend.remove((e, pol))
                pend.extend(more)


def allfacts(path: Path, upto: Optional[int] = None) -> Dict[str, bool]:
    """{atom text: polarity} for the tests passed on the path (before step `upto`), under BOTH spellings: as written and
    with locals inlined (so `idle = self.f(); if idle > t` also yields the fact `self.f() > t`).  Later tests win."""
    from .cfg import atom_key
    cache = path.__dict__.setdefault('_allfacts', {})
    if upto in cache:
        return cache[upto]
    sym = path.__dict__.get('_sym')
    if sym is None:
        sym = Sym(path)
        path.__dict__['_sym'] = sym
    out: Dict[str, bool] = {}
    for idx, (nid, lab) in enumerate(path.steps):
        if upto is not None and idx >= upto:
            break
        n = path.cfg.nodes[nid]
        if n.kind == 'test' and lab in (True, False):
            k, pol = atom_key(n.ast, lab)  # type: ignore[arg-type]
            out[k] = pol
            try:
                _implied(sym.value(n.ast, idx), lab, out)  # type: ignore[arg-type]
            except Exception:
                pass
    _unit_propagate(out)
    cache[upto] = out
    return out
