"""Semantics-preserving inlining of small same-class helper methods into their callers, applied to the
parsed trees at load time (nothing is written to disk, nothing is executed).

Why: the rules anchor on the functions the properties name (flush, handle_events, _cleanup, ...).  A
maintainer who extracts part of such a function into a new private helper has not changed behaviour,
and a rule that only looks at the anchored function's own statements would either lose sight of the
moved code or report it missing.  Inlining puts the helper's statements back where the call was, so
every rule sees the same paths, facts and effects before and after an extract-method refactoring.

What is inlined: a call `self.h(...)`, `Cls.h(...)` (static) or `await self.h(...)` where
  * h resolves through the MRO of the caller's class to a method defined in proxy/**,
  * h's name is not one of the ANCHOR names the rule sets themselves look up or match (those stay calls,
    because rules reason about them explicitly),
  * no subclass overrides h, h is not a property / classmethod / generator, takes no *args/**kwargs,
  * every `return` of h is in if/else-structured position (not inside a loop, try or with), so that
    returns can be turned into assignments of a result variable without changing control flow,
  * the call is evaluated unconditionally in its statement (not under and/or/if-else/lambda/comprehension).
Locals and parameters of h are renamed `h__name`; `self` stays `self`.  Depth <= 3, no recursion.
"""
import ast
import copy
import os
import re
from typing import Any, Dict, List, Optional, Set, Tuple

_HERE = os.path.dirname(os.path.abspath(__file__))


def _anchor_names() -> Set[str]:
    """names that are never inlined: the vocabulary of function/method names the rule sets were written against
    (sa/vocabulary.json, frozen by tools/gen_vocabulary.py).  A helper with a name outside this vocabulary was
    introduced later and is treated as an implementation detail of its callers."""
    import json
    with open(os.path.join(_HERE, 'vocabulary.json')) as f:
        return set(json.load(f)['names'])


ANCHORS = _anchor_names()


class NotInlinable(Exception):
    pass


def _returns_structured(stmts: List[ast.stmt]) -> bool:
    """every Return is reachable only through If nesting (not inside loops / try / with)"""
    for s in stmts:
        if isinstance(s, (ast.For, ast.AsyncFor, ast.While, ast.Try, ast.With, ast.AsyncWith)):
            for n in ast.walk(s):
                if isinstance(n, ast.Return):
                    return False
                if isinstance(n, (ast.FunctionDef, ast.AsyncFunctionDef, ast.Lambda)):
                    pass
        elif isinstance(s, ast.If):
            if not _returns_structured(s.body) or not _returns_structured(s.orelse):
                return False
    return True


def _may_return(stmts: List[ast.stmt]) -> bool:
    return any(isinstance(n, ast.Return) for s in stmts for n in ast.walk(s))


def _always_returns(stmts: List[ast.stmt]) -> bool:
    for s in stmts:
        if isinstance(s, (ast.Return, ast.Raise)):
            return True
        if isinstance(s, ast.If) and s.orelse and _always_returns(s.body) and _always_returns(s.orelse):
            return True
    return False


def _to_assign(stmts: List[ast.stmt], res: Optional[str]) -> List[ast.stmt]:
    """turn `return v` into `res = v` by pushing the continuation into the branches that fall through"""
    out: List[ast.stmt] = []
    for i, s in enumerate(stmts):
        rest = stmts[i + 1:]
        if isinstance(s, ast.Return):
            if res is not None:
                out.append(ast.copy_location(ast.Assign(targets=[ast.Name(id=res, ctx=ast.Store())],
                                                        value=s.value if s.value is not None else ast.Constant(value=None), type_comment=None), s))
            elif s.value is not None and not isinstance(s.value, (ast.Constant, ast.Name)):
                out.append(ast.copy_location(ast.Expr(value=s.value), s))
            return out or [ast.copy_location(ast.Pass(), s)]
        if isinstance(s, ast.If) and (_may_return(s.body) or _may_return(s.orelse)):
            body = _to_assign(list(s.body) + ([] if _always_returns(s.body) else rest), res)
            orelse = _to_assign(list(s.orelse) + ([] if (s.orelse and _always_returns(s.orelse)) else rest), res)
            new = ast.copy_location(ast.If(test=s.test, body=body or [ast.Pass()], orelse=orelse), s)
            out.append(new)
            return out
        out.append(s)
    # fell off the end: implicit `return None`
    if res is not None:
        last = stmts[-1] if stmts else None
        a = ast.Assign(targets=[ast.Name(id=res, ctx=ast.Store())], value=ast.Constant(value=None), type_comment=None)
        if last is not None:
            ast.copy_location(a, last)
        out.append(a)
    return out


def _sink(stmts: List[ast.stmt], res: str, mk: Any) -> Optional[List[ast.stmt]]:
    """the statements of an expanded helper whose every exit ends in `res = V` in tail position, with each such assignment replaced
    by mk(V) (the statement the helper call stood in); None when some exit does not have that shape or res is used otherwise"""
    n_uses = sum(1 for s in stmts for n in ast.walk(s) if isinstance(n, ast.Name) and n.id == res)

    def tail(block: List[ast.stmt]) -> Optional[Tuple[List[ast.stmt], int]]:
        if not block:
            return None
        last = block[-1]
        if isinstance(last, ast.Assign) and len(last.targets) == 1 and isinstance(last.targets[0], ast.Name) and last.targets[0].id == res:
            return block[:-1] + [mk(last.value, last)], 1
        if isinstance(last, ast.If) and last.orelse:
            a = tail(last.body)
            b = tail(last.orelse)
            if a is None or b is None:
                return None
            new = ast.copy_location(ast.If(test=last.test, body=a[0], orelse=b[0]), last)
            return block[:-1] + [new], a[1] + b[1]
        return None
    r = tail(stmts)
    if r is None or r[1] != n_uses:
        return None
    return r[0]


def _to_assign_flag(stmts: List[ast.stmt], res: Optional[str], flag: str, in_loop: bool = False) -> List[ast.stmt]:
    """general form for returns inside loops / with / try: `return v` becomes `res = v; flag = True` (+ `break` inside a
    loop) and every statement that follows a statement which may have returned is guarded by `if not flag:`"""
    def mk_set(src: ast.AST, value: Optional[ast.AST]) -> List[ast.stmt]:
        out: List[ast.stmt] = []
        if res is not None:
            out.append(ast.copy_location(ast.Assign(targets=[ast.Name(id=res, ctx=ast.Store())], value=value if value is not None else ast.Constant(value=None), type_comment=None), src))
        elif value is not None and not isinstance(value, (ast.Constant, ast.Name)):
            out.append(ast.copy_location(ast.Expr(value=value), src))
        out.append(ast.copy_location(ast.Assign(targets=[ast.Name(id=flag, ctx=ast.Store())], value=ast.Constant(value=True), type_comment=None), src))
        if in_loop:
            out.append(ast.copy_location(ast.Break(), src))
        return out

    out: List[ast.stmt] = []
    for i, s in enumerate(stmts):
        rest = stmts[i + 1:]
        if isinstance(s, ast.Return):
            out.extend(mk_set(s, s.value))
            return out
        if not _may_return([s]):
            out.append(s)
            continue
        if isinstance(s, ast.If):
            s2 = ast.copy_location(ast.If(test=s.test, body=_to_assign_flag(list(s.body), res, flag, in_loop) or [ast.Pass()],
                                          orelse=_to_assign_flag(list(s.orelse), res, flag, in_loop)), s)
        elif isinstance(s, (ast.For, ast.AsyncFor)):
            s2 = copy.copy(s)
            s2.body = _to_assign_flag(list(s.body), res, flag, True) or [ast.Pass()]
            s2.orelse = _to_assign_flag(list(s.orelse), res, flag, in_loop)
        elif isinstance(s, ast.While):
            s2 = copy.copy(s)
            s2.body = _to_assign_flag(list(s.body), res, flag, True) or [ast.Pass()]
            s2.orelse = _to_assign_flag(list(s.orelse), res, flag, in_loop)
        elif isinstance(s, (ast.With, ast.AsyncWith)):
            s2 = copy.copy(s)
            s2.body = _to_assign_flag(list(s.body), res, flag, in_loop) or [ast.Pass()]
        elif isinstance(s, ast.Try):
            if _may_return(s.finalbody):
                raise NotInlinable('return inside finally')
            s2 = copy.copy(s)
            s2.body = _to_assign_flag(list(s.body), res, flag, in_loop) or [ast.Pass()]
            s2.handlers = []
            for h in s.handlers:
                h2 = copy.copy(h)
                h2.body = _to_assign_flag(list(h.body), res, flag, in_loop) or [ast.Pass()]
                s2.handlers.append(h2)
            orelse = _to_assign_flag(list(s.orelse), res, flag, in_loop)
            if orelse and _may_return(s.body):
                # the else clause runs only when the body fell off its end, not when it returned
                orelse = [ast.copy_location(ast.If(test=ast.UnaryOp(op=ast.Not(), operand=ast.Name(id=flag, ctx=ast.Load())), body=orelse, orelse=[]), s)]
            s2.orelse = orelse
        else:
            raise NotInlinable(type(s).__name__)
        out.append(s2)
        if in_loop:
            # leave the enclosing loop of the callee as soon as it returned
            out.append(ast.copy_location(ast.If(test=ast.Name(id=flag, ctx=ast.Load()), body=[ast.Break()], orelse=[]), s))
        if rest:
            guarded = _to_assign_flag(list(rest), res, flag, in_loop)
            out.append(ast.copy_location(ast.If(test=ast.UnaryOp(op=ast.Not(), operand=ast.Name(id=flag, ctx=ast.Load())), body=guarded or [ast.Pass()], orelse=[]), s))
        return out
    return out


class _Rename(ast.NodeTransformer):
    def __init__(self, mapping: Dict[str, ast.AST]):
        self.mapping = mapping

    def visit_Name(self, n: ast.Name) -> ast.AST:
        if n.id in self.mapping:
            m = self.mapping[n.id]
            if isinstance(m, ast.Name):
                return ast.copy_location(ast.Name(id=m.id, ctx=n.ctx), n)
            if isinstance(n.ctx, ast.Load):
                return ast.copy_location(copy.deepcopy(m), n)
        return n

    def visit_FunctionDef(self, n: ast.FunctionDef) -> ast.AST:
        return n

    def visit_AsyncFunctionDef(self, n: ast.AsyncFunctionDef) -> ast.AST:
        return n

    def visit_Lambda(self, n: ast.Lambda) -> ast.AST:
        return n


def _assigned_names(fnode: ast.AST) -> Set[str]:
    out: Set[str] = set()
    for n in ast.walk(fnode):
        if isinstance(n, ast.Name) and isinstance(n.ctx, (ast.Store, ast.Del)):
            out.add(n.id)
        elif isinstance(n, ast.ExceptHandler) and n.name:
            out.add(n.name)
        elif isinstance(n, (ast.Import, ast.ImportFrom)):
            for a in n.names:
                out.add((a.asname or a.name).split('.')[0])
    return out


def _walk_own(fnode: ast.AST) -> Any:
    """nodes of a function body, nested function definitions included as nodes but not entered"""
    todo = list(ast.iter_child_nodes(fnode))
    while todo:
        n = todo.pop()
        yield n
        if not isinstance(n, (ast.FunctionDef, ast.AsyncFunctionDef, ast.ClassDef, ast.Lambda)):
            todo.extend(ast.iter_child_nodes(n))


def _drop_unused_nested(fnode: ast.AST) -> None:
    """local function definitions every call of which has been inlined are no longer part of what the function does"""
    used = {n.id for n in ast.walk(fnode) if isinstance(n, ast.Name)}
    for n in [fnode] + [x for x in _walk_own(fnode)]:
        for fld in ('body', 'orelse', 'finalbody'):
            b = getattr(n, fld, None)
            if isinstance(b, list) and any(isinstance(x, (ast.FunctionDef, ast.AsyncFunctionDef)) and x.name not in used for x in b) and n is not None:
                if isinstance(n, (ast.FunctionDef, ast.AsyncFunctionDef)) and n is not fnode:
                    continue
                kept = [x for x in b if not (isinstance(x, (ast.FunctionDef, ast.AsyncFunctionDef)) and x.name not in used and _was_inlined(x))]
                setattr(n, fld, kept or [ast.copy_location(ast.Pass(), b[0])])


_INLINED_DEFS: Set[Tuple[str, int]] = set()


def _was_inlined(d: ast.AST) -> bool:
    return (d.name, d.lineno) in _INLINED_DEFS      # type: ignore[attr-defined]


class _NestedFunc:
    """a function defined in the body of another one, seen as a helper of that function only"""
    is_static = True
    is_property = False

    def __init__(self, outer: Any, node: ast.AST):
        self.module = outer.module
        self.node = node
        self.orig_node = node
        self.cls = outer.cls
        self.name = node.name       # type: ignore[attr-defined]
        self.key = '%s.<locals>.%s' % (outer.key, self.name)
        self.qualname = '%s.<locals>.%s' % (outer.qualname, self.name)


class Inliner:
    def __init__(self, prog: Any):
        self.prog = prog
        self._nested_cache: Dict[int, Dict[str, Any]] = {}
        self.counter = 0
        self.inlined_into: Dict[str, Set[str]] = {}     # helper key -> caller keys
        self.call_sites: Dict[str, int] = {}

    # ------------------------------------------------------------ callee resolution
    def _nested(self, caller: Any, name: str) -> Optional[Any]:
        """a function defined inside the caller's own body (a closure used as a local helper): defined once, never rebound, never used
        as a value (only called), no nonlocal / generator / default computed at definition time.  Its free variables are read when
        it is called, i.e. exactly where the inlined statements read them."""
        root = caller.orig_node if hasattr(caller, 'orig_node') else caller.node
        cache = self._nested_cache.setdefault(id(root), {})
        if name in cache:
            return cache[name]
        cache[name] = None
        defs = [n for n in _walk_own(root) if isinstance(n, (ast.FunctionDef, ast.AsyncFunctionDef)) and n.name == name]
        if len(defs) != 1:
            return None
        d = defs[0]
        a = d.args
        if d.decorator_list or a.vararg or a.kwarg or a.kwonlyargs or a.posonlyargs or any(not isinstance(x, ast.Constant) for x in a.defaults):
            return None
        if any(isinstance(n, (ast.Yield, ast.YieldFrom, ast.Global, ast.Nonlocal)) for n in ast.walk(d)):
            return None
        if name in {x.arg for x in root.args.args + root.args.kwonlyargs}:
            return None
        call_funcs = {id(n.func) for n in ast.walk(root) if isinstance(n, ast.Call)}
        for n in ast.walk(root):
            if isinstance(n, ast.Name) and n.id == name and (not isinstance(n.ctx, ast.Load) or id(n) not in call_funcs):
                return None         # rebound, deleted, or handed around as a value
        # the helper's own locals must not capture a name the enclosing function also uses: they are renamed, free names are not
        fi = _NestedFunc(caller, d)
        cache[name] = fi
        return fi

    def _callee(self, caller: Any, call: ast.Call) -> Optional[Tuple[Any, Optional[ast.AST]]]:
        f = call.func
        if isinstance(f, ast.Name):
            nf = self._nested(caller, f.id) if not isinstance(caller, _NestedFunc) else None
            if nf is not None:
                if any(isinstance(k, ast.keyword) and k.arg is None for k in call.keywords) or any(isinstance(x, ast.Starred) for x in call.args):
                    return None
                return nf, None
            # a module-level helper of the caller's own module with a name outside the vocabulary
            if f.id in ANCHORS or f.id.startswith('__'):
                return None
            r0 = self.prog.resolve(caller.module, f.id)
            if r0[0] != 'func' or r0[1].cls is not None or r0[1].module is not caller.module or r0[1].node is caller.node:
                return None
            fn0 = r0[1]
            a0 = fn0.node.args
            if fn0.node.decorator_list or a0.vararg or a0.kwarg or a0.kwonlyargs or a0.posonlyargs:
                return None
            if any(isinstance(n, (ast.Yield, ast.YieldFrom, ast.Global, ast.Nonlocal)) for n in ast.walk(fn0.node)):
                return None
            if any(isinstance(k, ast.keyword) and k.arg is None for k in call.keywords) or any(isinstance(x, ast.Starred) for x in call.args):
                return None
            # names the helper reads must mean the same thing at the call site: it lives in the same module, so module-level names do;
            # its own locals are renamed by _bind
            return fn0, None
        if not isinstance(f, ast.Attribute):
            return None
        name = f.attr
        if name in ANCHORS or name.startswith('__'):
            return None
        recv = f.value
        ci = caller.cls
        if ci is None:
            return None
        callee = None
        if isinstance(recv, ast.Name) and recv.id == 'self':
            callee = self.prog.lookup_method(ci, name)
        elif isinstance(recv, ast.Name):
            r = self.prog.resolve(caller.module, recv.id)
            if r[0] == 'class' and (r[1] is ci or r[1] in self.prog.mro(ci)):
                callee = self.prog.lookup_method(r[1], name)
                if callee is not None and not callee.is_static:
                    callee = None
        if callee is None or callee.cls is None:
            return None
        if not callee.module.name.startswith('proxy'):
            return None
        if callee.node is caller.node:
            return None
        # overridden below the caller's class?
        for sub in self.prog.subclasses(callee.cls):
            if name in sub.methods and sub.methods[name] is not callee:
                return None
        node = callee.node
        # any decorator other than @staticmethod changes what a call does (caching, wrapping): such helpers stay calls
        if any(not (isinstance(d, ast.Name) and d.id == 'staticmethod') for d in node.decorator_list):
            return None
        a = node.args
        if a.vararg or a.kwarg or a.kwonlyargs or a.posonlyargs:
            return None
        if any(isinstance(n, (ast.Yield, ast.YieldFrom)) for n in ast.walk(node)):
            return None
        if any(isinstance(k, ast.keyword) and k.arg is None for k in call.keywords) or any(isinstance(x, ast.Starred) for x in call.args):
            return None
        return callee, recv

    def _bind(self, callee: Any, call: ast.Call, prefix: str) -> Optional[Tuple[List[ast.stmt], Dict[str, ast.AST]]]:
        node = callee.orig_node if hasattr(callee, 'orig_node') else callee.node
        params = [x.arg for x in node.args.args]
        defaults = node.args.defaults
        dmap = {params[len(params) - len(defaults) + i]: d for i, d in enumerate(defaults)}
        mapping: Dict[str, ast.AST] = {}
        pre: List[ast.stmt] = []
        if callee.cls is not None and not callee.is_static:
            if not params:
                return None
            mapping[params[0]] = ast.Name(id='self', ctx=ast.Load())
            params = params[1:]
        if len(call.args) > len(params):
            return None
        given: Dict[str, ast.AST] = {}
        for p, a in zip(params, call.args):
            given[p] = a
        for k in call.keywords:
            if k.arg not in params or k.arg in given:
                return None
            given[k.arg] = k.value  # type: ignore[index]
        for p in params:
            v = given.get(p, dmap.get(p))
            if v is None:
                return None
            new = '%s__%s' % (prefix, p)
            mapping[p] = ast.Name(id=new, ctx=ast.Load())
            pre.append(ast.copy_location(ast.Assign(targets=[ast.Name(id=new, ctx=ast.Store())], value=copy.deepcopy(v), type_comment=None), call))
        for loc in _assigned_names(node) - set(mapping):
            mapping[loc] = ast.Name(id='%s__%s' % (prefix, loc), ctx=ast.Load())
        return pre, mapping

    def _expand(self, caller: Any, call: ast.Call, awaited: bool, want_result: bool, depth: int, stack: Tuple[str, ...]) -> Optional[Tuple[List[ast.stmt], Optional[str]]]:
        r = self._callee(caller, call)
        if r is None:
            return None
        callee, _ = r
        cnode = callee.orig_node if hasattr(callee, 'orig_node') else callee.node
        if isinstance(cnode, ast.AsyncFunctionDef) != awaited:
            return None
        if callee.key in stack or depth > 3:
            return None
        body = [s for i, s in enumerate(cnode.body)
                if not (i == 0 and isinstance(s, ast.Expr) and isinstance(s.value, ast.Constant) and isinstance(s.value.value, str))]
        self.counter += 1
        prefix = '%s_%d' % (callee.name.lstrip('_') or 'h', self.counter)
        self.prog.inline_prefixes.add(prefix + '__')
        b = self._bind(callee, call, prefix)
        if b is None:
            return None
        pre, mapping = b
        res = '%s__result' % prefix if want_result else None
        body = copy.deepcopy(body)
        if _returns_structured(body):
            body = _to_assign(body, res)
        else:
            flag = '%s__returned' % prefix
            try:
                body = _to_assign_flag(body, res, flag)
            except NotInlinable:
                return None
            init = [ast.copy_location(ast.Assign(targets=[ast.Name(id=flag, ctx=ast.Store())], value=ast.Constant(value=False), type_comment=None), call)]
            if res is not None:
                init.append(ast.copy_location(ast.Assign(targets=[ast.Name(id=res, ctx=ast.Store())], value=ast.Constant(value=None), type_comment=None), call))
            pre = pre + init
        ren = _Rename(mapping)
        body = [ren.visit(s) for s in body]
        # inline nested helper calls of the callee in its own context
        body = self._inline_block(callee, body, depth + 1, stack + (callee.key,))
        # the argument expressions belong to the caller: helper calls among them are inlined in the caller's context
        pre = self._inline_block(caller, pre, depth + 1, stack)
        self.inlined_into.setdefault(callee.key, set()).add(caller.key)
        if isinstance(callee, _NestedFunc):
            _INLINED_DEFS.add((callee.name, callee.node.lineno))
        stmts = pre + body
        for s in stmts:
            ast.fix_missing_locations(s)
        return stmts, res

    # ------------------------------------------------------------ statement rewriting
    @staticmethod
    def _find_call(expr: ast.AST) -> List[Tuple[ast.Call, bool, Any]]:
        """unconditionally evaluated calls in expr: (call, awaited, parent setter)"""
        found: List[Tuple[ast.Call, bool, Any]] = []

        def rec(n: ast.AST, setter: Any) -> None:
            if isinstance(n, (ast.BoolOp, ast.IfExp, ast.Lambda, ast.ListComp, ast.SetComp, ast.DictComp, ast.GeneratorExp)):
                if isinstance(n, ast.BoolOp) and n.values:
                    def set0(v: ast.AST, nn: ast.BoolOp = n) -> None:
                        nn.values[0] = v
                    rec(n.values[0], set0)
                if isinstance(n, ast.IfExp):
                    def sett(v: ast.AST, nn: ast.IfExp = n) -> None:
                        nn.test = v
                    rec(n.test, sett)
                return
            if isinstance(n, ast.Await) and isinstance(n.value, ast.Call):
                found.append((n.value, True, setter))
                _children(n.value)
                return
            if isinstance(n, ast.Call):
                found.append((n, False, setter))
            _children(n)

        def _children(n: ast.AST) -> None:
            for fld, val in ast.iter_fields(n):
                if isinstance(val, ast.AST):
                    def setf(v: ast.AST, nn: ast.AST = n, ff: str = fld) -> None:
                        setattr(nn, ff, v)
                    rec(val, setf)
                elif isinstance(val, list):
                    for i, it in enumerate(val):
                        if isinstance(it, ast.AST):
                            def seti(v: ast.AST, ll: list = val, ii: int = i) -> None:
                                ll[ii] = v
                            rec(it, seti)
        rec(expr, None)
        return found

    def _inline_stmt(self, caller: Any, s: ast.stmt, depth: int, stack: Tuple[str, ...]) -> List[ast.stmt]:
        # compound statements: recurse into bodies; tests of if/while are handled by hoisting
        if isinstance(s, (ast.FunctionDef, ast.AsyncFunctionDef, ast.ClassDef)):
            return [s]
        if isinstance(s, ast.If):
            pre = self._hoist(caller, s, 'test', depth, stack)
            s.body = self._inline_block(caller, s.body, depth, stack)
            s.orelse = self._inline_block(caller, s.orelse, depth, stack)
            return pre + [s]
        if isinstance(s, (ast.For, ast.AsyncFor)):
            pre = self._hoist(caller, s, 'iter', depth, stack)
            s.body = self._inline_block(caller, s.body, depth, stack)
            s.orelse = self._inline_block(caller, s.orelse, depth, stack)
            return pre + [s]
        if isinstance(s, ast.While):
            s.body = self._inline_block(caller, s.body, depth, stack)
            s.orelse = self._inline_block(caller, s.orelse, depth, stack)
            return [s]
        if isinstance(s, (ast.With, ast.AsyncWith)):
            s.body = self._inline_block(caller, s.body, depth, stack)
            return [s]
        if isinstance(s, ast.Try):
            s.body = self._inline_block(caller, s.body, depth, stack)
            for h in s.handlers:
                h.body = self._inline_block(caller, h.body, depth, stack)
            s.orelse = self._inline_block(caller, s.orelse, depth, stack)
            s.finalbody = self._inline_block(caller, s.finalbody, depth, stack)
            return [s]
        # simple statements
        exp = self._expand_comprehension(caller, s)
        if exp is not None:
            return self._inline_block(caller, exp, depth, stack)
        if isinstance(s, ast.Expr):
            v = s.value
            awaited = isinstance(v, ast.Await)
            c = v.value if awaited else v
            if isinstance(c, ast.Call):
                r = self._expand(caller, c, awaited, False, depth, stack)
                if r is not None:
                    return r[0]
        # `return h(...)` / `x = h(...)` where the helper's result is the whole value: the helper's own `return V` statements
        # become `return V` / `x = V` in place (no result variable), so the statement reads as if the helper had never been
        # split off
        if isinstance(s, (ast.Return, ast.Assign, ast.AnnAssign)) and getattr(s, 'value', None) is not None:
            v = s.value
            awaited = isinstance(v, ast.Await)
            c = v.value if awaited else v
            if isinstance(c, ast.Call):
                r = self._expand(caller, c, awaited, True, depth, stack)
                if r is not None:
                    stmts, res = r

                    def mk(val: ast.AST, src: ast.stmt, s_: ast.stmt = s) -> ast.stmt:
                        n2 = copy.copy(s_)
                        n2.value = val      # type: ignore[attr-defined]
                        return ast.copy_location(n2, src) if not isinstance(s_, ast.Return) else ast.copy_location(n2, src)
                    sunk = _sink(stmts, res, mk) if res is not None else None
                    if sunk is not None:
                        return sunk
                    s.value = ast.copy_location(ast.Name(id=res, ctx=ast.Load()), c)
                    return stmts + [s]
        for fld in ('value',):
            if isinstance(s, (ast.Assign, ast.AnnAssign, ast.AugAssign, ast.Return, ast.Expr)) and getattr(s, fld, None) is not None:
                pre = self._hoist(caller, s, fld, depth, stack)
                if pre:
                    return pre + [s]
        return [s]

    def _expand_comprehension(self, caller: Any, s: ast.stmt) -> Optional[List[ast.stmt]]:
        """`x = [elt for t in it if c]` whose element / filter calls an inlinable helper is written out as
        `x = []; for t in it: if c: x.append(elt)` so that the helper can be inlined into the loop (same evaluation order;
        the comprehension's variables are renamed when they would collide with a local of the caller)"""
        if isinstance(s, ast.Assign) and len(s.targets) == 1 and isinstance(s.targets[0], ast.Name):
            tgt, comp = s.targets[0], s.value
        elif isinstance(s, ast.AnnAssign) and isinstance(s.target, ast.Name) and s.value is not None:
            tgt, comp = s.target, s.value
        else:
            return None
        if not isinstance(comp, (ast.ListComp, ast.SetComp, ast.DictComp)):
            return None
        if not any(isinstance(n, ast.Call) and self._callee(caller, n) is not None for n in ast.walk(comp)):
            return None
        if any(isinstance(n, (ast.Await, ast.NamedExpr, ast.Yield, ast.YieldFrom)) for n in ast.walk(comp)) or any(g.is_async for g in comp.generators):
            return None
        comp = copy.deepcopy(comp)
        # variables bound by the comprehension; rename those that are also real locals / parameters of the caller
        bound = {n.id for g in comp.generators for n in ast.walk(g.target) if isinstance(n, ast.Name)}
        cnode = caller.orig_node if hasattr(caller, 'orig_node') else caller.node
        real: Set[str] = {a.arg for a in cnode.args.args + cnode.args.kwonlyargs}
        for n in ast.walk(cnode):
            if isinstance(n, (ast.Assign, ast.AnnAssign, ast.AugAssign)):
                tg = n.targets if isinstance(n, ast.Assign) else [n.target]
                for t in tg:
                    real |= {x.id for x in ast.walk(t) if isinstance(x, ast.Name)}
            elif isinstance(n, ast.ExceptHandler) and n.name:
                real.add(n.name)
            elif isinstance(n, (ast.With, ast.AsyncWith)):
                for it in n.items:
                    if it.optional_vars is not None:
                        real |= {x.id for x in ast.walk(it.optional_vars) if isinstance(x, ast.Name)}
        clash = bound & real
        if tgt.id in bound:
            clash.add(tgt.id)
        if clash:
            self.counter += 1
            prefix = 'comp_%d' % self.counter
            self.prog.inline_prefixes.add(prefix + '__')
            comp = _Rename({n_: ast.Name(id='%s__%s' % (prefix, n_), ctx=ast.Load()) for n_ in clash}).visit(comp)
        name = tgt.id
        if isinstance(comp, ast.ListComp):
            empty: ast.AST = ast.List(elts=[], ctx=ast.Load())
            add: ast.stmt = ast.Expr(value=ast.Call(func=ast.Attribute(value=ast.Name(id=name, ctx=ast.Load()), attr='append', ctx=ast.Load()), args=[comp.elt], keywords=[]))
        elif isinstance(comp, ast.SetComp):
            empty = ast.Call(func=ast.Name(id='set', ctx=ast.Load()), args=[], keywords=[])
            add = ast.Expr(value=ast.Call(func=ast.Attribute(value=ast.Name(id=name, ctx=ast.Load()), attr='add', ctx=ast.Load()), args=[comp.elt], keywords=[]))
        else:
            empty = ast.Dict(keys=[], values=[])
            add = ast.Assign(targets=[ast.Subscript(value=ast.Name(id=name, ctx=ast.Load()), slice=comp.key, ctx=ast.Store())], value=comp.value, type_comment=None)
        inner: List[ast.stmt] = [add]
        for g in reversed(comp.generators):
            for cond in reversed(g.ifs):
                inner = [ast.If(test=cond, body=inner, orelse=[])]
            tg2 = copy.deepcopy(g.target)
            for n in ast.walk(tg2):
                if isinstance(n, (ast.Name, ast.Tuple, ast.List, ast.Starred, ast.Attribute, ast.Subscript)):
                    n.ctx = ast.Store() if isinstance(n, (ast.Name, ast.Tuple, ast.List, ast.Starred)) else n.ctx
            inner = [ast.For(target=tg2, iter=g.iter, body=inner, orelse=[], type_comment=None)]
        if isinstance(s, ast.AnnAssign):
            init: ast.stmt = ast.AnnAssign(target=ast.Name(id=name, ctx=ast.Store()), annotation=s.annotation, value=empty, simple=1)
        else:
            init = ast.Assign(targets=[ast.Name(id=name, ctx=ast.Store())], value=empty, type_comment=None)
        out = [init] + inner
        for o in out:
            for n in ast.walk(o):
                if not hasattr(n, 'lineno'):
                    ast.copy_location(n, s)
            ast.fix_missing_locations(o)
        # the first iterable is evaluated before the target list exists in the original, after it here: harmless (an empty literal has no effect)
        return out

    def _hoist(self, caller: Any, s: ast.AST, fld: str, depth: int, stack: Tuple[str, ...]) -> List[ast.stmt]:
        """replace the first inlinable, unconditionally evaluated call inside s.<fld> by a result variable; returns the statements to put before s"""
        expr = getattr(s, fld)
        out: List[ast.stmt] = []
        for _ in range(4):
            done = False
            whole_awaited = isinstance(expr, ast.Await) and isinstance(expr.value, ast.Call)
            cands = self._find_call(expr)
            for call, awaited, setter in cands:
                r = self._expand(caller, call, awaited, True, depth, stack)
                if r is None:
                    continue
                stmts, res = r
                newv = ast.copy_location(ast.Name(id=res, ctx=ast.Load()), call)
                if setter is None:
                    expr = newv
                    setattr(s, fld, expr)
                else:
                    # when the call was awaited the Await node is what has to be replaced
                    if awaited:
                        self._replace_await(s, fld, call, newv)
                        expr = getattr(s, fld)
                    else:
                        setter(newv)
                out.extend(stmts)
                done = True
                break
            if not done:
                break
        return out

    @staticmethod
    def _replace_await(s: ast.AST, fld: str, call: ast.Call, newv: ast.AST) -> None:
        root = getattr(s, fld)
        if isinstance(root, ast.Await) and root.value is call:
            setattr(s, fld, newv)
            return
        for n in ast.walk(root):
            for f2, val in ast.iter_fields(n):
                if isinstance(val, ast.Await) and val.value is call:
                    setattr(n, f2, newv)
                    return
                if isinstance(val, list):
                    for i, it in enumerate(val):
                        if isinstance(it, ast.Await) and it.value is call:
                            val[i] = newv
                            return

    def _inline_block(self, caller: Any, stmts: List[ast.stmt], depth: int, stack: Tuple[str, ...]) -> List[ast.stmt]:
        out: List[ast.stmt] = []
        for s in stmts:
            out.extend(self._inline_stmt(caller, s, depth, stack))
        return out

    # ------------------------------------------------------------ entry
    def run(self) -> None:
        funcs = [f for f in self.prog.functions.values() if f.module.name.startswith('proxy')]
        for f in funcs:
            f.orig_node = f.node
        for f in funcs:
            new = copy.deepcopy(f.orig_node)
            new.body = self._inline_block(f, new.body, 0, (f.key,))
            _drop_unused_nested(new)
            ast.fix_missing_locations(new)
            f.node = new
        self.prog.inlined_helpers = set(self.inlined_into)
        # helpers some call of which could NOT be expanded (a conditionally evaluated position, too deep, recursion): a rule about what
        # per-function code does has to look at those as functions of their own as well (by name: conservative)
        called = set()
        for f in funcs:
            for n in ast.walk(f.node):
                if isinstance(n, ast.Call):
                    called.add(n.func.attr if isinstance(n.func, ast.Attribute) else n.func.id if isinstance(n.func, ast.Name) else None)
                elif isinstance(n, ast.Attribute) and isinstance(n.ctx, ast.Load):
                    called.add(n.attr)          # handed around as a value
        self.prog.residual_helpers = {k for k in self.prog.inlined_helpers if k.split('::')[-1].split('.')[-1] in called}
        # the inlined helpers' statements are analysed as part of their callers: take them out of the per-class method
        # tables that rules iterate (they stay reachable by name through ClassInfo.inlined_methods / lookup_method)
        for f in funcs:
            if f.key in self.prog.inlined_helpers and f.cls is not None and f.cls.methods.get(f.name) is f:
                del f.cls.methods[f.name]
                f.cls.inlined_methods[f.name] = f
        # keep the class table in sync: ClassInfo.methods point to the same FuncInfo objects (node replaced in place)
