"""Driver: loads /repo's source, runs one property's rule set, reports."""
import argparse
import importlib
import json
import os
import sys
import traceback

HERE = os.path.dirname(os.path.abspath(__file__))
sys.path.insert(0, os.path.dirname(HERE))

from sa.model import Program, AnalysisError  # noqa: E402
from sa.report import Checker, finish  # noqa: E402


def run_property(prop: str, repo: str, tier: str, only=None, seed: int = 0, write_evidence: bool = True) -> int:
    try:
        extra = ()
        if tier == 'thorough':
            extra = ('examples', 'tutorial', 'benchmark')
        prog = Program(repo, extra_dirs=extra)
        ch = Checker(prop, prog, tier, repo)
        mod = importlib.import_module('sa.rules.%s' % prop.lower())
        mod.run(ch)
        if tier == 'thorough' and not only and os.environ.get('VERIF_NO_SWEEP') != '1':
            from sa.sensitivity import sweep
            try:
                ch.sensitivity = sweep(prop, repo, 'quick', seed)
                print('  sensitivity sweep: %d of %d in-memory mutants of the analysed functions are reported by the rules'
                      % (ch.sensitivity['mutants_reported_by_the_rules'], ch.sensitivity['mutants_evaluated']))
            except Exception as e:   # the sweep never affects the verdict
                ch.note('sensitivity sweep failed: %r' % e)
        return finish(ch, only=only, seed=seed, write_evidence=write_evidence)
    except AnalysisError as e:
        print('ANALYSIS-ERROR property=%s %s' % (prop, e))
        return 2
    except Exception:
        traceback.print_exc()
        print('ANALYSIS-ERROR property=%s internal error in the checker (traceback above)' % prop)
        return 2


def main() -> int:
    ap = argparse.ArgumentParser()
    ap.add_argument('prop')
    ap.add_argument('--tier', default=os.environ.get('VERIF_TIER', 'quick'), choices=['quick', 'thorough'])
    ap.add_argument('--repo', default=os.environ.get('VERIF_REPO', '/repo'))
    ap.add_argument('--only', default=None, help='evaluate only the obligation(s) with this key or rule id')
    ap.add_argument('--replay', default=None, help='replay file written for a VIOLATION')
    ap.add_argument('--no-evidence', action='store_true')
    a = ap.parse_args()
    only = a.only
    if a.replay:
        with open(a.replay) as f:
            only = json.load(f)['key']
    seed = int(os.environ.get('VERIF_SEED', '0') or 0)
    prop = a.prop.upper()
    if prop == 'ALL':
        rc = 0
        for fn in sorted(os.listdir(os.path.join(HERE, 'rules'))):
            if fn.startswith('c') and fn.endswith('.py'):
                r = run_property(fn[:-3].upper(), a.repo, a.tier, None, seed, not a.no_evidence)
                rc = max(rc, r)
        return rc
    return run_property(prop, a.repo, a.tier, only, seed, not (a.no_evidence or only))


if __name__ == '__main__':
    sys.exit(main())
