"""E2/E3/E4 -- statement-level control-flow graph with short-circuit decomposed tests,
typed exception edges and duplicated `finally` bodies; acyclic path enumeration with
path facts; dominators.

Nodes
  kind 'entry' | 'exit' (exit_kind 'return' / 'raise') | 'stmt' | 'test' | 'for'
       | 'handler' | 'with' | 'join' | 'reraise'
Edges (label):  None (sequential) | True / False (test outcome) | 'iter' / 'done' (for)
                | 'exc' (exception raised inside the statement) | 'raise' (explicit raise)
"""
import ast
import builtins
import importlib
from typing import Any, Callable, Dict, Iterator, List, Optional, Sequence, Set, Tuple

from .model import AnalysisError, FuncInfo, Program, Module, norm, walk_no_nested

STDLIB_EXC_MODULES = ('ssl', 'socket', 'queue', 'subprocess', 'asyncio', 'selectors', 'struct', 'json', 'errno')


class Node:
    __slots__ = ('id', 'kind', 'ast', 'succ', 'pred', 'exit_kind', 'lineno', 'copy_of')

    def __init__(self, nid: int, kind: str, node: Optional[ast.AST] = None):
        self.id = nid
        self.kind = kind
        self.ast = node
        self.succ: List[Tuple[Any, int]] = []
        self.pred: List[Tuple[Any, int]] = []
        self.exit_kind: Optional[str] = None
        self.lineno = getattr(node, 'lineno', 0) if node is not None else 0
        self.copy_of: Optional[int] = None

    def __repr__(self) -> str:
        return '<%d %s %s>' % (self.id, self.kind, norm(self.ast)[:50] if self.ast is not None else self.exit_kind or '')


class ExcTypes:
    """Exception class relations without importing repository code."""

    def __init__(self, prog: Optional[Program], module: Optional[Module]):
        self.prog = prog
        self.module = module

    def resolve(self, e: Optional[ast.AST]) -> Any:
        """-> python class (builtin/stdlib) | ClassInfo | None (unknown)"""
        if e is None:
            return None
        if isinstance(e, ast.Call):
            e = e.func
        if isinstance(e, ast.Name):
            b = getattr(builtins, e.id, None)
            if isinstance(b, type) and issubclass(b, BaseException):
                if self.module is None or e.id not in self.module.ns:
                    return b
            if self.prog is not None and self.module is not None:
                r = self.prog.resolve(self.module, e.id)
                if r[0] == 'class':
                    return r[1]
                if r[0] == 'external':
                    return self._stdlib(r[1])
            return None
        if isinstance(e, ast.Attribute):
            if self.prog is not None and self.module is not None:
                r = self.prog.resolve_expr(self.module, e)
                if r[0] == 'class':
                    return r[1]
                if r[0] == 'external':
                    return self._stdlib(r[1])
            from .model import attr_chain
            ch = attr_chain(e)
            if ch:
                return self._stdlib(ch)
        return None

    @staticmethod
    def _stdlib(dotted: str) -> Any:
        mod, _, name = dotted.rpartition('.')
        if mod.split('.')[0] in STDLIB_EXC_MODULES:
            try:
                obj = getattr(importlib.import_module(mod), name, None)
            except Exception:
                return None
            if isinstance(obj, type) and issubclass(obj, BaseException):
                return obj
        return None

    def _py_bases(self, c: Any) -> List[type]:
        """python-level exception ancestors of c (for repo classes: through external bases)."""
        if isinstance(c, type):
            return list(c.__mro__)
        out: List[type] = []
        if self.prog is not None:
            for b in self.prog.external_bases(c):
                name = b.rpartition('.')[2]
                py = getattr(builtins, name, None)
                if not (isinstance(py, type) and issubclass(py, BaseException)):
                    py = self._stdlib(b)
                if isinstance(py, type):
                    out.extend(py.__mro__)
        return out

    def is_sub(self, c: Any, base: Any) -> Optional[bool]:
        """True / False / None (unknown)"""
        if c is None or base is None:
            return None
        if isinstance(base, type):
            if isinstance(c, type):
                return issubclass(c, base)
            pb = self._py_bases(c)
            if base in pb:
                return True
            return False if pb else None
        # base is a repo class
        if isinstance(c, type):
            return False
        assert self.prog is not None
        return self.prog.is_subclass(c, base)

    def handler_types(self, h: ast.ExceptHandler) -> List[Any]:
        if h.type is None:
            return [BaseException]
        elts = h.type.elts if isinstance(h.type, ast.Tuple) else [h.type]
        return [self.resolve(e) for e in elts]

    def handler_catches(self, h: ast.ExceptHandler, exc: Any) -> Optional[bool]:
        res: Optional[bool] = False
        for t in self.handler_types(h):
            r = self.is_sub(exc, t)
            if r is True:
                return True
            if r is None:
                res = None
        return res

    def handler_covers_exception(self, h: ast.ExceptHandler) -> bool:
        """handler catches every `Exception`"""
        for t in self.handler_types(h):
            if isinstance(t, type) and issubclass(Exception, t):
                return True
        return False


def can_raise(node: ast.AST) -> bool:
    for n in walk_no_nested(node):
        if isinstance(n, (ast.Call, ast.Subscript, ast.Await, ast.BinOp, ast.Yield, ast.YieldFrom)):
            return True
        if isinstance(n, ast.Attribute) and not (isinstance(n.value, ast.Name) and n.value.id == 'self'):
            return True
    return False


class _Ctx:
    def __init__(self, on_return: Callable[[], int], on_raise: Callable[[Any], List[int]],
                 on_break: Optional[Callable[[], int]], on_continue: Optional[Callable[[], int]],
                 guarded: bool, handler_type: Any = None, handler_name: Optional[str] = None):
        self.on_return = on_return
        self.on_raise = on_raise
        self.on_break = on_break
        self.on_continue = on_continue
        self.guarded = guarded          # inside a try (exception edges are materialised)
        self.handler_type = handler_type  # type of the exception being handled (for bare `raise` / `raise e`)
        self.handler_name = handler_name


class CFG:
    def __init__(self, func: FuncInfo, prog: Optional[Program] = None, exc_edges: bool = True, unguarded_exc: bool = False):
        self.func = func
        self.prog = prog
        # unguarded_exc: statements outside any try also get an exception edge (to the function's raise exit), so that
        # "X is attempted on every path, exceptional ones included" is also checked for exceptions nothing in the function catches
        self.unguarded_exc = unguarded_exc
        self.exc = ExcTypes(prog, func.module)
        self.nodes: List[Node] = []
        self.exc_edges = exc_edges
        self.entry = self._new('entry').id
        self.exit_return = self._new('exit')
        self.exit_return.exit_kind = 'return'
        self.exit_raise = self._new('exit')
        self.exit_raise.exit_kind = 'raise'
        ctx = _Ctx(lambda: self.exit_return.id, lambda exc: [self.exit_raise.id], None, None, False)
        body = func.node.body  # type: ignore[attr-defined]
        first = self._block(body, self.exit_return.id, ctx)
        self._edge(self.entry, first, None)
        for n in self.nodes:
            for lab, t in n.succ:
                self.nodes[t].pred.append((lab, n.id))

    # ------------------------------------------------------------------ construction
    def _new(self, kind: str, node: Optional[ast.AST] = None) -> Node:
        n = Node(len(self.nodes), kind, node)
        self.nodes.append(n)
        return n

    def _edge(self, a: int, b: int, label: Any) -> None:
        if (label, b) not in self.nodes[a].succ:
            self.nodes[a].succ.append((label, b))

    def _exc(self, n: Node, ctx: _Ctx, what: ast.AST) -> None:
        if self.exc_edges and (ctx.guarded or self.unguarded_exc) and can_raise(what):
            for t in ctx.on_raise(None):
                self._edge(n.id, t, 'exc')

    def _block(self, stmts: Sequence[ast.stmt], nxt: int, ctx: _Ctx) -> int:
        for s in reversed(list(stmts)):
            nxt = self._stmt(s, nxt, ctx)
        return nxt

    def _cond(self, e: ast.AST, t: int, f: int, ctx: _Ctx, owner: ast.AST) -> int:
        if isinstance(e, ast.BoolOp):
            vals = list(e.values)
            if isinstance(e.op, ast.And):
                nxt = t
                for v in reversed(vals):
                    nxt = self._cond(v, nxt, f, ctx, owner)
                return nxt
            nxt = f
            for v in reversed(vals):
                nxt = self._cond(v, t, nxt, ctx, owner)
            return nxt
        if isinstance(e, ast.UnaryOp) and isinstance(e.op, ast.Not):
            return self._cond(e.operand, f, t, ctx, owner)
        if isinstance(e, ast.Constant):
            return t if e.value else f
        n = self._new('test', e)
        n.lineno = getattr(e, 'lineno', getattr(owner, 'lineno', 0))
        self._edge(n.id, t, True)
        self._edge(n.id, f, False)
        self._exc(n, ctx, e)
        return n.id

    def _stmt(self, s: ast.stmt, nxt: int, ctx: _Ctx) -> int:
        if isinstance(s, ast.If):
            body = self._block(s.body, nxt, ctx)
            orelse = self._block(s.orelse, nxt, ctx)
            return self._cond(s.test, body, orelse, ctx, s)
        if isinstance(s, ast.While):
            head = self._new('join', s)
            lctx = _Ctx(ctx.on_return, ctx.on_raise, lambda: nxt, lambda: head.id, ctx.guarded, ctx.handler_type, ctx.handler_name)
            body = self._block(s.body, head.id, lctx)
            orelse = self._block(s.orelse, nxt, ctx)
            c = self._cond(s.test, body, orelse, ctx, s)
            self._edge(head.id, c, None)
            return head.id
        if isinstance(s, (ast.For, ast.AsyncFor)):
            head = self._new('for', s)
            lctx = _Ctx(ctx.on_return, ctx.on_raise, lambda: nxt, lambda: head.id, ctx.guarded, ctx.handler_type, ctx.handler_name)
            body = self._block(s.body, head.id, lctx)
            orelse = self._block(s.orelse, nxt, ctx)
            self._edge(head.id, body, 'iter')
            self._edge(head.id, orelse, 'done')
            self._exc(head, ctx, s.iter)
            return head.id
        if isinstance(s, (ast.With, ast.AsyncWith)):
            n = self._new('with', s)
            body = self._block(s.body, nxt, ctx)
            self._edge(n.id, body, None)
            for it in s.items:
                self._exc(n, ctx, it.context_expr)
            return n.id
        if isinstance(s, ast.Try) or s.__class__.__name__ == 'TryStar':
            return self._try(s, nxt, ctx)  # type: ignore[arg-type]
        if isinstance(s, ast.Return):
            n = self._new('stmt', s)
            self._edge(n.id, ctx.on_return(), None)
            if s.value is not None:
                self._exc(n, ctx, s.value)
            return n.id
        if isinstance(s, ast.Raise):
            n = self._new('stmt', s)
            exc: Any = None
            if s.exc is None:
                exc = ctx.handler_type
            elif isinstance(s.exc, ast.Name) and ctx.handler_name == s.exc.id:
                exc = ctx.handler_type
            else:
                exc = self.exc.resolve(s.exc)
            for t in ctx.on_raise(exc):
                self._edge(n.id, t, 'raise')
            return n.id
        if isinstance(s, ast.Break):
            if ctx.on_break is None:
                raise AnalysisError('break outside loop in %s' % self.func.key)
            n = self._new('stmt', s)
            self._edge(n.id, ctx.on_break(), None)
            return n.id
        if isinstance(s, ast.Continue):
            if ctx.on_continue is None:
                raise AnalysisError('continue outside loop in %s' % self.func.key)
            n = self._new('stmt', s)
            self._edge(n.id, ctx.on_continue(), None)
            return n.id
        if isinstance(s, ast.Assert):
            fail = self._new('stmt', s)      # the failing assertion
            for t in ctx.on_raise(AssertionError):
                self._edge(fail.id, t, 'raise')
            return self._cond(s.test, nxt, fail.id, ctx, s)
        if isinstance(s, (ast.Assign, ast.AugAssign, ast.AnnAssign, ast.Expr, ast.Delete, ast.Pass,
                          ast.Import, ast.ImportFrom, ast.Global, ast.Nonlocal,
                          ast.FunctionDef, ast.AsyncFunctionDef, ast.ClassDef)):
            n = self._new('stmt', s)
            self._edge(n.id, nxt, None)
            if not isinstance(s, (ast.FunctionDef, ast.AsyncFunctionDef, ast.ClassDef, ast.Pass, ast.Global, ast.Nonlocal)):
                self._exc(n, ctx, s)
            return n.id
        raise AnalysisError('statement kind %s not handled by the CFG builder (%s line %s)'
                            % (type(s).__name__, self.func.key, getattr(s, 'lineno', '?')))

    def _try(self, s: ast.Try, nxt: int, ctx: _Ctx) -> int:
        memo: Dict[str, int] = {}

        if s.finalbody:
            def fin(key: str, after: Callable[[], int]) -> int:
                if key not in memo:
                    memo[key] = self._block(s.finalbody, after(), ctx)
                return memo[key]

            def reraise_node() -> int:
                r = self._new('reraise', s)
                for t in ctx.on_raise(None):
                    self._edge(r.id, t, 'raise')
                return r.id

            on_return = lambda: fin('return', ctx.on_return)
            on_break = (lambda: fin('break', ctx.on_break)) if ctx.on_break else None  # type: ignore[arg-type]
            on_continue = (lambda: fin('continue', ctx.on_continue)) if ctx.on_continue else None  # type: ignore[arg-type]
            outer_raise = lambda exc: [fin('raise', reraise_node)]
            after_try = fin('normal', lambda: nxt)
            guarded_outer = True
        else:
            on_return, on_break, on_continue = ctx.on_return, ctx.on_break, ctx.on_continue
            outer_raise = ctx.on_raise
            after_try = nxt
            guarded_outer = ctx.guarded

        handler_entries: List[Tuple[ast.ExceptHandler, int]] = []
        for h in s.handlers:
            types = self.exc.handler_types(h)
            htype = types[0] if len(types) == 1 else None
            hctx = _Ctx(on_return, outer_raise, on_break, on_continue, guarded_outer, htype, h.name)
            hn = self._new('handler', h)
            body = self._block(h.body, after_try, hctx)
            self._edge(hn.id, body, None)
            handler_entries.append((h, hn.id))

        def body_raise(exc: Any) -> List[int]:
            out: List[int] = []
            for h, hid in handler_entries:
                if exc is None:
                    out.append(hid)
                    continue
                r = self.exc.handler_catches(h, exc)
                if r is True:
                    out.append(hid)
                    return out
                if r is None:
                    out.append(hid)
            if exc is None:
                # an exception of unknown type is taken to be an Exception (not KeyboardInterrupt / SystemExit): `except Exception` contains it
                if not any(self.exc.handler_catches(h, Exception) for h, _ in handler_entries):
                    out.extend(outer_raise(None))
            else:
                out.extend(outer_raise(exc))
            return out

        ectx = _Ctx(on_return, outer_raise, on_break, on_continue, guarded_outer, ctx.handler_type, ctx.handler_name)
        orelse = self._block(s.orelse, after_try, ectx)
        bctx = _Ctx(on_return, body_raise, on_break, on_continue, True, ctx.handler_type, ctx.handler_name)
        entry = self._block(s.body, orelse, bctx)
        if not self.exc_edges and COARSE_EXC and handler_entries:
            # Without per-statement exception edges the handlers would be unreachable and their statements invisible to every
            # rule that enumerates paths.  One coarse edge per handler, taken before anything in the try body ran, keeps them in view.
            te = self._new('tryenter', s)
            self._edge(te.id, entry, None)
            for h, hid in handler_entries:
                self._edge(te.id, hid, 'exc')
            return te.id
        return entry

    # ------------------------------------------------------------------ queries
    def node_for(self, a: ast.AST) -> List[Node]:
        return [n for n in self.nodes if n.ast is a]

    def stmt_nodes(self) -> List[Node]:
        return [n for n in self.nodes if n.kind in ('stmt', 'test', 'for', 'with', 'handler')]

    def find(self, pred: Callable[[Node], bool]) -> List[Node]:
        return [n for n in self.nodes if pred(n)]

    def reachable(self, start: int, labels_excluded: Tuple[Any, ...] = ()) -> Set[int]:
        seen = {start}
        todo = [start]
        while todo:
            x = todo.pop()
            for lab, t in self.nodes[x].succ:
                if lab in labels_excluded:
                    continue
                if t not in seen:
                    seen.add(t)
                    todo.append(t)
        return seen

    def dominators(self, exclude_labels: Tuple[Any, ...] = ()) -> Dict[int, Set[int]]:
        reach = self.reachable(self.entry, exclude_labels)
        order = sorted(reach)
        dom: Dict[int, Set[int]] = {n: set(order) for n in order}
        dom[self.entry] = {self.entry}
        changed = True
        while changed:
            changed = False
            for n in order:
                if n == self.entry:
                    continue
                preds = [p for lab, p in self.nodes[n].pred if lab not in exclude_labels and p in reach]
                if not preds:
                    continue
                new = set.intersection(*[dom[p] for p in preds]) | {n}
                if new != dom[n]:
                    dom[n] = new
                    changed = True
        return dom

    def paths(self, start: Optional[int] = None, max_edge_visits: int = 1, limit: int = 20000,
              stop: Optional[Callable[[Node], bool]] = None) -> Iterator['Path']:
        """Acyclic-ish path enumeration: every edge is taken at most `max_edge_visits`
        times per path (loops: zero or one iteration with the default).  A path ends at
        an exit node, or at a node for which stop(node) is true (the node is included)."""
        start = self.entry if start is None else start
        count = 0
        steps: List[Tuple[int, Any]] = []
        visits: Dict[Tuple[int, Any, int], int] = {}

        def rec(nid: int) -> Iterator['Path']:
            nonlocal count
            node = self.nodes[nid]
            if node.kind == 'exit' or (stop is not None and stop(node) and steps):
                count += 1
                if count > limit:
                    raise AnalysisError('path bound %d exceeded in %s' % (limit, self.func.key))
                yield Path(self, list(steps), nid)
                return
            if not node.succ:
                return
            for lab, t in node.succ:
                k = (nid, lab, t)
                # the single edge out of a while-loop head is taken once on entry and once per iteration
                if visits.get(k, 0) >= max_edge_visits + (1 if node.kind == 'join' else 0):
                    continue
                visits[k] = visits.get(k, 0) + 1
                steps.append((nid, lab))
                yield from rec(t)
                steps.pop()
                visits[k] -= 1
        return rec(start)


COARSE_EXC = True


def atom_key(e: ast.AST, polarity: bool) -> Tuple[str, bool]:
    """Normalise an atomic test: `a != b` -> (a == b, not p); `x is not y`; `x not in y`."""
    if isinstance(e, ast.Compare) and len(e.ops) == 1:
        op = e.ops[0]
        repl = None
        if isinstance(op, ast.NotEq):
            repl = ast.Eq()
        elif isinstance(op, ast.IsNot):
            repl = ast.Is()
        elif isinstance(op, ast.NotIn):
            repl = ast.In()
        if repl is not None:
            e2 = ast.Compare(left=e.left, ops=[repl], comparators=e.comparators)
            return norm(e2), not polarity
    return norm(e), polarity


class Path:
    def __init__(self, cfg: CFG, steps: List[Tuple[int, Any]], end: int):
        self.cfg = cfg
        self.steps = steps      # (node id, label of the edge taken out of it)
        self.end = end

    @property
    def exit_kind(self) -> Optional[str]:
        return self.cfg.nodes[self.end].exit_kind

    @property
    def coarse(self) -> bool:
        """the path enters an except handler through the coarse edge of a CFG built without per-statement exception edges:
        what the try body did before the exception is not on the path (rules of the form "X is called on every path" skip these)"""
        return any(lab == 'exc' and self.cfg.nodes[nid].kind == 'tryenter' for nid, lab in self.steps)

    @property
    def end_node(self) -> Node:
        return self.cfg.nodes[self.end]

    def nodes(self) -> List[Node]:
        return [self.cfg.nodes[i] for i, _ in self.steps] + [self.cfg.nodes[self.end]]

    def facts(self, upto: Optional[int] = None) -> List[Tuple[str, bool]]:
        """(atom, polarity) of every test passed, in order (optionally only before step index upto)."""
        out = []
        for idx, (i, lab) in enumerate(self.steps):
            if upto is not None and idx >= upto:
                break
            n = self.cfg.nodes[i]
            if n.kind == 'test' and lab in (True, False):
                out.append(atom_key(n.ast, lab))  # type: ignore[arg-type]
        return out

    def has_fact(self, atom: str, polarity: bool, upto: Optional[int] = None) -> bool:
        return (atom, polarity) in self.facts(upto)

    def executed(self) -> List[Tuple[int, Node, Any]]:
        """(step index, node, outgoing label) for statement-like nodes; a node left through an
        'exc' edge raised part-way and is reported with label 'exc'."""
        out = []
        for idx, (i, lab) in enumerate(self.steps):
            n = self.cfg.nodes[i]
            if n.kind in ('stmt', 'for', 'with', 'test', 'handler', 'reraise'):
                out.append((idx, n, lab))
        return out

    def stmts(self, completed_only: bool = True) -> List[Tuple[int, ast.AST]]:
        out = []
        for idx, n, lab in self.executed():
            if n.kind == 'stmt' and not (completed_only and lab == 'exc'):
                out.append((idx, n.ast))  # type: ignore[arg-type]
        return out

    def describe(self, maxlen: int = 14) -> List[str]:
        out = []
        for i, lab in self.steps:
            n = self.cfg.nodes[i]
            if n.kind == 'test':
                out.append('L%d %s%s' % (n.lineno, '' if lab is True else 'not ' if lab is False else 'EXC in ', norm(n.ast)[:70]))  # type: ignore[arg-type]
            elif n.kind == 'stmt':
                out.append('L%d %s%s' % (n.lineno, 'EXC in ' if lab == 'exc' else '', norm(n.ast)[:70]))  # type: ignore[arg-type]
            elif n.kind == 'for':
                out.append('L%d for[%s] %s' % (n.lineno, lab, norm(n.ast.target)[:30]))  # type: ignore[union-attr]
            elif n.kind == 'handler':
                h = n.ast
                out.append('L%d except %s' % (n.lineno, norm(h.type) if h.type is not None else ''))  # type: ignore[union-attr]
        out.append('=> %s' % (self.exit_kind or norm(self.end_node.ast)[:60] if self.end_node.ast is not None else self.exit_kind))
        if len(out) > maxlen:
            out = out[:maxlen // 2] + ['...'] + out[-maxlen // 2:]
        return out


_CFG_CACHE: Dict[Tuple[int, bool], CFG] = {}


def cfg_of(func: FuncInfo, prog: Optional[Program] = None, exc_edges: bool = True, unguarded_exc: bool = False) -> CFG:
    k = (id(func.node), exc_edges, unguarded_exc)
    if k not in _CFG_CACHE:
        _CFG_CACHE[k] = CFG(func, prog, exc_edges, unguarded_exc)
    return _CFG_CACHE[k]
