"""Obligations, known findings, evidence, replay files, exit codes."""
import ast
import json
import re
import os
import time
from typing import Any, Callable, Dict, List, Optional

from .model import AnalysisError, FuncInfo, Program, norm

VERIF = os.path.dirname(os.path.dirname(os.path.abspath(__file__)))
KNOWN_FILE = os.path.join(VERIF, 'known_findings.json')


class Ob:
    __slots__ = ('prop', 'rule', 'key', 'file', 'func', 'line', 'status', 'detail', 'witness')

    def __init__(self, prop: str, rule: str, key: str, file: str, func: str, line: int,
                 status: str, detail: str, witness: Optional[List[str]] = None):
        self.prop, self.rule, self.key = prop, rule, key
        self.file, self.func, self.line = file, func, line
        self.status, self.detail = status, detail
        self.witness = witness or []

    def to_json(self) -> Dict[str, Any]:
        d = {'rule': self.rule, 'key': self.key, 'file': self.file, 'function': self.func,
             'line': self.line, 'status': self.status, 'detail': self.detail}
        if self.witness:
            d['witness'] = self.witness
        return d


class Checker:
    """One run of one property's rule set."""

    def __init__(self, prop: str, prog: Program, tier: str, repo: str):
        self.prop = prop
        self.prog = prog
        self.tier = tier
        self.repo = repo
        self.obs: List[Ob] = []
        self.rules: Dict[str, str] = {}
        self.min_counts: Dict[str, int] = {}
        self.functions: set = set()
        self.paths = 0
        self.calls_resolved = 0
        self.calls_unresolved = 0
        self.notes: List[str] = []
        self.sensitivity: Optional[Dict[str, Any]] = None
        self.t0 = time.time()

    # -- declaring rules
    def rule(self, rid: str, text: str, min_count: int = 1) -> None:
        self.rules[rid] = text
        self.min_counts[rid] = min_count

    def touch(self, f: FuncInfo) -> None:
        self.functions.add(f.key)

    def site_key(self, f: Optional[FuncInfo], construct: Any, module_rel: Optional[str] = None) -> str:
        c = construct if isinstance(construct, str) else norm(construct)
        for pre in sorted(self.prog.inline_prefixes, key=len, reverse=True):   # inlined helpers' locals are spelled as in the source
            c = re.sub(r'\b' + re.escape(pre), '', c)
        if len(c) > 160:
            c = c[:160]
        if f is not None:
            return '%s::%s' % (f.key, c)
        return '%s::<module>::%s' % (module_rel or '?', c)

    def _add(self, status: str, rule: str, f: Optional[FuncInfo], construct: Any, detail: str,
             witness: Optional[List[str]] = None, line: Optional[int] = None, module_rel: Optional[str] = None) -> Ob:
        if rule not in self.rules:
            raise AnalysisError('internal: rule %s not declared' % rule)
        if f is not None:
            self.touch(f)
        key = self.site_key(f, construct, module_rel)
        if line is None:
            line = getattr(construct, 'lineno', None) if not isinstance(construct, str) else None
            if line is None and f is not None:
                line = f.node.lineno  # type: ignore[attr-defined]
        ob = Ob(self.prop, rule, key, f.module.relpath if f else (module_rel or ''), f.qualname if f else '<module>',
                int(line or 0), status, detail, witness)
        self.obs.append(ob)
        return ob

    def ok(self, rule: str, f: Optional[FuncInfo], construct: Any, detail: str, **kw: Any) -> Ob:
        return self._add('discharged', rule, f, construct, detail, **kw)

    def bad(self, rule: str, f: Optional[FuncInfo], construct: Any, detail: str, **kw: Any) -> Ob:
        return self._add('violated', rule, f, construct, detail, **kw)

    def undecided(self, rule: str, f: Optional[FuncInfo], construct: Any, detail: str, **kw: Any) -> Ob:
        return self._add('undecided', rule, f, construct, detail, **kw)

    def skip(self, rule: str, f: Optional[FuncInfo], construct: Any, detail: str, **kw: Any) -> Ob:
        """the site exists but has a form outside the enumerated idioms and the clause is not decided for it
        (counted, printed as a note, neither discharged nor violated)"""
        ob = self._add('not_decided', rule, f, construct, detail, **kw)
        self.note('%s not decided at %s: %s' % (rule, ob.key, detail))
        return ob

    def check(self, cond: bool, rule: str, f: Optional[FuncInfo], construct: Any, ok_detail: str, bad_detail: str, **kw: Any) -> bool:
        if cond:
            self.ok(rule, f, construct, ok_detail, **kw)
        else:
            self.bad(rule, f, construct, bad_detail, **kw)
        return cond

    def note(self, text: str) -> None:
        self.notes.append(text)

    def import_rules(self, donor: str, mapping: Dict[str, str], why: str) -> None:
        """Rules that are necessary conditions of more than one property are written once, in the rule set of the property
        they were first written for; another property that also depends on them evaluates the donor's rule set and takes the
        obligations of the named rules under its own rule ids (`mapping`: donor rule id -> own rule id).  One level only."""
        import importlib
        if getattr(self, '_importing', False):
            return
        mod = importlib.import_module('sa.rules.%s' % donor.lower())
        sub = Checker(self.prop, self.prog, self.tier, self.repo)
        sub._importing = True      # type: ignore[attr-defined]
        mod.run(sub)
        for old, new in mapping.items():
            if old not in sub.rules:
                raise AnalysisError('internal: %s has no rule %s to share' % (donor, old))
            self.rule(new, '[shared with %s: %s] %s' % (old, why, sub.rules[old]), sub.min_counts.get(old, 1))
        for ob in sub.obs:
            if ob.rule in mapping:
                ob.rule = mapping[ob.rule]
                self.obs.append(ob)
        self.paths += sub.paths
        self.functions |= sub.functions
        for nt in sub.notes:
            if any(old in nt for old in mapping):
                self.notes.append(nt)


def load_known() -> Dict[str, Any]:
    if not os.path.exists(KNOWN_FILE):
        return {'known': [], 'fixed': []}
    with open(KNOWN_FILE) as f:
        return json.load(f)


def finish(ch: Checker, only: Optional[str] = None, seed: int = 0, write_evidence: bool = True) -> int:
    """Prints the report, writes evidence + replay files, returns the exit code."""
    known = load_known()
    known_keys = {(k['property'], k['rule'], k['key']): k for k in known.get('known', [])}
    obs = ch.obs
    if only:
        obs = [o for o in obs if o.key == only or o.rule == only]
    errors: List[str] = []
    # vacuity guard
    if not only:
        for rid, mn in ch.min_counts.items():
            n = sum(1 for o in obs if o.rule == rid)
            if n < mn:
                errors.append('rule %s matched %d site(s), fewer than the %d confirmed by hand (vanished anchor or unrecognised idiom)' % (rid, n, mn))
    for o in obs:
        if o.status == 'undecided':
            errors.append('undecided %s %s -- %s' % (o.rule, o.key, o.detail))
    violations = [o for o in obs if o.status == 'violated']
    listed = [o for o in violations if (o.prop, o.rule, o.key) in known_keys]
    unlisted = [o for o in violations if (o.prop, o.rule, o.key) not in known_keys]
    discharged = sum(1 for o in obs if o.status == 'discharged')

    print('property %s tier=%s repo=%s' % (ch.prop, ch.tier, ch.repo))
    print('  rules: %d  obligations: %d  discharged: %d  violated: %d (known %d)  undecided: %d'
          % (len(ch.rules), len(obs), discharged, len(violations), len(listed),
             sum(1 for o in obs if o.status == 'undecided')))
    print('  functions analysed: %d  paths enumerated: %d' % (len(ch.functions), ch.paths))
    for rid in sorted(ch.rules):
        n = sum(1 for o in obs if o.rule == rid)
        nb = sum(1 for o in obs if o.rule == rid and o.status == 'violated')
        print('  %-7s %3d site(s)%s  %s' % (rid, n, (' %d VIOLATED' % nb) if nb else '', ch.rules[rid][:110]))
    for n_ in ch.notes:
        print('  note: %s' % n_)
    for o in listed:
        k = known_keys[(o.prop, o.rule, o.key)]
        print('KNOWN-FINDING: property=%s %s %s -- %s' % (o.prop, o.rule, o.key, k.get('what', o.detail)))

    replay_dir = os.path.join(VERIF, 'replay', ch.prop)
    rc = 0
    if unlisted:
        os.makedirs(replay_dir, exist_ok=True)
        for i, o in enumerate(unlisted):
            path = os.path.join(replay_dir, '%d.json' % i)
            with open(path, 'w') as f:
                json.dump({'property': o.prop, 'rule': o.rule, 'rule_text': ch.rules[o.rule], 'key': o.key,
                           'file': o.file, 'function': o.func, 'line': o.line, 'detail': o.detail,
                           'witness': o.witness,
                           'replay_cmd': './check %s --replay %s' % (o.prop, path)}, f, indent=1)
            print('  %s:%d %s [%s] %s' % (o.file, o.line, o.func, o.rule, o.detail))
            for w in o.witness[:16]:
                print('      | %s' % w)
            print('VIOLATION property=%s replay=%s' % (o.prop, path))
        rc = 1
    if errors:
        for e in errors:
            print('ANALYSIS-ERROR property=%s %s' % (ch.prop, e))
        if rc == 0:
            rc = 2

    if write_evidence and not only:
        samples = []
        seen_rules = set()
        for o in obs:
            if o.rule not in seen_rules or o.status != 'discharged':
                seen_rules.add(o.rule)
                samples.append(o.to_json())
        ev = {
            'property_id': ch.prop,
            'tier': ch.tier,
            'seed': seed,
            'level': 'other',
            'coverage': {
                'explanation': ('Static analysis of %s source (ast only; nothing imported or executed). '
                                'Each rule below is a necessary structural condition of the property, evaluated on the '
                                'control-flow graph / def-use / call structure of the named functions for all paths; '
                                'obligations = rule instances found on this tree, each discharged, violated (listed as known finding or reported) '
                                'or undecided (run fails as ANALYSIS-ERROR).' % ch.repo),
                'rules': [{'id': r, 'text': t, 'sites': sum(1 for o in obs if o.rule == r),
                           'min_sites_confirmed_by_hand': ch.min_counts[r]} for r, t in sorted(ch.rules.items())],
                'obligations': len(obs),
                'discharged': discharged,
                'violated_known': len(listed),
                'violated_new': len(unlisted),
                'undecided': sum(1 for o in obs if o.status == 'undecided'),
                'not_decided_sites': sum(1 for o in obs if o.status == 'not_decided'),
                'functions_analysed': sorted(ch.functions),
                'paths_enumerated': ch.paths,
                'loop_unroll': 1,
                'modules_digest': {m.relpath: m.digest for m in ch.prog.modules.values()
                                   if any(k.startswith(m.relpath + '::') for k in ch.functions)},
                'samples': samples[:60],
                'all_obligation_keys': [o.rule + ' ' + o.key for o in obs][:400],
                'notes': ch.notes,
                'analysis_errors': errors,
                'sensitivity_sweep': ch.sensitivity if ch.sensitivity is not None else 'not run in the quick tier',
                'exhaustive': True,
            },
            'assumptions': [
                'Python semantics of the constructs enumerated in sa/cfg.py; loops contribute 0 or 1 iterations to a path',
                'exceptions are modelled only for statements lexically inside try blocks (edges to every handler that may match)',
                'the rules are necessary conditions: they do not establish the behavioural property, only that its structural preconditions hold on every path',
            ],
            'wall_s': round(time.time() - ch.t0, 3),
            'violations': len(unlisted),
        }
        os.makedirs(os.path.join(VERIF, 'evidence'), exist_ok=True)
        with open(os.path.join(VERIF, 'evidence', '%s.json' % ch.prop), 'w') as f:
            json.dump(ev, f, indent=1, sort_keys=False)
    print('  result: %s  (%.2fs)' % ({0: 'PASS', 1: 'VIOLATION', 2: 'ANALYSIS-ERROR'}[rc], time.time() - ch.t0))
    return rc
