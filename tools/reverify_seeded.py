#!/usr/bin/env python3
"""Developer helper (not a registered check; it EXECUTES the seeded demonstrations, which the checks never do):
re-verifies every seeded change against the current /repo -- its demo must exit 0 on the unchanged tree and non-zero with
the patch applied.  A `fix:` commit can neutralise a seeded change (the behaviour it broke is now robust); such a change is
no longer property-breaking and must be moved out of seeded/.  Usage: tools/reverify_seeded.py [-j N] [ids...]"""
import concurrent.futures as cf
import json, os, shutil, subprocess, sys, tempfile

VERIF = os.path.dirname(os.path.dirname(os.path.abspath(__file__)))


def one(sid):
    d = os.path.join(VERIF, 'seeded', sid)
    t = tempfile.mkdtemp(prefix='reverify.')
    try:
        files = subprocess.check_output(['git', '-C', '/repo', 'ls-files'], text=True).split('\n')
        for f in files:
            if not f or f.startswith(('docs/', 'dashboard/', '.github/')):
                continue
            os.makedirs(os.path.join(t, os.path.dirname(f)), exist_ok=True)
            try:
                shutil.copy(os.path.join('/repo', f), os.path.join(t, f))
            except OSError:
                pass
        env = dict(os.environ, TMPDIR=t)
        def run():
            try:
                return subprocess.run(['/venv/bin/python', os.path.join(d, 'demo.py')], cwd=t, capture_output=True, text=True, timeout=240, env=env).returncode
            except subprocess.TimeoutExpired:
                return 'timeout'
        rc0 = run()
        r = subprocess.run(['patch', '-p1', '-s', '-d', t, '-i', os.path.join(d, 'patch.diff')], capture_output=True, text=True)
        if r.returncode != 0:
            return sid, rc0, 'patch does not apply'
        rc1 = run()
        return sid, rc0, rc1
    finally:
        shutil.rmtree(t, ignore_errors=True)


def main():
    args = [a for a in sys.argv[1:] if not a.startswith('-')]
    jobs = 8
    if '-j' in sys.argv:
        jobs = int(sys.argv[sys.argv.index('-j') + 1]); args = [a for a in args if a != str(jobs)]
    ids = args or sorted(os.listdir(os.path.join(VERIF, 'seeded')))
    bad = 0
    with cf.ThreadPoolExecutor(max_workers=jobs) as ex:
        for sid, rc0, rc1 in ex.map(one, ids):
            ok = rc0 == 0 and rc1 not in (0, 'patch does not apply')
            if not ok:
                bad += 1
            print('%-8s clean=%s patched=%s %s' % (sid, rc0, rc1, '' if ok else '<-- CHECK'), flush=True)
    print('re-verified %d seeded change(s), %d need attention' % (len(ids), bad))


if __name__ == '__main__':
    main()
