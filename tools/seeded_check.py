#!/usr/bin/env python3
"""Developer helper (not a registered check): applies every seeded change under /verif/seeded to a
scratch copy of /repo (mktemp, removed afterwards), runs every property's quick check on it, and
records in meta.json which checks report it.  Usage: tools/seeded_check.py [-j N] [ids...]"""
import concurrent.futures as cf
import json, os, re, shutil, subprocess, sys, tempfile

VERIF = os.path.dirname(os.path.dirname(os.path.abspath(__file__)))
PROPS = sorted(f[:-3].upper() for f in os.listdir(os.path.join(VERIF, 'sa', 'rules')) if re.match(r'c\d+\.py$', f))


def one(sid: str):
    d = os.path.join(VERIF, 'seeded', sid)
    t = tempfile.mkdtemp(prefix='seeded.')
    try:
        files = subprocess.check_output(['git', '-C', '/repo', 'ls-files', 'proxy'], text=True).split()
        for f in files:
            os.makedirs(os.path.join(t, os.path.dirname(f)), exist_ok=True)
            shutil.copy(os.path.join('/repo', f), os.path.join(t, f))
        r = subprocess.run(['patch', '-p1', '-s', '-d', t, '-i', os.path.join(d, 'patch.diff')], capture_output=True, text=True)
        if r.returncode != 0:
            return sid, None, 'patch does not apply: ' + r.stdout[:200]
        hits = {}
        for p in PROPS:
            r = subprocess.run([os.path.join(VERIF, 'check'), p, '--repo', t, '--no-evidence'], capture_output=True, text=True)
            if r.returncode == 1:
                rules = sorted(set(re.findall(r'\[(C\d+\.\w+)\]', r.stdout)))
                hits[p] = rules
            elif r.returncode == 2:
                hits[p] = ['ANALYSIS-ERROR']
        return sid, hits, ''
    finally:
        shutil.rmtree(t, ignore_errors=True)


def main():
    args = [a for a in sys.argv[1:] if not a.startswith('-')]
    ids = args or sorted(os.listdir(os.path.join(VERIF, 'seeded')))
    missed = 0
    with cf.ThreadPoolExecutor(max_workers=12) as ex:
        for sid, hits, err in ex.map(one, ids):
            meta_p = os.path.join(VERIF, 'seeded', sid, 'meta.json')
            meta = json.load(open(meta_p))
            own = meta['property']
            if hits is None:
                print('%-8s ERROR %s' % (sid, err)); missed += 1
                continue
            det = ['%s: %s' % (p, ', '.join(r)) for p, r in sorted(hits.items())]
            meta['detected_by'] = det
            meta['detected_by_own_property_check'] = own in hits and hits[own] != ['ANALYSIS-ERROR']
            json.dump(meta, open(meta_p, 'w'), indent=1)
            flag = 'OK  ' if meta['detected_by_own_property_check'] else ('other' if hits else 'MISS')
            if flag != 'OK  ':
                missed += 1
            print('%-8s %s %s' % (sid, flag, '; '.join(det)))
    print('seeded changes: %d, not detected by their own property\'s check: %d' % (len(ids), missed))
    return 0


if __name__ == '__main__':
    sys.exit(main())
