#!/usr/bin/env python3
"""Freezes the vocabulary of function/method names of proxy/** the rule sets were written against
(sa/vocabulary.json).  sa/inline.py inlines only helpers whose name is NOT in this vocabulary, i.e.
helpers introduced after the rules were written are treated as implementation detail of their callers.
Run on the tree the rules were confirmed against; commit the result."""
import json, os, sys
sys.path.insert(0, os.path.dirname(os.path.dirname(os.path.abspath(__file__))))
from sa.model import Program
p = Program(sys.argv[1] if len(sys.argv) > 1 else '/repo', inline=False)
names = sorted({f.name for f in p.functions.values()})
out = os.path.join(os.path.dirname(os.path.dirname(os.path.abspath(__file__))), 'sa', 'vocabulary.json')
json.dump({'names': names}, open(out, 'w'), indent=0)
print(len(names), 'names written to', out)
