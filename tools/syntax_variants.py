#!/usr/bin/env python3
"""Developer helper (not a registered check): mechanical behaviour-preserving rewrites of /repo's source, applied to a
scratch copy (mktemp, removed afterwards), after which every check must give the verdict it gives on the unchanged tree.
Each family is an identity of the language, so an alarm is a false alarm of the checker (a rule depending on how
something is spelled).  The one expected difference: a finding listed in known_findings.json under a key that quotes a
rewritten construct is re-reported as a VIOLATION of the same rule (still true); those are not counted.

Families (--family NAME, default all, one copy per family):
  swap-branches   if C: A else: B            ->  if not C: B else: A          (elif chains untouched)
  swap-ifexp      A if C else B              ->  B if not C else A
  nest-and        if A and B: S  (no else)   ->  if A: if B: S
  demorgan        not (A or B) / not (A and B) -> not A and not B / not A or not B
  flip-compare    X op K  (K a constant or name, X arbitrary, one operator)  ->  K op' X   for ==, !=, <, <=, >, >=
  is-not          not (A is B) <-> A is not B,  not (A in B) <-> A not in B  (towards the `not in` / `is not` operators)
  len-zero        len(X) == 0  ->  not len(X);  len(X) > 0 / len(X) != 0  ->  bool-context only (inside if/while tests)
  aug-assign      N += K (K an int constant)  ->  N = N + K  for plain local names
  not-form        A is not B / A != B / A not in B  ->  not (A is B) / not (A == B) / not (A in B)
  return-temp     return EXPR                ->  result__ = EXPR; return result__
  test-temp       if EXPR: ...               ->  cond__N = EXPR; if cond__N: ...
  wrap-else       if C: ...return; REST      ->  if C: ...return  else: REST
  unwrap-else     the reverse, for an if/else that ends a block
  del-to-pop      del X[k]                   ->  X.pop(k)
  return-bool     if T: return True [else:] return False  ->  return bool(T);  with False / True  ->  return not T
  suppress        try: BODY except E: pass   ->  with contextlib.suppress(E): BODY
  with-to-acquire with L: BODY (L a lock)    ->  L.acquire(); try: BODY finally: L.release()
  guard-clause    def f(): PRE; if C: BODY   ->  def f(): PRE; if not C: return; BODY     (the if ends the function, no else)
  pos-to-kw       f(a, b, c) -> f(a, y=b, z=c)   for calls of module-level repository functions (resolved by unique name)
  kw-to-pos       f(a, y=b) -> f(a, b)           where the keyword is the next parameter and the first keyword written
Usage: tools/syntax_variants.py [--family F]... [--per-file] [--validate] [path prefixes, default proxy/]
  --validate runs the repository's stable tests on each rewritten tree first (a git worktree under /tmp, removed afterwards)"""
import ast
import concurrent.futures as cf
import copy
import json
import os
import re
import shutil
import subprocess
import sys
import tempfile
from typing import Dict, List, Optional, Tuple

VERIF = os.path.dirname(os.path.dirname(os.path.abspath(__file__)))
PROPS = sorted(f[:-3].upper() for f in os.listdir(os.path.join(VERIF, 'sa', 'rules')) if re.match(r'c\d+\.py$', f))


def neg(e: ast.expr) -> ast.expr:
    if isinstance(e, ast.UnaryOp) and isinstance(e.op, ast.Not):
        return e.operand
    return ast.UnaryOp(op=ast.Not(), operand=e)


class SwapBranches(ast.NodeTransformer):
    n = 0

    def visit_If(self, node: ast.If) -> ast.AST:
        self.generic_visit(node)
        if node.orelse and not (len(node.orelse) == 1 and isinstance(node.orelse[0], ast.If)) and not isinstance(node.test, ast.NamedExpr) \
                and not any(isinstance(x, ast.NamedExpr) for x in ast.walk(node.test)):
            self.n += 1
            return ast.If(test=neg(node.test), body=node.orelse, orelse=node.body)
        return node


class SwapIfExp(ast.NodeTransformer):
    n = 0

    def visit_IfExp(self, node: ast.IfExp) -> ast.AST:
        self.generic_visit(node)
        if any(isinstance(x, ast.NamedExpr) for x in ast.walk(node.test)):
            return node
        self.n += 1
        return ast.IfExp(test=neg(node.test), body=node.orelse, orelse=node.body)


class NestAnd(ast.NodeTransformer):
    n = 0

    def visit_If(self, node: ast.If) -> ast.AST:
        self.generic_visit(node)
        if not node.orelse and isinstance(node.test, ast.BoolOp) and isinstance(node.test.op, ast.And) and len(node.test.values) >= 2:
            self.n += 1
            first, rest = node.test.values[0], node.test.values[1:]
            inner_test = rest[0] if len(rest) == 1 else ast.BoolOp(op=ast.And(), values=rest)
            return ast.If(test=first, body=[ast.If(test=inner_test, body=node.body, orelse=[])], orelse=[])
        return node


class DeMorgan(ast.NodeTransformer):
    n = 0

    def visit_UnaryOp(self, node: ast.UnaryOp) -> ast.AST:
        self.generic_visit(node)
        if isinstance(node.op, ast.Not) and isinstance(node.operand, ast.BoolOp):
            self.n += 1
            op = ast.And() if isinstance(node.operand.op, ast.Or) else ast.Or()
            return ast.BoolOp(op=op, values=[neg(v) for v in node.operand.values])
        return node


FLIP = {ast.Eq: ast.Eq, ast.NotEq: ast.NotEq, ast.Lt: ast.Gt, ast.LtE: ast.GtE, ast.Gt: ast.Lt, ast.GtE: ast.LtE}


class FlipCompare(ast.NodeTransformer):
    n = 0

    def visit_Compare(self, node: ast.Compare) -> ast.AST:
        self.generic_visit(node)
        if len(node.ops) == 1 and type(node.ops[0]) in FLIP and isinstance(node.comparators[0], (ast.Constant, ast.Name, ast.Attribute)) \
                and not isinstance(node.left, (ast.Constant,)):
            rhs = node.comparators[0]
            # attribute chains of plain names only (no calls on the right: evaluation order)
            x = rhs
            while isinstance(x, ast.Attribute):
                x = x.value
            if not isinstance(x, (ast.Name, ast.Constant)):
                return node
            self.n += 1
            return ast.Compare(left=rhs, ops=[FLIP[type(node.ops[0])]()], comparators=[node.left])
        return node


class IsNot(ast.NodeTransformer):
    n = 0

    def visit_UnaryOp(self, node: ast.UnaryOp) -> ast.AST:
        self.generic_visit(node)
        if isinstance(node.op, ast.Not) and isinstance(node.operand, ast.Compare) and len(node.operand.ops) == 1:
            op = node.operand.ops[0]
            m = {ast.Is: ast.IsNot, ast.IsNot: ast.Is, ast.In: ast.NotIn, ast.NotIn: ast.In}
            if type(op) in m:
                self.n += 1
                return ast.Compare(left=node.operand.left, ops=[m[type(op)]()], comparators=node.operand.comparators)
        return node


class LenZero(ast.NodeTransformer):
    n = 0

    def visit_Compare(self, node: ast.Compare) -> ast.AST:
        self.generic_visit(node)
        if len(node.ops) == 1 and isinstance(node.ops[0], ast.Eq) and isinstance(node.left, ast.Call) and isinstance(node.left.func, ast.Name) and node.left.func.id == 'len' \
                and isinstance(node.comparators[0], ast.Constant) and node.comparators[0].value == 0:
            self.n += 1
            return ast.UnaryOp(op=ast.Not(), operand=node.left)
        return node


class AugAssign(ast.NodeTransformer):
    n = 0

    def visit_AugAssign(self, node: ast.AugAssign) -> ast.AST:
        if isinstance(node.target, ast.Name) and isinstance(node.value, ast.Constant) and isinstance(node.value.value, int) and not isinstance(node.value.value, bool):
            self.n += 1
            return ast.Assign(targets=[ast.Name(id=node.target.id, ctx=ast.Store())], value=ast.BinOp(left=ast.Name(id=node.target.id, ctx=ast.Load()), op=node.op, right=node.value), lineno=node.lineno)
        return node


class NotForm(ast.NodeTransformer):
    """A is not B -> not (A is B);  A != K -> not (A == K);  A not in B -> not (A in B)"""
    n = 0

    def visit_Compare(self, node: ast.Compare) -> ast.AST:
        self.generic_visit(node)
        m = {ast.IsNot: ast.Is, ast.NotEq: ast.Eq, ast.NotIn: ast.In}
        if len(node.ops) == 1 and type(node.ops[0]) in m:
            self.n += 1
            return ast.UnaryOp(op=ast.Not(), operand=ast.Compare(left=node.left, ops=[m[type(node.ops[0])]()], comparators=node.comparators))
        return node


class ReturnTemp(ast.NodeTransformer):
    """return EXPR -> result__ = EXPR; return result__   (not for bare names / constants)"""
    n = 0

    def _block(self, body: List[ast.stmt]) -> List[ast.stmt]:
        out: List[ast.stmt] = []
        for s in body:
            if isinstance(s, ast.Return) and s.value is not None and not isinstance(s.value, (ast.Name, ast.Constant)):
                self.n += 1
                out.append(ast.Assign(targets=[ast.Name(id='result__', ctx=ast.Store())], value=s.value, lineno=s.lineno))
                out.append(ast.Return(value=ast.Name(id='result__', ctx=ast.Load())))
            else:
                out.append(s)
        return out

    def generic_visit(self, node: ast.AST) -> ast.AST:
        super().generic_visit(node)
        for f in ('body', 'orelse', 'finalbody'):
            b = getattr(node, f, None)
            if isinstance(b, list) and b and isinstance(b[0], ast.stmt):
                setattr(node, f, self._block(b))
        return node

    def visit_Lambda(self, node: ast.Lambda) -> ast.AST:
        return node


class TestTemp(ast.NodeTransformer):
    """if EXPR: ... -> cond__N = EXPR; if cond__N: ...   (EXPR not a bare name; walrus-free)"""
    n = 0

    def _block(self, body: List[ast.stmt]) -> List[ast.stmt]:
        out: List[ast.stmt] = []
        for s in body:
            if isinstance(s, ast.If) and not isinstance(s.test, (ast.Name, ast.Constant)) and not any(isinstance(x, (ast.NamedExpr, ast.Await, ast.Yield)) for x in ast.walk(s.test)):
                self.n += 1
                nm = 'cond__%d' % self.n
                out.append(ast.Assign(targets=[ast.Name(id=nm, ctx=ast.Store())], value=s.test, lineno=s.lineno))
                s.test = ast.Name(id=nm, ctx=ast.Load())
            out.append(s)
        return out

    def generic_visit(self, node: ast.AST) -> ast.AST:
        super().generic_visit(node)
        for f in ('body', 'orelse', 'finalbody'):
            b = getattr(node, f, None)
            if isinstance(b, list) and b and isinstance(b[0], ast.stmt):
                setattr(node, f, self._block(b))
        return node


def _terminal(body: List[ast.stmt]) -> bool:
    return bool(body) and isinstance(body[-1], (ast.Return, ast.Raise, ast.Continue, ast.Break))


class WrapElse(ast.NodeTransformer):
    """if C: ...; return X        ->  if C: ...; return X
       REST                           else: REST            (the statements after a branch that always leaves)"""
    n = 0

    def _block(self, body: List[ast.stmt]) -> List[ast.stmt]:
        for i, s in enumerate(body):
            if isinstance(s, ast.If) and not s.orelse and _terminal(s.body) and i + 1 < len(body):
                self.n += 1
                s.orelse = self._block(body[i + 1:])
                return body[:i + 1]
        return body

    def generic_visit(self, node: ast.AST) -> ast.AST:
        super().generic_visit(node)
        for f in ('body', 'orelse', 'finalbody'):
            b = getattr(node, f, None)
            if isinstance(b, list) and b and isinstance(b[0], ast.stmt) and not isinstance(node, (ast.ClassDef, ast.Module)):
                setattr(node, f, self._block(b))
        return node


class UnwrapElse(ast.NodeTransformer):
    """if C: ...; return X else: REST  ->  if C: ...; return X; REST"""
    n = 0

    def _block(self, body: List[ast.stmt]) -> List[ast.stmt]:
        out: List[ast.stmt] = []
        for i, s in enumerate(body):
            if isinstance(s, ast.If) and s.orelse and _terminal(s.body) and i == len(body) - 1:
                self.n += 1
                rest = s.orelse
                s.orelse = []
                out.append(s)
                out.extend(self._block(rest))
            else:
                out.append(s)
        return out

    def generic_visit(self, node: ast.AST) -> ast.AST:
        super().generic_visit(node)
        for f in ('body', 'orelse', 'finalbody'):
            b = getattr(node, f, None)
            if isinstance(b, list) and b and isinstance(b[0], ast.stmt) and not isinstance(node, (ast.ClassDef, ast.Module)):
                setattr(node, f, self._block(b))
        return node


class DelToPop(ast.NodeTransformer):
    """del X[k] -> X.pop(k)   (one target, an index not a slice: the same removal and the same KeyError / IndexError on dicts and lists)"""
    n = 0

    def visit_Delete(self, node: ast.Delete) -> ast.AST:
        if len(node.targets) == 1 and isinstance(node.targets[0], ast.Subscript) and not isinstance(node.targets[0].slice, (ast.Slice, ast.Tuple)):
            t = node.targets[0]
            self.n += 1
            return ast.Expr(value=ast.Call(func=ast.Attribute(value=t.value, attr='pop', ctx=ast.Load()), args=[t.slice], keywords=[]))
        return node


class ReturnBool(ast.NodeTransformer):
    """if T: return True [else:] return False  ->  return bool(T);     if T: return False [else:] return True  ->  return not T"""
    n = 0

    @staticmethod
    def _const(s: ast.stmt) -> Optional[bool]:
        if isinstance(s, ast.Return) and isinstance(s.value, ast.Constant) and isinstance(s.value.value, bool):
            return s.value.value
        return None

    def _block(self, body: List[ast.stmt]) -> List[ast.stmt]:
        out: List[ast.stmt] = []
        i = 0
        while i < len(body):
            s = body[i]
            if isinstance(s, ast.If) and len(s.body) == 1 and self._const(s.body[0]) is not None and \
                    not any(isinstance(x, (ast.NamedExpr, ast.Await, ast.Yield)) for x in ast.walk(s.test)):
                a = self._const(s.body[0])
                b = None
                used = 0
                if len(s.orelse) == 1 and self._const(s.orelse[0]) is not None:
                    b = self._const(s.orelse[0])
                elif not s.orelse and i + 1 < len(body) and self._const(body[i + 1]) is not None:
                    b, used = self._const(body[i + 1]), 1
                if b is not None and a != b:
                    self.n += 1
                    v: ast.expr = ast.Call(func=ast.Name(id='bool', ctx=ast.Load()), args=[s.test], keywords=[]) if a else ast.UnaryOp(op=ast.Not(), operand=s.test)
                    out.append(ast.Return(value=v, lineno=s.lineno))
                    i += 1 + used
                    continue
            out.append(s)
            i += 1
        return out

    def generic_visit(self, node: ast.AST) -> ast.AST:
        super().generic_visit(node)
        for f in ('body', 'orelse', 'finalbody'):
            b = getattr(node, f, None)
            if isinstance(b, list) and b and isinstance(b[0], ast.stmt) and not isinstance(node, (ast.ClassDef, ast.Module)):
                setattr(node, f, self._block(b))
        return node


class Suppress(ast.NodeTransformer):
    """try: BODY except E: pass   ->   with contextlib.suppress(E): BODY     (one handler without a name, no else / finally; BODY free of
    break / continue / yield so that it means the same inside a with block -- it does anyway, this only keeps the rewrite obviously exact)"""
    n = 0

    def visit_Try(self, node: ast.Try) -> ast.AST:
        self.generic_visit(node)
        if len(node.handlers) == 1 and node.handlers[0].type is not None and node.handlers[0].name is None and not node.orelse and not node.finalbody and \
                len(node.handlers[0].body) == 1 and isinstance(node.handlers[0].body[0], ast.Pass) and \
                not any(isinstance(x, (ast.Yield, ast.YieldFrom, ast.Await)) for b in node.body for x in ast.walk(b)):
            typ = node.handlers[0].type
            args = list(typ.elts) if isinstance(typ, ast.Tuple) else [typ]
            self.n += 1
            ctx = ast.Call(func=ast.Attribute(value=ast.Name(id='contextlib', ctx=ast.Load()), attr='suppress', ctx=ast.Load()), args=args, keywords=[])
            return ast.With(items=[ast.withitem(context_expr=ctx, optional_vars=None)], body=node.body, lineno=node.lineno)
        return node

    def visit_Module(self, node: ast.Module) -> ast.AST:
        self.generic_visit(node)
        if self.n and not any(isinstance(s, ast.Import) and any(a.name == 'contextlib' and a.asname is None for a in s.names) for s in node.body):
            k = 1 if node.body and isinstance(node.body[0], ast.Expr) and isinstance(getattr(node.body[0], 'value', None), ast.Constant) else 0
            while k < len(node.body) and isinstance(node.body[k], ast.ImportFrom) and node.body[k].module == '__future__':
                k += 1
            node.body.insert(k, ast.Import(names=[ast.alias(name='contextlib', asname=None)]))
        return node


class WithToAcquire(ast.NodeTransformer):
    """with L: BODY  ->  L.acquire(); try: BODY finally: L.release()     for a lock (a name / attribute chain whose last part contains
    "lock", no `as` target): what the with statement does for threading / multiprocessing locks"""
    n = 0

    def visit_With(self, node: ast.With) -> ast.AST:
        self.generic_visit(node)
        if len(node.items) == 1 and node.items[0].optional_vars is None:
            e = node.items[0].context_expr
            last = e.attr if isinstance(e, ast.Attribute) else e.id if isinstance(e, ast.Name) else ''
            x = e
            while isinstance(x, ast.Attribute):
                x = x.value
            if 'lock' in last.lower() and isinstance(x, ast.Name):
                self.n += 1
                acq = ast.Expr(value=ast.Call(func=ast.Attribute(value=copy.deepcopy(e), attr='acquire', ctx=ast.Load()), args=[], keywords=[]), lineno=node.lineno)
                rel = ast.Expr(value=ast.Call(func=ast.Attribute(value=copy.deepcopy(e), attr='release', ctx=ast.Load()), args=[], keywords=[]), lineno=node.lineno)
                return [acq, ast.Try(body=node.body, handlers=[], orelse=[], finalbody=[rel], lineno=node.lineno)]
        return node


class GuardClause(ast.NodeTransformer):
    """def f(): PRE; if C: BODY     ->     def f(): PRE; if not C: return; BODY       (the if is the last statement of the function and has no else)"""
    n = 0

    def _fn(self, node: ast.AST) -> ast.AST:
        self.generic_visit(node)
        b = node.body      # type: ignore[attr-defined]
        if b and isinstance(b[-1], ast.If) and not b[-1].orelse and not any(isinstance(x, (ast.Yield, ast.YieldFrom)) for x in ast.walk(node)) and \
                not any(isinstance(x, ast.NamedExpr) for x in ast.walk(b[-1].test)):
            last = b[-1]
            self.n += 1
            node.body = b[:-1] + [ast.If(test=neg(last.test), body=[ast.Return(value=None)], orelse=[], lineno=last.lineno)] + last.body      # type: ignore[attr-defined]
        return node

    def visit_FunctionDef(self, node: ast.FunctionDef) -> ast.AST:
        return self._fn(node)

    def visit_AsyncFunctionDef(self, node: ast.AsyncFunctionDef) -> ast.AST:
        return self._fn(node)


class _CallRewriter(ast.NodeTransformer):
    """base for the two argument-spelling families: only calls of MODULE-LEVEL functions of the repository, resolved by the name the
    calling module imports or defines (methods are left alone: dynamic dispatch may reach an override with other parameter names)"""
    n = 0
    table: Dict[str, List[str]] = {}       # function name -> parameter names (unique across the repository, no *args / **kwargs / positional-only)

    def params_of(self, call: ast.Call) -> Optional[List[str]]:
        if isinstance(call.func, ast.Name) and call.func.id in self.table and not any(isinstance(a, ast.Starred) for a in call.args) and \
                not any(k.arg is None for k in call.keywords):
            return self.table[call.func.id]
        return None


class PosToKw(_CallRewriter):
    def visit_Call(self, node: ast.Call) -> ast.AST:
        self.generic_visit(node)
        ps = self.params_of(node)
        if ps is None or not node.args or len(node.args) > len(ps):
            return node
        # keep the first argument positional (the common style), name the others
        keep = 1
        if len(node.args) <= keep:
            return node
        type(self).n += 1
        new_kw = [ast.keyword(arg=ps[i], value=a) for i, a in enumerate(node.args) if i >= keep]
        return ast.Call(func=node.func, args=node.args[:keep], keywords=new_kw + node.keywords)


class KwToPos(_CallRewriter):
    def visit_Call(self, node: ast.Call) -> ast.AST:
        self.generic_visit(node)
        ps = self.params_of(node)
        if ps is None or not node.keywords:
            return node
        args = list(node.args)
        kws = {k.arg: k.value for k in node.keywords}
        moved = 0
        while len(args) < len(ps) and ps[len(args)] in kws:
            # evaluation order: arguments are evaluated left to right as written; moving a keyword forward is only safe when it is the
            # FIRST keyword written (so it was already evaluated right after the positional ones)
            if node.keywords[moved].arg != ps[len(args)]:
                break
            args.append(kws.pop(ps[len(args)]))
            moved += 1
        if not moved:
            return node
        type(self).n += 1
        return ast.Call(func=node.func, args=args, keywords=[k for k in node.keywords if k.arg in kws])


def _module_level_functions() -> Dict[str, List[str]]:
    """unique module-level function names of proxy/** with plain parameters"""
    seen: Dict[str, List[List[str]]] = {}
    for f in tracked():
        if not f.endswith('.py'):
            continue
        try:
            t = ast.parse(open(os.path.join('/repo', f), encoding='utf-8').read())
        except SyntaxError:
            continue
        for s in t.body:
            if isinstance(s, (ast.FunctionDef, ast.AsyncFunctionDef)):
                a = s.args
                if a.vararg or a.kwarg or a.posonlyargs or a.kwonlyargs or s.decorator_list:
                    seen.setdefault(s.name, []).append([])
                else:
                    seen.setdefault(s.name, []).append([x.arg for x in a.args])
            elif isinstance(s, ast.ClassDef):
                seen.setdefault(s.name, []).append([])       # a class of that name: calls are constructor calls, left alone
    return {k: v[0] for k, v in seen.items() if len(v) == 1 and v[0]}


FAMILIES = {
    'pos-to-kw': PosToKw, 'kw-to-pos': KwToPos,
    'not-form': NotForm, 'return-temp': ReturnTemp, 'test-temp': TestTemp, 'wrap-else': WrapElse, 'unwrap-else': UnwrapElse,
    'swap-branches': SwapBranches, 'swap-ifexp': SwapIfExp, 'nest-and': NestAnd, 'demorgan': DeMorgan,
    'flip-compare': FlipCompare, 'is-not': IsNot, 'len-zero': LenZero, 'aug-assign': AugAssign,
    'del-to-pop': DelToPop, 'return-bool': ReturnBool, 'suppress': Suppress, 'with-to-acquire': WithToAcquire, 'guard-clause': GuardClause,
}


def rewrite(src: str, family: str) -> Tuple[str, int]:
    tree = ast.parse(src)
    if issubclass(FAMILIES[family], _CallRewriter):
        if not _CallRewriter.table:
            _CallRewriter.table = _module_level_functions()
        FAMILIES[family].n = 0
    t = FAMILIES[family]()
    new = ast.fix_missing_locations(t.visit(tree))
    if t.n == 0:
        return src, 0
    out = ast.unparse(new) + '\n'
    ast.parse(out)
    return out, t.n


def tracked() -> List[str]:
    return subprocess.check_output(['git', '-C', '/repo', 'ls-files', 'proxy'], text=True).split()


def make_copy(files: List[str], sel: List[str], family: str, root: Optional[str] = None) -> Tuple[str, int]:
    t = root or tempfile.mkdtemp(prefix='variant.')
    total = 0
    for f in files:
        os.makedirs(os.path.join(t, os.path.dirname(f)), exist_ok=True)
        if f in sel:
            out, n = rewrite(open(os.path.join('/repo', f), encoding='utf-8').read(), family)
            total += n
            open(os.path.join(t, f), 'w', encoding='utf-8').write(out)
        elif root is None:
            shutil.copy(os.path.join('/repo', f), os.path.join(t, f))
    return t, total


def run_checks(t: str) -> Dict[str, Tuple[int, List[str]]]:
    def one(p: str):
        r = subprocess.run([os.path.join(VERIF, 'check'), p, '--repo', t, '--no-evidence'], capture_output=True, text=True)
        lines = [l.strip()[:260] for l in r.stdout.splitlines() if re.search(r'\[C\d+\.\w+\]|ANALYSIS-ERROR', l)]
        return p, r.returncode, lines
    out = {}
    with cf.ThreadPoolExecutor(max_workers=10) as ex:
        for p, rc, lines in ex.map(one, PROPS):
            if rc != 0:
                out[p] = (rc, lines)
    return out


def validate(family: str, sel: List[str]) -> str:
    wt = tempfile.mkdtemp(prefix='variant_wt.')
    os.rmdir(wt)
    subprocess.check_call(['git', '-C', '/repo', 'worktree', 'add', '--detach', wt, 'HEAD'], stdout=subprocess.DEVNULL, stderr=subprocess.DEVNULL)
    try:
        make_copy(tracked(), sel, family, root=wt)
        r = subprocess.run([os.path.join(VERIF, 'tools', 'run_stable_tests.sh'), wt], capture_output=True, text=True)
        return (r.stdout.strip().splitlines() or ['?'])[0]
    finally:
        subprocess.call(['git', '-C', '/repo', 'worktree', 'remove', '--force', wt], stdout=subprocess.DEVNULL, stderr=subprocess.DEVNULL)


def main() -> int:
    args = sys.argv[1:]
    fams = [args[i + 1] for i, a in enumerate(args) if a == '--family'] or list(FAMILIES)
    per_file = '--per-file' in args
    do_validate = '--validate' in args
    prefixes = [a for i, a in enumerate(args) if not a.startswith('-') and (i == 0 or args[i - 1] != '--family')] or ['proxy/']
    files = tracked()
    sel = [f for f in files if f.endswith('.py') and any(f.startswith(p) for p in prefixes)]
    known_rules = {k['rule'] for k in json.load(open(os.path.join(VERIF, 'known_findings.json')))['known']}
    bad = 0
    for fam in fams:
        if do_validate:
            print('%-14s tests on the rewritten tree: %s' % (fam, validate(fam, sel)))
        groups = [[f] for f in sel] if per_file else [sel]
        for grp in groups:
            t, n = make_copy(files, grp, fam)
            try:
                if n == 0:
                    if not per_file:
                        print('%-60s %4d rewrites  (nothing on this tree has that form)' % ('%s (%d modules)' % (fam, len(grp)), 0))
                    continue
                alarms = run_checks(t)
                real = {}
                for p, (rc, lines) in alarms.items():
                    ls = [l for l in lines if not any('[%s]' % kr in l for kr in known_rules)]
                    if ls or rc == 2:
                        real[p] = (rc, ls or lines)
                label = '%s %s' % (fam, grp[0] if per_file else '(%d modules)' % len(grp))
                if real:
                    bad += 1
                    print('%-60s %4d rewrites  FALSE ALARM' % (label, n))
                    for p, (rc, lines) in sorted(real.items()):
                        for l in lines[:5]:
                            print('      %s rc=%d %s' % (p, rc, l))
                else:
                    print('%-60s %4d rewrites  silent%s' % (label, n, '  (known findings re-reported under rewritten keys: %s)' % sorted(alarms) if alarms else ''))
            finally:
                shutil.rmtree(t, ignore_errors=True)
    return 1 if bad else 0


if __name__ == '__main__':
    sys.exit(main())
