#!/bin/sh
# Developer helper: validate MANIFEST.json and every evidence file against the given schemas.
cd "$(dirname "$0")/.." || exit 2
python3-vt - <<'PY'
import json, jsonschema, glob, sys
ms = json.load(open('/root/.vp/MANIFEST.schema.json')); es = json.load(open('/root/.vp/EVIDENCE.schema.json'))
jsonschema.validate(json.load(open('MANIFEST.json')), ms); print('MANIFEST ok')
bad = 0
for f in sorted(glob.glob('evidence/*.json')):
    try:
        jsonschema.validate(json.load(open(f)), es)
    except Exception as e:
        bad += 1; print('BAD', f, str(e)[:200])
print('evidence files ok:', len(glob.glob('evidence/*.json')) - bad, 'bad:', bad)
sys.exit(1 if bad else 0)
PY
