#!/bin/sh
# Developer helper: run checks against a scratch copy of /repo with a patch applied.
# usage: tools/try_patch.sh <patch.diff> <Cxx> [<Cyy> ...]     (use ALL for every property)
# The copy lives under mktemp -d (outside /repo and /verif) and is removed afterwards.
PATCH="$1"; shift
T="$(mktemp -d /tmp/trypatch.XXXXXX)"
mkdir -p "$T/repo"
(cd /repo && git ls-files -z | xargs -0 cp --parents -t "$T/repo" 2>/dev/null)
(cd /repo && git diff HEAD --quiet) || (cd /repo && git diff HEAD | (cd "$T/repo" && patch -p1 -s))
(cd "$T/repo" && patch -p1 -s < "$PATCH") || { echo "PATCH DID NOT APPLY"; rm -rf "$T"; exit 3; }
rc=0
for P in "$@"; do
  /verif/check "$P" --repo "$T/repo" --no-evidence | sed "s#$T/repo#<scratch>#g" | grep -v "^  C[0-9]*\.[0-9a-z]* *[0-9]* site(s)  "
  r=$?
done
rm -rf "$T"
